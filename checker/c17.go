package main

import (
	"go/token"
	"strings"

	"golang.org/x/tools/go/ssa"
)

func init() { register("C17", checkC17) }

const kTree = "hs/internal/tree.Tree."

func checkC17(c *Ctx) {
	p := c.P
	c.Decided = "the index algebra of the tree layout: a Tree is immutable after construction (fields stored only by the constructor and the two wait-time setters); arithmetic on the branch factor occurs only in Parent, ChildrenOf, heightOf and treeHeight, from which all other views derive; " +
		"the parent of position c is (c-1) div B and the children of position p are the positions p*B+1 .. p*B+B clamped to n (polynomial identities on the extracted expressions), so with B >= 2 every position >= 1 lies in the child range of exactly its parent; " +
		"ChildrenOf guards its slice expression (known replica, start < n, end <= n) and the constructor rejects a position list without the replica and a branch factor below 2."
	c.NotDec = "heights, SubTree closure as a functional property of its loop, and consistency across replicas that were configured with different position lists."
	c.Expect("C17.1", 5)
	c.Expect("C17.4", 3)

	// C17.1 immutability
	for _, f := range []string{"id", "height", "branchFactor", "treePosToID"} {
		c.whoMayWrite("C17.1", p.Field("internal/tree", "Tree", f), "Tree."+f)
	}
	c.whoMayWrite("C17.1", p.Field("internal/tree", "Tree", "waitTime"), "Tree.waitTime", "(*hs/internal/tree.Tree).SetAggregationWaitTime", "(*hs/internal/tree.Tree).SetTreeHeightWaitTime")

	// C17.2 who does layout arithmetic on branchFactor
	{
		allowed := map[string]bool{"(hs/internal/tree.Tree).Parent": true, "(hs/internal/tree.Tree).ChildrenOf": true, "(hs/internal/tree.Tree).heightOf": true, "hs/internal/tree.treeHeight": true, "hs/internal/tree.NewSimple": true}
		var extra []string
		n := 0
		for _, fn := range p.ModFuncs {
			if fn.Synthetic != "" {
				continue
			}
			k := NewKeyer(p, fn)
			eachInstr(fn, func(in ssa.Instruction) {
				b, ok := in.(*ssa.BinOp)
				if !ok {
					return
				}
				switch b.Op {
				case token.MUL, token.QUO, token.REM, token.ADD, token.SUB:
				default:
					return
				}
				if strings.Contains(k.Key(b.X), kTree+"branchFactor") || strings.Contains(k.Key(b.Y), kTree+"branchFactor") {
					n++
					if !allowed[shortName(declaredParent(fn))] {
						extra = append(extra, shortName(fn)+" ("+p.InstrPos(in)+")")
					}
				}
			})
		}
		c.Check(len(extra) == 0 && n > 0, "C17.2", "layout arithmetic on the branch factor", "internal/tree/tree.go",
			itoa(n)+" arithmetic uses of branchFactor, all in Parent, ChildrenOf, heightOf (treeHeight takes it as a parameter)", "layout arithmetic outside the four layout functions: "+join(extra))
		// derived views call the primitives
		for _, d := range []struct{ fn, must string }{{"ReplicaChildren", "ChildrenOf"}, {"PeersOf", "ChildrenOf"}, {"SubTree", "ChildrenOf"}, {"IsRoot", "replicaPosition"}} {
			fn := p.Method("internal/tree", "Tree", d.fn)
			if fn == nil {
				c.Unresolved("C17.2", "Tree."+d.fn, "anchor missing")
				continue
			}
			ok := len(callsIn(fn, false, func(cc *ssa.CallCommon) bool { return cc.StaticCallee() != nil && cc.StaticCallee().Name() == d.must })) > 0
			c.Check(ok, "C17.2", "Tree."+d.fn+" derives from "+d.must, p.FuncPos(fn), "no independent layout computation", d.fn+" does not use "+d.must)
		}
	}

	// C17.3 guards
	co := p.Method("internal/tree", "Tree", "ChildrenOf")
	par := p.Method("internal/tree", "Tree", "Parent")
	ns := p.Func("internal/tree", "NewSimple")
	if co == nil || par == nil || ns == nil {
		c.Unresolved("C17.3", "Tree", "anchor missing")
		return
	}
	fco := NewFlow(p, co)
	var sl *ssa.Slice
	eachInstr(co, func(in ssa.Instruction) {
		if s, ok := in.(*ssa.Slice); ok && strings.HasSuffix(fco.K.Key(s.X), kTree+"treePosToID") {
			sl = s
		}
	})
	if sl == nil {
		c.Unresolved("C17.3", "ChildrenOf", "slice expression not found")
	} else {
		facts := fco.At(sl)
		lenK := func(k string) bool { return strings.HasPrefix(k, "builtin len(p0."+kTree+"treePosToID)") }
		posK := func(k string) bool { return strings.Contains(k, "replicaPosition(") }
		okKnown := hasCmp(facts, "!=", posK, is("c:-1"))
		lowK := fco.K.Key(sl.Low)
		okStart := hasCmp(facts, "<", is(lowK), lenK)
		// the high bound is min(start+B, n): every leaf of High is <= len
		okEnd := true
		for _, lf := range leaves(fco, sl.High, sl) {
			hk := fco.K.Key(lf.Val)
			if lenK(hk) {
				continue
			}
			if !hasCmp(lf.Facts, "<=", is(hk), lenK) {
				okEnd = false
			}
		}
		c.Check(okKnown && okStart && okEnd, "C17.3", "ChildrenOf: slice bounds are guarded", p.InstrPos(sl),
			"treePosToID[start:end] is evaluated only for a known replica, with start < n and end <= n", "known replica: "+boolStr(okKnown)+", start < n: "+boolStr(okStart)+", end <= n: "+boolStr(okEnd))
	}
	{
		fns := NewFlow(p, ns)
		// a Tree is constructed only when branchFactor >= 2 and the id is in the list
		okBF, okID := false, false
		for _, e := range p.constructSites(namedType(p, "internal/tree", "Tree")) {
			if e.Fn != ns {
				continue
			}
			facts := fns.At(e.Instr)
			okBF = hasCmp(facts, "<=", is("c:2"), is("p1"))
			okID = hasCmp(facts, "!=", func(k string) bool { return strings.HasPrefix(k, "slices.Index[") && strings.Contains(k, "(p2, p0)") }, is("c:-1"))
		}
		if !okBF && !okID {
			// the Tree literal is allocated with new(Tree): look at the stores to its fields
			eachInstr(ns, func(in ssa.Instruction) {
				if a, ok := in.(*ssa.Alloc); ok && strings.HasSuffix(a.Type().String(), "tree.Tree") {
					facts := fns.At(in)
					okBF = hasCmp(facts, "<=", is("c:2"), is("p1"))
					okID = hasCmp(facts, "!=", func(k string) bool { return strings.HasPrefix(k, "slices.Index[") && strings.Contains(k, "(p2, p0)") }, is("c:-1"))
				}
			})
		}
		c.Check(okBF && okID, "C17.3", "NewSimple: rejects branch factor < 2 and an unlisted replica", p.FuncPos(ns),
			"a Tree is built only under 2 <= branchFactor and slices.Index(positions, id) != -1 (so the list is non-empty and Root() is defined)", "branch factor gate: "+boolStr(okBF)+", membership gate: "+boolStr(okID))
	}

	// C17.4 index algebra
	kco := fco.K
	sym := func(k *Keyer) func(ssa.Value) string {
		return func(v ssa.Value) string {
			s := k.Key(v)
			switch {
			case strings.Contains(s, "replicaPosition("):
				return "pos"
			case strings.HasSuffix(s, kTree+"branchFactor"):
				return "B"
			}
			return s
		}
	}
	if sl != nil {
		start := polyOf(sl.Low, sym(kco))
		wantStart := polySym("pos").mul(polySym("B")).add(polyConst(1), 1)
		c.Check(start.eq(wantStart), "C17.4", "ChildrenOf: first child position = pos*B + 1", p.InstrPos(sl), "childStart = "+start.String(), "childStart = "+start.String()+", expected pos*B + 1")
		okEnd := false
		endStr := ""
		for _, lf := range leaves(fco, sl.High, sl) {
			if strings.HasPrefix(kco.Key(lf.Val), "builtin len(") {
				continue
			}
			e := polyOf(lf.Val, sym(kco))
			endStr = e.String()
			if e.add(start, -1).eq(polySym("B")) {
				okEnd = true
			}
		}
		c.Check(okEnd, "C17.4", "ChildrenOf: child range has B positions (clamped to n)", p.InstrPos(sl), "childEnd - childStart = B, i.e. children of p are p*B+1 .. p*B+B", "childEnd = "+endStr)
	}
	{
		kp := NewKeyer(p, par)
		ok := false
		got := ""
		eachInstr(par, func(in ssa.Instruction) {
			b, isB := in.(*ssa.BinOp)
			if !isB || b.Op != token.QUO {
				return
			}
			num := polyOf(b.X, sym(kp))
			den := polyOf(b.Y, sym(kp))
			got = "(" + num.String() + ") div (" + den.String() + ")"
			if num.eq(polySym("pos").add(polyConst(1), -1)) && den.eq(polySym("B")) {
				ok = true
			}
		})
		// the root is recognised before dividing
		fpar := NewFlow(p, par)
		rootOK := false
		eachInstr(par, func(in ssa.Instruction) {
			if b, isB := in.(*ssa.BinOp); isB && b.Op == token.QUO {
				if hasCmp(fpar.At(in), "!=", func(k string) bool { return strings.Contains(k, "replicaPosition(") }, is("c:0")) {
					rootOK = true
				}
			}
		})
		c.Check(ok && rootOK, "C17.4", "Parent: parent position = (pos-1) div B, root excluded", p.FuncPos(par),
			"parentPos = "+got+"; for c in [p*B+1, p*B+B] this is p (0 <= c-1-p*B < B), and conversely c lies in the child range of (c-1) div B: exactly one parent, listed among that parent's children only",
			"parent expression is "+got+", root test before division: "+boolStr(rootOK))
	}
}
