package main

import (
	"go/constant"
	"go/token"
	"go/types"
	"strings"

	"golang.org/x/tools/go/ssa"
)

func init() { register("C17", checkC17) }

const kTree = "hs/internal/tree.Tree."

func checkC17(c *Ctx) {
	p := c.P
	// the position look-up helper (today Tree.replicaPosition): the function of the package that
	// returns slices.Index(t.treePosToID, id); found by what it does, so that renaming it changes nothing
	posName := "replicaPosition"
	for _, fn := range p.ModFuncs {
		if funcPkgPath(fn) != modPath+"/internal/tree" || fn.Parent() != nil || fn.Blocks == nil || strings.HasSuffix(p.FuncPos(fn), "_test.go") {
			continue
		}
		rets := returnsOf(fn)
		if len(rets) != 1 || len(rets[0].Results) != 1 {
			continue
		}
		k := NewKeyer(p, fn).Key(rets[0].Results[0])
		if strings.HasPrefix(k, "slices.Index[") && strings.Contains(k, "hs/internal/tree.Tree.treePosToID, p1)") {
			posName = fn.Name()
		}
	}
	c.Decided = "the index algebra of the tree layout: a Tree is immutable after construction (fields stored only by the constructor and the two wait-time setters); arithmetic on the branch factor occurs only in Parent, ChildrenOf, heightOf and treeHeight, from which all other views derive; " +
		"the parent of position c is (c-1) div B and the children of position p are the positions p*B+1 .. p*B+B clamped to n (polynomial identities on the extracted expressions), so with B >= 2 every position >= 1 lies in the child range of exactly its parent; " +
		"ChildrenOf guards its slice expression (known replica, start < n, end <= n) and the constructor rejects a position list without the replica and a branch factor below 2."
	c.Decided += " The tree height is the exact level count (integer recurrence read off treeHeight's loop, stored by the constructor); the position table is never written through an alias. A replica's height is the tree height minus its level, the levels being the position ranges (1, bf) -> (start+count, count*bf) that Parent/ChildrenOf induce (loop shape of heightOf, C17.8)."
	c.NotDec = "SubTree closure as a functional property of its loop, and consistency across replicas that were configured with different position lists."
	c.Expect("C17.1", 5)
	c.Expect("C17.4", 3)
	c.Expect("C17.5", 3)
	c17Height(c)
	c17HeightOf(c)
	c17KauriUsesChildList(c)
	// C17.7 the leader of a tree configuration is the tree's root, as every replica's own tree reports it: the proposal
	// is pushed down from the root and the votes travel up to it, so any other leader proposes into an empty subtree
	if gl := p.Method("protocol/leaderrotation", "TreeBased", "GetLeader"); gl != nil {
		fl := NewFlow(p, gl)
		n := 0
		var bad []string
		for _, r := range returnsOf(gl) {
			if !fl.Reachable(r.Block()) {
				continue
			}
			facts := fl.At(r)
			if !trueOf(facts, func(k string) bool { return strings.HasPrefix(k, "(*hs/core.RuntimeConfig).HasKauriTree(") }) {
				continue // no tree configured: nothing to agree with
			}
			n++
			// (the value may be the result of a private (root, ok) helper: what it returns when ok)
			for _, lf := range leaves(fl, retValue(r, 0), r) {
				if k := lf.KeyIn(fl); !strings.HasPrefix(k, "(hs/internal/tree.Tree).Root(") && !strings.HasPrefix(k, "(*hs/internal/tree.Tree).Root(") {
					bad = append(bad, p.Pos(r.Pos())+" returns "+shortVal(k))
				}
			}
		}
		// a version without the HasKauriTree test at all: every return must be the root
		if n == 0 {
			for _, r := range returnsOf(gl) {
				n++
				if k := fl.K.Key(retValue(r, 0)); !strings.Contains(k, "hs/internal/tree.Tree).Root(") {
					bad = append(bad, p.Pos(r.Pos())+" returns "+shortVal(k))
				}
			}
		}
		c.Check(n > 0 && len(bad) == 0, "C17.7", "TreeBased.GetLeader: the leader is the root of the configured tree", p.FuncPos(gl),
			"with a tree configured, GetLeader returns config.Tree().Root()", "with a tree configured the leader is not the tree's root: "+join(bad))
	} else {
		c.Unresolved("C17.7", "TreeBased.GetLeader", "anchor missing")
	}

	// C17.1 immutability
	for _, f := range []string{"id", "height", "branchFactor", "treePosToID"} {
		c.whoMayWrite("C17.1", p.Field("internal/tree", "Tree", f), "Tree."+f)
	}
	c.whoMayWrite("C17.1", p.Field("internal/tree", "Tree", "waitTime"), "Tree.waitTime", "(*hs/internal/tree.Tree).SetAggregationWaitTime", "(*hs/internal/tree.Tree).SetTreeHeightWaitTime")

	// C17.2 who does layout arithmetic on branchFactor
	{
		allowed := map[string]bool{"(hs/internal/tree.Tree).Parent": true, "(hs/internal/tree.Tree).ChildrenOf": true, "(hs/internal/tree.Tree).heightOf": true, "hs/internal/tree.treeHeight": true, "hs/internal/tree.NewSimple": true}
		var extra []string
		n := 0
		for _, fn := range p.ModFuncs {
			if fn.Synthetic != "" {
				continue
			}
			k := NewKeyer(p, fn)
			eachInstr(fn, func(in ssa.Instruction) {
				b, ok := in.(*ssa.BinOp)
				if !ok {
					return
				}
				switch b.Op {
				case token.MUL, token.QUO, token.REM, token.ADD, token.SUB:
				default:
					return
				}
				if strings.Contains(k.Key(b.X), kTree+"branchFactor") || strings.Contains(k.Key(b.Y), kTree+"branchFactor") {
					n++
					okOwner := allowed[shortName(declaredParent(fn))]
					for _, o := range p.ownerChain(fn) {
						if allowed[shortName(o)] {
							okOwner = true // a private helper of a layout function
						}
					}
					if !okOwner {
						// a private helper of the package shared by a layout function and another method of the tree
						// (`parentAt(pos)` used by Parent and PeersOf): its formula is the layout function's, which the
						// index algebra below evaluates through the helper
						ci := callIndexOf(p)
						df := declaredParent(fn)
						if df.Object() != nil && !df.Object().Exported() && !ci.asValue[df] && len(ci.callers[df]) > 0 {
							okOwner = false
							all := true
							for _, r := range ci.callers[df] {
								if funcPkgPath(r.In) != funcPkgPath(df) || r.Kind == "go" {
									all = false
								}
								if allowed[shortName(declaredParent(r.In))] {
									okOwner = true
								}
							}
							okOwner = okOwner && all
						}
					}
					if !okOwner {
						extra = append(extra, shortName(fn)+" ("+p.InstrPos(in)+")")
					}
				}
			})
		}
		c.Check(len(extra) == 0 && n > 0, "C17.2", "layout arithmetic on the branch factor", "internal/tree/tree.go",
			itoa(n)+" arithmetic uses of branchFactor, all in Parent, ChildrenOf, heightOf (treeHeight takes it as a parameter)", "layout arithmetic outside the four layout functions: "+join(extra))
		// derived views call the primitives
		for _, d := range []struct{ fn, must string }{{"ReplicaChildren", "ChildrenOf"}, {"PeersOf", "ChildrenOf"}, {"SubTree", "ChildrenOf"}, {"IsRoot", posName}} {
			fn := p.Method("internal/tree", "Tree", d.fn)
			if fn == nil {
				c.Unresolved("C17.2", "Tree."+d.fn, "anchor missing")
				continue
			}
			ok := len(callsIn(fn, false, func(cc *ssa.CallCommon) bool { return cc.StaticCallee() != nil && cc.StaticCallee().Name() == d.must })) > 0
			if !ok && d.fn == "IsRoot" && c17IsRootDirect(p, fn) {
				c.Held("C17.2", "Tree.IsRoot derives from "+d.must, p.FuncPos(fn), "position 0 of the table is compared with the replicaID parameter directly (the replica's position is 0 exactly then)")
				continue
			}
			c.Check(ok, "C17.2", "Tree."+d.fn+" derives from "+d.must, p.FuncPos(fn), "no independent layout computation", d.fn+" does not use "+d.must)
		}
	}

	// C17.1b the position table is never written through a slice that aliases it (ChildrenOf, ReplicaChildren and PeersOf
	// hand out sub-slices of treePosToID with spare capacity: an append or element store through them rewrites other positions)
	c17NoAliasWrite(c)
	// C17.2b queries about a given replica use that replica, not the tree's own id
	for _, q := range []string{"IsRoot", "ChildrenOf", "heightOf"} {
		fn := p.Method("internal/tree", "Tree", q)
		if fn == nil {
			c.Unresolved("C17.2", "Tree."+q, "anchor missing")
			continue
		}
		k := NewKeyer(p, fn)
		n, okArg := 0, true
		var visit func(f *ssa.Function, argKeyOK func(string) bool, depth int)
		visit = func(f *ssa.Function, argKeyOK func(string) bool, depth int) {}
		_ = visit
		eachInstr(fn, func(in ssa.Instruction) {
			call, isCall := in.(*ssa.Call)
			if !isCall || call.Call.StaticCallee() == nil {
				return
			}
			switch call.Call.StaticCallee().Name() {
			case posName, "IsRoot":
				n++
				if k.Key(call.Call.Args[1]) != "p1" {
					okArg = false
				}
			}
		})
		if n == 0 && q == "IsRoot" && c17IsRootDirect(p, fn) {
			n = 1
		}
		c.Check(n > 0 && okArg, "C17.2", "Tree."+q+": answers for the replica it is asked about", p.FuncPos(fn),
			"every position look-up in it uses the replicaID parameter", "a position look-up uses something other than the replicaID parameter (e.g. the tree's own id): different replicas' views of the tree disagree")
	}

	// C17.3 guards
	co := p.Method("internal/tree", "Tree", "ChildrenOf")
	par := p.Method("internal/tree", "Tree", "Parent")
	ns := p.Func("internal/tree", "NewSimple")
	if co == nil || par == nil || ns == nil {
		c.Unresolved("C17.3", "Tree", "anchor missing")
		return
	}
	fcoRoot := NewFlow(p, co)
	fco := fcoRoot
	var sl *ssa.Slice
	var slD DeepInstr
	// the slice expression: in ChildrenOf or in a private helper of the package it delegates to (facts in ChildrenOf's terms)
	for _, d := range deepInstrs(fcoRoot, func(in ssa.Instruction) bool {
		s, ok := in.(*ssa.Slice)
		return ok && strings.HasSuffix(NewKeyer(p, in.Parent()).Key(s.X), kTree+"treePosToID")
	}, 0) {
		sl, slD, fco = d.Instr.(*ssa.Slice), d, d.Flow
	}
	// polynomial environment of the function holding the slice: its parameters as ChildrenOf's expressions
	var slEnv map[*ssa.Parameter]poly
	if sl != nil && slD.In != co && len(slD.Path) > 0 {
		slEnv = map[*ssa.Parameter]poly{}
		call := slD.Path[len(slD.Path)-1]
		callerK := fcoRoot.K
		if len(slD.Path) > 1 {
			callerK = NewKeyer(p, call.Parent())
		}
		for i, a := range call.Common().Args {
			if i < len(slD.In.Params) {
				ak := callerK.Key(a)
				switch {
				case isPosKey(ak, posName):
					slEnv[slD.In.Params[i]] = polySym("pos")
				case strings.HasSuffix(ak, kTree+"branchFactor"):
					slEnv[slD.In.Params[i]] = polySym("B")
				}
			}
		}
	}
	if sl == nil {
		c.Unresolved("C17.3", "ChildrenOf", "slice expression not found")
	} else {
		facts := slD.Facts
		lenK := func(k string) bool { return strings.HasPrefix(k, "builtin len(p0."+kTree+"treePosToID)") }
		posK := func(k string) bool { return isPosKey(k, posName) }
		okKnown := hasCmp(facts, "!=", posK, is("c:-1"))
		lowK := slD.Key(sl.Low)
		okStart := hasCmp(facts, "<", is(lowK), lenK)
		// the high bound is min(start+B, n): every leaf of High is <= len
		okEnd := true
		for _, lf := range leaves(fco, sl.High, sl) {
			hk := slD.ToRoot(lf.KeyIn(fco))
			if lenK(hk) {
				continue
			}
			lfacts := FactSet{}
			for f := range lf.Facts {
				g := Fact{f.Op, slD.ToRoot(f.L), ""}
				if f.R != "" {
					g.R = slD.ToRoot(f.R)
				}
				lfacts[g] = true
			}
			if !hasCmp(lfacts, "<=", is(hk), lenK) {
				okEnd = false
			}
		}
		c.Check(okKnown && okStart && okEnd, "C17.3", "ChildrenOf: slice bounds are guarded", p.InstrPos(sl),
			"treePosToID[start:end] is evaluated only for a known replica, with start < n and end <= n", "known replica: "+boolStr(okKnown)+", start < n: "+boolStr(okStart)+", end <= n: "+boolStr(okEnd))
	}
	{
		fns := NewFlow(p, ns)
		// a Tree is constructed only when branchFactor >= 2 and the id is in the list
		okBF, okID := false, false
		for _, e := range p.constructSites(namedType(p, "internal/tree", "Tree")) {
			if e.Fn != ns {
				continue
			}
			facts := fns.At(e.Instr)
			okBF = hasCmp(facts, "<=", is("c:2"), is("p1"))
			okID = hasCmp(facts, "!=", func(k string) bool { return strings.HasPrefix(k, "slices.Index[") && strings.Contains(k, "(p2, p0)") }, is("c:-1")) ||
				hasCmp(facts, "<=", is("c:0"), func(k string) bool { return strings.HasPrefix(k, "slices.Index[") && strings.Contains(k, "(p2, p0)") }) ||
				trueOf(facts, func(k string) bool {
					return strings.HasPrefix(k, "slices.Contains[") && strings.Contains(k, "(p2, p0)")
				})
		}
		if !okBF && !okID {
			// the Tree literal is allocated with new(Tree): look at the stores to its fields
			eachInstr(ns, func(in ssa.Instruction) {
				if a, ok := in.(*ssa.Alloc); ok && strings.HasSuffix(a.Type().String(), "tree.Tree") {
					facts := fns.At(in)
					okBF = hasCmp(facts, "<=", is("c:2"), is("p1"))
					okID = hasCmp(facts, "!=", func(k string) bool { return strings.HasPrefix(k, "slices.Index[") && strings.Contains(k, "(p2, p0)") }, is("c:-1")) ||
						hasCmp(facts, "<=", is("c:0"), func(k string) bool { return strings.HasPrefix(k, "slices.Index[") && strings.Contains(k, "(p2, p0)") }) ||
						trueOf(facts, func(k string) bool {
							return strings.HasPrefix(k, "slices.Contains[") && strings.Contains(k, "(p2, p0)")
						})
				}
			})
		}
		if okBF && !okID {
			// construct, then validate: every return of the constructor is reached only with the id found in the
			// position table of the tree just built (whose table is the parameter)
			allOK, n := true, 0
			for _, r := range returnsOf(ns) {
				if !fns.Reachable(r.Block()) {
					continue
				}
				n++
				facts := fns.At(r)
				found := false
				for _, e := range p.constructSites(namedType(p, "internal/tree", "Tree")) {
					if e.Fn != ns || e.Alloc == nil {
						continue
					}
					tbl := complitField(e.Alloc, "treePosToID")
					if tbl == nil || fns.K.Key(tbl) != "p2" {
						continue
					}
					ak := fns.K.Key(e.Alloc)
					isIdx := func(k string) bool {
						return strings.HasPrefix(k, "slices.Index[") && strings.Contains(k, "("+ak+"->hs/internal/tree.Tree.treePosToID, p0)")
					}
					if hasCmp(facts, "!=", isIdx, is("c:-1")) || hasCmp(facts, "<=", is("c:0"), isIdx) {
						found = true
					}
				}
				if !found {
					allOK = false
				}
			}
			okID = allOK && n > 0
		}
		c.Check(okBF && okID, "C17.3", "NewSimple: rejects branch factor < 2 and an unlisted replica", p.FuncPos(ns),
			"a Tree is built only under 2 <= branchFactor and slices.Index(positions, id) != -1 (so the list is non-empty and Root() is defined)", "branch factor gate: "+boolStr(okBF)+", membership gate: "+boolStr(okID))
	}

	// C17.4 index algebra
	kco := fco.K
	sym := func(k *Keyer) func(ssa.Value) string {
		return func(v ssa.Value) string {
			s := k.Key(v)
			switch {
			case isPosKey(s, posName):
				return "pos"
			case strings.HasSuffix(s, kTree+"branchFactor"):
				return "B"
			}
			return s
		}
	}
	if sl != nil {
		polyOf := func(v ssa.Value, sy func(ssa.Value) string) poly { return polyOfEnv(v, sy, slEnv, 0) }
		start := polyOf(sl.Low, sym(kco))
		wantStart := polySym("pos").mul(polySym("B")).add(polyConst(1), 1)
		c.Check(start.eq(wantStart), "C17.4", "ChildrenOf: first child position = pos*B + 1", p.InstrPos(sl), "childStart = "+start.String(), "childStart = "+start.String()+", expected pos*B + 1")
		okEnd := false
		endStr := ""
		for _, lf := range leaves(fco, sl.High, sl) {
			if strings.HasPrefix(kco.Key(lf.Val), "builtin len(") {
				continue
			}
			e := polyOf(lf.Val, sym(kco))
			endStr = e.String()
			if e.add(start, -1).eq(polySym("B")) {
				okEnd = true
			}
		}
		c.Check(okEnd, "C17.4", "ChildrenOf: child range has B positions (clamped to n)", p.InstrPos(sl), "childEnd - childStart = B, i.e. children of p are p*B+1 .. p*B+B", "childEnd = "+endStr)
	}
	{
		ok := false
		got := ""
		fpar := NewFlow(p, par)
		rootOK := false
		// the division: in Parent or in a pure helper of the package (`parentPosition(pos, bf)`)
		for _, d := range deepInstrs(fpar, func(in ssa.Instruction) bool { b, isB := in.(*ssa.BinOp); return isB && b.Op == token.QUO }, 0) {
			b := d.Instr.(*ssa.BinOp)
			var env map[*ssa.Parameter]poly
			if d.In != par && len(d.Path) > 0 {
				env = map[*ssa.Parameter]poly{}
				call := d.Path[len(d.Path)-1]
				for i, a := range call.Common().Args {
					if i < len(d.In.Params) {
						env[d.In.Params[i]] = polyOf(a, sym(NewKeyer(p, call.Parent())))
					}
				}
			}
			kd := d.Flow.K
			num := polyOfEnv(b.X, sym(kd), env, 0)
			den := polyOfEnv(b.Y, sym(kd), env, 0)
			got = "(" + num.String() + ") div (" + den.String() + ")"
			if num.eq(polySym("pos").add(polyConst(1), -1)) && den.eq(polySym("B")) {
				ok = true
			}
			// the root is recognised before dividing
			if hasCmp(d.Facts, "!=", func(k string) bool { return isPosKey(k, posName) }, is("c:0")) {
				rootOK = true
			}
		}
		c.Check(ok && rootOK, "C17.4", "Parent: parent position = (pos-1) div B, root excluded", p.FuncPos(par),
			"parentPos = "+got+"; for c in [p*B+1, p*B+B] this is p (0 <= c-1-p*B < B), and conversely c lies in the child range of (c-1) div B: exactly one parent, listed among that parent's children only",
			"parent expression is "+got+", root test before division: "+boolStr(rootOK))
	}
}

// c17NoAliasWrite: values aliasing Tree.treePosToID (loads of the field, sub-slices, results of module functions
// that return such values) are never appended to, stored through, sorted or used as a copy destination.
func c17NoAliasWrite(c *Ctx) {
	p := c.P
	fv := p.Field("internal/tree", "Tree", "treePosToID")
	if fv == nil {
		c.Unresolved("C17.1", "Tree.treePosToID aliases", "field missing")
		return
	}
	// functions returning an alias (fixpoint)
	returnsAlias := map[*ssa.Function]bool{}
	var aliasIn func(fn *ssa.Function) map[ssa.Value]bool
	aliasIn = func(fn *ssa.Function) map[ssa.Value]bool {
		al := map[ssa.Value]bool{}
		for changed := true; changed; {
			changed = false
			eachInstr(fn, func(in ssa.Instruction) {
				v, ok := in.(ssa.Value)
				if !ok || al[v] {
					return
				}
				is := false
				switch x := in.(type) {
				case *ssa.UnOp:
					if fa, ok := x.X.(*ssa.FieldAddr); ok && fieldVar(fa.X.Type(), fa.Field) == fv {
						is = true
					}
				case *ssa.Field:
					if fieldVar(x.X.Type(), x.Field) == fv {
						is = true
					}
				case *ssa.Slice:
					is = al[x.X]
				case *ssa.Phi:
					for _, e := range x.Edges {
						if al[e] {
							is = true
						}
					}
				case *ssa.Call:
					if cal := x.Call.StaticCallee(); cal != nil && returnsAlias[cal] {
						is = true
					}
				case *ssa.ChangeType:
					is = al[x.X]
				}
				if is {
					al[v] = true
					changed = true
				}
			})
		}
		return al
	}
	for changed := true; changed; {
		changed = false
		for _, fn := range p.ModFuncs {
			if returnsAlias[fn] || fn.Signature.Results().Len() == 0 {
				continue
			}
			if _, isSlice := fn.Signature.Results().At(0).Type().Underlying().(*types.Slice); !isSlice {
				continue
			}
			al := aliasIn(fn)
			for _, r := range returnsOf(fn) {
				if len(r.Results) > 0 && al[r.Results[0]] {
					returnsAlias[fn] = true
					changed = true
				}
			}
		}
	}
	var bad []string
	nUses := 0
	for _, fn := range p.ModFuncs {
		al := aliasIn(fn)
		if len(al) == 0 {
			continue
		}
		eachInstr(fn, func(in ssa.Instruction) {
			switch x := in.(type) {
			case *ssa.Call:
				if b, ok := x.Call.Value.(*ssa.Builtin); ok {
					switch b.Name() {
					case "append":
						nUses++
						if al[x.Call.Args[0]] {
							bad = append(bad, "append to an alias of the position table at "+p.InstrPos(in)+" in "+shortName(fn))
						}
					case "copy":
						if al[x.Call.Args[0]] {
							bad = append(bad, "copy into an alias of the position table at "+p.InstrPos(in)+" in "+shortName(fn))
						}
					}
					return
				}
				if cal := x.Call.StaticCallee(); cal != nil && (strings.HasPrefix(cal.String(), "slices.Sort") || strings.HasPrefix(cal.String(), "slices.Reverse") || strings.HasPrefix(cal.String(), "sort.")) {
					if len(x.Call.Args) > 0 && al[x.Call.Args[0]] {
						bad = append(bad, "in-place reordering of an alias of the position table at "+p.InstrPos(in)+" in "+shortName(fn))
					}
				} else if cal != nil {
					// the library functions that compact, shift or overwrite their first argument in place
					for _, m := range []string{"slices.DeleteFunc", "slices.Delete", "slices.CompactFunc", "slices.Compact", "slices.Insert", "slices.Replace"} {
						if (cal.String() == m || strings.HasPrefix(cal.String(), m+"[")) && len(x.Call.Args) > 0 && al[x.Call.Args[0]] {
							bad = append(bad, m+" rewrites an alias of the position table in place at "+p.InstrPos(in)+" in "+shortName(fn))
						}
					}
				}
			case *ssa.Store:
				if ia, ok := x.Addr.(*ssa.IndexAddr); ok && al[ia.X] {
					bad = append(bad, "element store through an alias of the position table at "+p.InstrPos(in)+" in "+shortName(fn))
				}
			}
		})
	}
	var ra []string
	for fn := range returnsAlias {
		ra = append(ra, shortName(fn))
	}
	sortStrings(ra)
	c.Check(len(bad) == 0 && len(ra) > 0, "C17.1", "Tree.treePosToID is never written through an alias", p.Pos(fv.Pos()),
		"functions handing out sub-slices of the table: {"+join(ra)+"}; none of their results (nor the field itself) is appended to, stored through, reordered or copied into", join(bad))
}

// c17Height (C17.5): the height of the tree is the exact level count. treeHeight must be the
// recurrence  (n, level, h) := (numNodes, 1, 0); while n > 0 { n -= level; level *= bf; h++ }; return h
// read off the loop's phi nodes, the constructor stores treeHeight(len(positions), branchFactor),
// and the layout package uses integer arithmetic only (a closed form through floating-point
// logarithms is off by one at completely filled trees, e.g. log(27)/log(3) > 3).
func c17Height(c *Ctx) {
	p := c.P
	th := p.Func("internal/tree", "treeHeight")
	if th == nil {
		c.Unresolved("C17.5", "treeHeight", "anchor missing")
		return
	}
	// integer only
	var floats []string
	nf := 0
	for _, fn := range p.ModFuncs {
		if funcPkgPath(fn) != modPath+"/internal/tree" || strings.HasSuffix(p.FuncPos(fn), "_test.go") {
			continue
		}
		nf++
		eachInstr(fn, func(in ssa.Instruction) {
			v, ok := in.(ssa.Value)
			if !ok {
				return
			}
			if b, ok := v.Type().Underlying().(*types.Basic); ok && b.Info()&types.IsFloat != 0 {
				floats = append(floats, p.InstrPos(in)+" in "+fn.Name())
			}
		})
	}
	c.Check(len(floats) == 0 && nf > 0, "C17.5", "tree layout uses exact integer arithmetic", "internal/tree",
		itoa(nf)+" functions, no floating-point value", "floating-point computation in the layout package (rounding makes level counts off by one at completely filled trees): "+join(floats))

	// the recurrence
	reason := func() string {
		var ret *ssa.Return
		for _, r := range returnsOf(th) {
			if ret != nil {
				return "more than one return"
			}
			ret = r
		}
		if ret == nil || len(ret.Results) != 1 {
			return "no single result"
		}
		h, ok := ret.Results[0].(*ssa.Phi)
		if !ok {
			return "the result is not the loop's level counter"
		}
		isConst := func(v ssa.Value, n int64) bool {
			cst, ok := v.(*ssa.Const)
			return ok && cst.Value != nil && cst.Int64() == n
		}
		// a phi with one initial edge and one back edge of the form  phi <op> operand
		shape := func(ph *ssa.Phi, init func(ssa.Value) bool, op token.Token, operand func(ssa.Value) bool, commutative bool) bool {
			if len(ph.Edges) != 2 {
				return false
			}
			for i := 0; i < 2; i++ {
				bo, ok := ph.Edges[1-i].(*ssa.BinOp)
				if !init(ph.Edges[i]) || !ok || bo.Op != op {
					continue
				}
				if bo.X == ph && operand(bo.Y) || commutative && bo.Y == ph && operand(bo.X) {
					return true
				}
			}
			return false
		}
		if !shape(h, func(v ssa.Value) bool { return isConst(v, 0) }, token.ADD, func(v ssa.Value) bool { return isConst(v, 1) }, true) {
			return "the result is not a counter starting at 0 and incremented by 1 per level"
		}
		blk := h.Block()
		iff, ok := blk.Instrs[len(blk.Instrs)-1].(*ssa.If)
		if !ok {
			return "the loop header does not test the remaining node count"
		}
		cond, ok := iff.Cond.(*ssa.BinOp)
		if !ok {
			return "unrecognised loop condition"
		}
		var n *ssa.Phi
		switch {
		case cond.Op == token.GTR && isConst(cond.Y, 0):
			n, _ = cond.X.(*ssa.Phi)
		case cond.Op == token.LSS && isConst(cond.X, 0):
			n, _ = cond.Y.(*ssa.Phi)
		}
		if n == nil || n.Block() != blk {
			return "the loop does not run while the remaining node count is > 0"
		}
		if ret.Block() != blk.Succs[1] && !(len(blk.Succs[1].Instrs) > 0 && blk.Succs[1] == ret.Block()) {
			return "the counter is not returned when the nodes are used up"
		}
		var level *ssa.Phi
		if !shape(n, func(v ssa.Value) bool { return v == th.Params[0] }, token.SUB, func(v ssa.Value) bool {
			ph, ok := v.(*ssa.Phi)
			if ok && ph.Block() == blk {
				level = ph
			}
			return ok
		}, false) || level == nil {
			return "the remaining node count is not numNodes reduced by the level size per level"
		}
		if !shape(level, func(v ssa.Value) bool { return isConst(v, 1) }, token.MUL, func(v ssa.Value) bool { return v == th.Params[1] }, true) {
			return "the level size is not 1 multiplied by the branch factor per level"
		}
		return ""
	}()
	c.Check(reason == "", "C17.5", "treeHeight counts the levels of the positional tree", p.FuncPos(th),
		"(n, level, h) := (numNodes, 1, 0); while n > 0 { n -= level; level *= bf; h++ }; return h", reason)

	// the constructor stores treeHeight(len(positions), branchFactor)
	ns := p.Func("internal/tree", "NewSimple")
	if ns == nil {
		c.Unresolved("C17.5", "NewSimple", "anchor missing")
		return
	}
	k := NewKeyer(p, ns)
	okStore, nStore := false, 0
	eachInstr(ns, func(in ssa.Instruction) {
		st, ok := in.(*ssa.Store)
		if !ok {
			return
		}
		fa, ok := st.Addr.(*ssa.FieldAddr)
		if !ok || fieldVar(fa.X.Type(), fa.Field).Name() != "height" {
			return
		}
		nStore++
		call, ok := st.Val.(*ssa.Call)
		if ok && calleeIs(&call.Call, th) && len(call.Call.Args) == 2 &&
			strings.HasPrefix(k.Key(call.Call.Args[0]), "builtin len(p2)") && k.Key(call.Call.Args[1]) == "p1" {
			okStore = true
		}
	})
	c.Check(okStore && nStore == 1, "C17.5", "NewSimple: height = treeHeight(len(positions), branchFactor)", p.FuncPos(ns),
		"the stored height is the level count of the configured size and branch factor", "Tree.height is not treeHeight(len(treePositionIDs), branchFactor)")
}

// c17KauriUsesChildList (C17.6): Kauri decides between "push the proposal to my children and wait
// for their votes" and "I have nobody below me: send my vote up" by the list of children the tree
// gives it. That list is the relation the rest of C17 is about (a replica is a child of exactly
// its parent); any other test of leaf-ness (height, position, level arithmetic) agrees with it
// only on complete trees: with an incomplete last level a childless replica above the bottom level
// would wait for votes that never come or ask for an empty sub-configuration, and its own vote
// would have no path up. Rule: a sub-configuration is requested for the tree's child list only where
// that list is known to be non-empty, and the vote is sent to the parent without waiting only where
// it is known to be empty (the test itself, or a predicate of the module all of whose true outcomes
// establish it).
func c17KauriUsesChildList(c *Ctx) {
	p := c.P
	begin := p.Method("protocol/comm", "Kauri", "begin")
	if begin == nil {
		c.Unresolved("C17.6", "Kauri.begin", "anchor missing")
		return
	}
	isChildren := func(k string) bool {
		return strings.Contains(k, "hs/internal/tree.Tree).ReplicaChildren(") || strings.Contains(k, "hs/internal/tree.Tree).ChildrenOf(")
	}
	isLen := func(k string) bool { return strings.HasPrefix(k, "builtin len(") && isChildren(k) }
	// predicate helpers: key prefix -> function
	predicate := func(k string) *ssa.Function {
		for _, fn := range p.ModFuncs {
			if fn.Parent() == nil && fn.Blocks != nil && strings.HasPrefix(k, shortName(fn)+"(") {
				return fn
			}
		}
		return nil
	}
	emptyIn := func(fs FactSet) bool {
		return hasCmp(fs, "==", is("c:0"), isLen) || hasCmp(fs, "<=", isLen, is("c:0"))
	}
	nonEmptyIn := func(fs FactSet) bool {
		return hasCmp(fs, "!=", is("c:0"), isLen) || hasCmp(fs, "<", is("c:0"), isLen)
	}
	known := func(fs FactSet, wantEmpty bool) bool {
		if wantEmpty && emptyIn(fs) || !wantEmpty && nonEmptyIn(fs) {
			return true
		}
		for f := range fs {
			if f.Op != "true" && f.Op != "false" {
				continue
			}
			fn := predicate(f.L)
			if fn == nil || fn.Signature.Results().Len() != 1 {
				continue
			}
			pfl := NewFlow(p, fn)
			// the outcomes of the predicate that agree with the fact
			var ways []FactSet
			if f.Op == "true" {
				ways = trueEdges(pfl)
			} else {
				for _, r := range returnsOf(fn) {
					if !pfl.Reachable(r.Block()) || isBoolConst(retValue(r, 0), true) {
						continue
					}
					w := pfl.At(r).clone()
					if !isBoolConst(retValue(r, 0), false) {
						var extra []Fact
						pfl.decompose(retValue(r, 0), false, &extra)
						for _, e := range extra {
							w[e] = true
						}
					}
					ways = append(ways, w)
				}
			}
			all := len(ways) > 0
			for _, w := range ways {
				if wantEmpty && !emptyIn(w) || !wantEmpty && !nonEmptyIn(w) {
					all = false
				}
			}
			if all {
				return true
			}
		}
		return false
	}
	fl := NewFlow(p, begin)
	nSub, nUp := 0, 0
	for _, ds := range deepSites(fl, func(cc *ssa.CallCommon) bool { return cc.IsInvoke() && cc.Method.Name() == "Sub" }, 0) {
		if len(ds.Args) == 0 || !isChildren(ds.Args[0]) {
			continue
		}
		nSub++
		c.Check(known(ds.Facts, false), "C17.6", "Kauri: the proposal is pushed down only to a non-empty child list", p.Pos(ds.Site.Pos()),
			"sender.Sub(children) is reached only where the tree's child list is known to be non-empty",
			"a sub-configuration is requested for the child list without knowing that it is non-empty (leaf-ness decided by something other than the child list): a childless replica above an incomplete last level fails here and its vote never travels up")
	}
	for _, ds := range deepSites(fl, func(cc *ssa.CallCommon) bool { return cc.IsInvoke() && cc.Method.Name() == "SendContributionToParent" }, 0) {
		nUp++
		c.Check(known(ds.Facts, true), "C17.6", "Kauri: the vote goes up without waiting only when the child list is empty", p.Pos(ds.Site.Pos()),
			"begin sends the contribution to the parent at once only where the tree's child list is known to be empty",
			"the vote is sent up without waiting for children although the child list is not known to be empty")
	}
	if nSub == 0 || nUp == 0 {
		c.Unresolved("C17.6", "Kauri.begin", "expected a Sub(children) call and an immediate SendContributionToParent below begin; found "+itoa(nSub)+" and "+itoa(nUp))
	}
}

// isPosKey: k is (or contains) the position of a replica: a call of the position look-up helper, or -- when that
// helper merely forwards, so that the Keyer names the call by what it forwards to -- slices.Index over the position table.
func isPosKey(k, posName string) bool {
	return strings.Contains(k, posName+"(") || strings.Contains(k, "slices.Index[") && strings.Contains(k, "hs/internal/tree.Tree.treePosToID, ")
}

// c17IsRootDirect: IsRoot answers true exactly on `treePosToID[0] == replicaID` (for a non-empty table), written out.
func c17IsRootDirect(p *Prog, fn *ssa.Function) bool {
	fl := NewFlow(p, fn)
	ways := trueEdges(fl)
	if len(ways) == 0 {
		return false
	}
	for _, w := range ways {
		if !hasCmp(w, "==", func(k string) bool { return strings.HasSuffix(k, kTree+"treePosToID[c:0]") }, is("p1")) {
			return false
		}
	}
	// and false only when that comparison fails or the table is empty: the function contains no other test
	nIf := 0
	for _, b := range fn.Blocks {
		if _, ok := b.Instrs[len(b.Instrs)-1].(*ssa.If); ok {
			nIf++
		}
	}
	return nIf <= 1 && len(callsIn(fn, false, func(cc *ssa.CallCommon) bool { _, isB := cc.Value.(*ssa.Builtin); return !isB })) == 0
}

// c17HeightOf (C17.8): a replica's height fits the shape of the tree: height(pos) = treeHeight - level(pos), where the
// levels are the ranges [start, start+count) with (start, count) := (1, bf), then (start+count, count*bf), i.e. exactly
// the ranges that Parent/ChildrenOf induce (children of the positions of one level fill the next). Two loop shapes are
// decided: (A) the level scan  for lvl := 1; lvl < height; lvl++ { if start <= pos < start+count { return height-lvl };
// start += count; count *= bf }  and (B) the walk to the root  for i := pos; i > 0; i = (i-1)/bf { lvl++ }; return height-lvl
// (the Parent formula of C17.2). The loop may live in a private helper that receives height and branch factor as
// arguments, and the result may be returned early or through a result variable. Anything else is reported as not
// recognised (the rule does not evaluate loops).
func c17HeightOf(c *Ctx) {
	p := c.P
	fn := p.Method("internal/tree", "Tree", "heightOf")
	if fn == nil {
		c.Unresolved("C17.8", "Tree.heightOf", "anchor missing")
		return
	}
	nLevelRet := 0
	reason := c17HeightShape(p, fn, map[*ssa.Parameter]string{}, &nLevelRet, 0)
	if reason == "" && nLevelRet == 0 {
		reason = "no result of the form height - level"
	}
	c.Check(reason == "", "C17.8", "heightOf: a replica's height is the tree height minus its level in the positional layout", p.FuncPos(fn),
		"level ranges (start, count) := (1, bf) -> (start+count, count*bf), result height-lvl under start <= pos < start+count (or the walk i -> (i-1)/bf to the root): the ranges that Parent/ChildrenOf induce",
		"heightOf is not the level scan nor the walk to the root over the layout of Parent/ChildrenOf: "+reason+" (a replica's height disagrees with its parent's height minus one)")
}

func c17HeightShape(p *Prog, fn *ssa.Function, roles map[*ssa.Parameter]string, nLevelRet *int, depth int) string {
	if depth > 2 {
		return "helper chain too deep"
	}
	isConst := func(v ssa.Value, n int64) bool {
		cst, ok := v.(*ssa.Const)
		return ok && cst.Value != nil && cst.Value.Kind() == constant.Int && cst.Int64() == n
	}
	isField := func(v ssa.Value, name string) bool {
		if pa, ok := v.(*ssa.Parameter); ok {
			return roles[pa] == name
		}
		if u, ok := v.(*ssa.UnOp); ok && u.Op == token.MUL {
			fa, ok := u.X.(*ssa.FieldAddr)
			return ok && fieldVar(fa.X.Type(), fa.Field) != nil && fieldVar(fa.X.Type(), fa.Field).Name() == name
		}
		f, ok := v.(*ssa.Field) // read from a value copy of the receiver
		return ok && fieldVar(f.X.Type(), f.Field) != nil && fieldVar(f.X.Type(), f.Field).Name() == name
	}
	isHeight := func(v ssa.Value) bool { return isField(v, "height") }
	isBF := func(v ssa.Value) bool { return isField(v, "branchFactor") }
	// a position: any value that is not a loop variable, a constant, the height or the branch factor
	isPos := func(v ssa.Value) bool {
		switch v.(type) {
		case *ssa.Phi, *ssa.Const, *ssa.BinOp:
			return false
		}
		return !isHeight(v) && !isBF(v)
	}
	shape := func(ph *ssa.Phi, init func(ssa.Value) bool, op token.Token, operand func(ssa.Value) bool, commutative bool) bool {
		if len(ph.Edges) != 2 {
			return false
		}
		for i := 0; i < 2; i++ {
			bo, ok := ph.Edges[1-i].(*ssa.BinOp)
			if !init(ph.Edges[i]) || !ok || bo.Op != op {
				continue
			}
			if bo.X == ph && operand(bo.Y) || commutative && bo.Y == ph && operand(bo.X) {
				return true
			}
		}
		return false
	}
	type cond struct {
		c   *ssa.BinOp
		pol bool
	}
	// conditions that hold in block b (on entry, over single-predecessor branch targets up the dominator tree)
	condsAt := func(b *ssa.BasicBlock) []cond {
		var out []cond
		for b != nil {
			d := b.Idom()
			if d == nil {
				break
			}
			if len(b.Preds) == 1 && b.Preds[0] == d {
				if iff, ok := d.Instrs[len(d.Instrs)-1].(*ssa.If); ok {
					if bo, ok := iff.Cond.(*ssa.BinOp); ok {
						out = append(out, cond{bo, d.Succs[0] == b})
					}
				}
			}
			b = d
		}
		return out
	}
	// normalise to  x < y  (strict) or  x <= y
	rel := func(cd cond) (strict bool, x, y ssa.Value, ok bool) {
		op := cd.c.Op
		if !cd.pol {
			switch op {
			case token.LSS:
				op = token.GEQ
			case token.GEQ:
				op = token.LSS
			case token.GTR:
				op = token.LEQ
			case token.LEQ:
				op = token.GTR
			default:
				return false, nil, nil, false
			}
		}
		switch op {
		case token.LSS:
			return true, cd.c.X, cd.c.Y, true
		case token.LEQ:
			return false, cd.c.X, cd.c.Y, true
		case token.GTR:
			return true, cd.c.Y, cd.c.X, true
		case token.GEQ:
			return false, cd.c.Y, cd.c.X, true
		}
		return false, nil, nil, false
	}
	// the loop variables
	var phis []*ssa.Phi
	eachInstr(fn, func(in ssa.Instruction) {
		if ph, ok := in.(*ssa.Phi); ok && len(ph.Edges) == 2 {
			phis = append(phis, ph)
		}
	})
	var lvl, start, count, walk *ssa.Phi
	for _, ph := range phis {
		switch {
		case shape(ph, func(v ssa.Value) bool { return isConst(v, 1) || isConst(v, 0) }, token.ADD, func(v ssa.Value) bool { return isConst(v, 1) }, true):
			lvl = ph
		case shape(ph, isBF, token.MUL, isBF, true):
			count = ph
		}
	}
	for _, ph := range phis {
		if ph == lvl || ph == count {
			continue
		}
		if count != nil && shape(ph, func(v ssa.Value) bool { return isConst(v, 1) }, token.ADD, func(v ssa.Value) bool { return v == count }, true) {
			start = ph
		}
		for i := 0; i < 2; i++ {
			q, ok := ph.Edges[1-i].(*ssa.BinOp)
			if !isPos(ph.Edges[i]) || !ok || q.Op != token.QUO || !isBF(q.Y) {
				continue
			}
			if m, ok := q.X.(*ssa.BinOp); ok && m.Op == token.SUB && m.X == ph && isConst(m.Y, 1) {
				walk = ph
			}
		}
	}
	lvlInit := int64(-1)
	if lvl != nil {
		for _, e := range lvl.Edges {
			if isConst(e, 0) {
				lvlInit = 0
			} else if isConst(e, 1) {
				lvlInit = 1
			}
		}
	}
	// the results: every return value, through result variables (phis), with the block whose conditions apply
	type leaf struct {
		v ssa.Value
		b *ssa.BasicBlock
		r *ssa.Return
	}
	var leaves []leaf
	var flatten func(v ssa.Value, b *ssa.BasicBlock, r *ssa.Return, seen map[ssa.Value]bool)
	flatten = func(v ssa.Value, b *ssa.BasicBlock, r *ssa.Return, seen map[ssa.Value]bool) {
		if ph, ok := v.(*ssa.Phi); ok && ph != lvl && ph != start && ph != count && ph != walk {
			if seen[ph] {
				return
			}
			seen[ph] = true
			for i, e := range ph.Edges {
				flatten(e, ph.Block().Preds[i], r, seen)
			}
			return
		}
		leaves = append(leaves, leaf{v, b, r})
	}
	for _, r := range returnsOf(fn) {
		if len(r.Results) != 1 {
			return "unexpected result list"
		}
		flatten(r.Results[0], r.Block(), r, map[ssa.Value]bool{})
	}
	for _, lf := range leaves {
		v := lf.v
		if isConst(v, 0) {
			continue
		}
		if isHeight(v) {
			rootOK := false
			for b := lf.b; b != nil; b = b.Idom() {
				d := b.Idom()
				if d == nil {
					break
				}
				if iff, ok := d.Instrs[len(d.Instrs)-1].(*ssa.If); ok && len(b.Preds) == 1 && d.Succs[0] == b {
					if call, ok := iff.Cond.(*ssa.Call); ok && call.Call.StaticCallee() != nil && call.Call.StaticCallee().Name() == "IsRoot" {
						rootOK = true
					}
					if bo, ok := iff.Cond.(*ssa.BinOp); ok && bo.Op == token.EQL && (isPos(bo.X) && isConst(bo.Y, 0) || isPos(bo.Y) && isConst(bo.X, 0)) {
						rootOK = true
					}
				}
			}
			if !rootOK {
				return "the full height is returned at " + p.InstrPos(lf.r) + " for a replica that is not known to be the root"
			}
			continue
		}
		if call, ok := v.(*ssa.Call); ok {
			// the loop in a private helper of the package: height and branch factor arrive as arguments
			if g := call.Call.StaticCallee(); g != nil && g.Blocks != nil && funcPkgPath(g) == funcPkgPath(fn) && g != fn {
				sub := map[*ssa.Parameter]string{}
				for i, a := range call.Call.Args {
					if i >= len(g.Params) {
						break
					}
					switch {
					case isHeight(a):
						sub[g.Params[i]] = "height"
					case isBF(a):
						sub[g.Params[i]] = "branchFactor"
					}
				}
				if why := c17HeightShape(p, g, sub, nLevelRet, depth+1); why != "" {
					return why
				}
				continue
			}
		}
		bo, ok := v.(*ssa.BinOp)
		if !ok || bo.Op != token.SUB || !isHeight(bo.X) || lvl == nil || bo.Y != lvl {
			if lvl == nil {
				return "no level counter (a loop variable incremented by 1 per level) found"
			}
			return "the result at " + p.InstrPos(lf.r) + " is not height - level"
		}
		*nLevelRet++
		if walk != nil && start == nil {
			// shape B: the result after the loop  for i > 0  ends, levels counted from 0
			if lvlInit != 0 {
				return "the walk to the root counts levels from " + itoa(int(lvlInit)) + ", not 0"
			}
			hdr := walk.Block()
			iff, ok := hdr.Instrs[len(hdr.Instrs)-1].(*ssa.If)
			if !ok || lvl.Block() != hdr {
				return "the walk's loop header is not recognised"
			}
			cb, ok := iff.Cond.(*ssa.BinOp)
			okCond := ok && (cb.Op == token.GTR && cb.X == walk && isConst(cb.Y, 0) || cb.Op == token.NEQ && cb.X == walk && isConst(cb.Y, 0) || cb.Op == token.LSS && cb.Y == walk && isConst(cb.X, 0))
			if !okCond || hdr.Succs[1] != lf.b {
				return "the walk does not run exactly until position 0 (the root) is reached"
			}
			continue
		}
		if start == nil || count == nil {
			return "neither the level scan (start, count) nor the walk to the root (i = (i-1)/bf) is recognised"
		}
		if lvlInit != 1 || lvl.Block() != start.Block() || count.Block() != start.Block() {
			return "the level scan's loop variables are not (start, count, lvl) := (1, bf, 1) of one loop"
		}
		isEnd := func(v ssa.Value) bool {
			b, ok := v.(*ssa.BinOp)
			return ok && b.Op == token.ADD && (b.X == start && b.Y == count || b.X == count && b.Y == start)
		}
		var lo, hi ssa.Value
		for _, cd := range condsAt(lf.b) {
			strict, x, y, ok := rel(cd)
			if !ok {
				continue
			}
			if !strict && x == start && isPos(y) {
				lo = y
			}
			if strict && isEnd(y) && isPos(x) {
				hi = x
			}
		}
		if lo == nil || hi == nil || lo != hi {
			return "height - lvl is returned at " + p.InstrPos(lf.r) + " without start <= pos && pos < start+count for that level"
		}
		hdr := start.Block()
		iff, ok := hdr.Instrs[len(hdr.Instrs)-1].(*ssa.If)
		if !ok {
			return "the level scan's loop header is not recognised"
		}
		cb, ok := iff.Cond.(*ssa.BinOp)
		if !ok || !(cb.Op == token.LSS && cb.X == lvl && isHeight(cb.Y) || cb.Op == token.GTR && cb.Y == lvl && isHeight(cb.X)) {
			return "the level scan does not cover exactly the levels 1 .. height-1"
		}
	}
	return ""
}
