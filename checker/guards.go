package main

// Guarded-by table, frozen from reading the code (each struct says "protects the
// following" or every existing access takes the lock).
var guards = map[string]guardSpec{
	"queue": {rel: "core/eventloop", typ: "queue", mutex: "mut", fields: []string{"entries", "head", "tail"}},
	"EventLoop": {rel: "core/eventloop", typ: "EventLoop", mutex: "mut",
		fields: []string{"ctx", "waitingEvents", "handlers", "tickers", "tickerID"}},
	"CommandCache": {rel: "internal/proto/clientpb", typ: "CommandCache", mutex: "mut", fields: []string{"cache", "clientSeqNumbers"},
		helpers: []string{"hasFullBatch", "tryExtractBatch", "isDuplicate"}},
	"ClientIO": {rel: "server", typ: "ClientIO", mutex: "mut", fields: []string{"awaitingCmds", "cmdCount", "lastExecutedSeqNum"},
		helpers: []string{"isDuplicate", "completeCommand"},
		exempt: map[string]string{
			"(*hs/server.ClientIO).CmdCount": "statistics getter read by the experiment driver after the replica stopped; not part of any property",
		}},
	"Cache": {rel: "security/cert", typ: "Cache", mutex: "mut", fields: []string{"entries", "accessOrder"}, helpers: []string{"evict"}},
	"Blockchain": {rel: "security/blockchain", typ: "Blockchain", mutex: "mut",
		fields: []string{"blocks", "blockAtHeight", "pruneHeight", "pendingFetch"}},
	"ViewStates":    {rel: "protocol", typ: "ViewStates", mutex: "mut", fields: []string{"highQC", "highTC", "view", "committedBlock"}},
	"bls12Base":     {rel: "security/crypto", typ: "bls12Base", mutex: "mut", fields: []string{"popCache"}},
	"VotingMachine": {rel: "protocol/votingmachine", typ: "VotingMachine", mutex: "mut", fields: []string{"verifiedVotes"}},
	"JSONWriter": {rel: "twins", typ: "JSONWriter", mutex: "mut", fields: []string{"first", "wr"},
		exempt: map[string]string{
			"(*hs/twins.JSONWriter).Close": "writes the closing bracket once, after every worker that writes scenarios has finished (the stream is complete only then)",
		}},
	"Generator": {rel: "twins", typ: "Generator", mutex: "mut", fields: []string{"remaining", "indices"}, optional: []string{"done"}},
}
