package main

import (
	"go/token"
	"go/types"
	"regexp"
	"strings"

	"golang.org/x/tools/go/ssa"
)

func init() { register("C11", checkC11) }

func checkC11(c *Ctx) {
	p := c.P
	c.Decided = "the key under which a verdict is remembered or looked up incorporates the message (for batches: every per-signer message and its signer id, through a hash whose result reaches the key), the signature bytes and the claimed signer set; " +
		"a verdict is remembered only after the delegated operation succeeded, a hit returns success and a miss returns the delegate's verdict unchanged; Combine neither reads nor writes the cache; " +
		"the cache tables are accessed only under the mutex; eviction and insertion keep the map and the recency list in step."
	c.Decided += " The key is uniquely decodable in its two variable-length parts: the number of claimed signers precedes the id list and the sizes of the individual signatures precede the signature bytes; Multi enumerates ids, sizes and bytes in the same (slice) order."
	c.NotDec = "collision resistance of SHA-256; injectivity of the key encoding beyond the two framing clauses that are checked (signer count before the id list, sizes of the individual signatures before the bytes); LRU order as such (irrelevant to verdicts given the clauses above)."
	c.Assume = append(c.Assume, "SHA-256 is collision resistant; QuorumSignature.ToBytes and the ordered participant ids determine what the delegated verifier checks")
	c.Expect("C11.1", 15)
	c.Expect("C11.6", 5)

	check := p.Method("security/cert", "Cache", "check")
	insert := p.Method("security/cert", "Cache", "insert")
	if check == nil || insert == nil {
		c.Unresolved("C11.1", "Cache.check/insert", "anchor missing")
		return
	}
	type spec struct {
		name    string
		sig     func(ic *incorp, fn *ssa.Function) string // tag base of the signature
		msgTags func(sig string) [][]string               // alternatives: each inner list must all be present
	}
	specs := []spec{
		{"Sign", func(ic *incorp, fn *ssa.Function) string {
			base := ""
			eachInstr(fn, func(in ssa.Instruction) {
				if call, ok := in.(*ssa.Call); ok && call.Call.IsInvoke() && call.Call.Method.Name() == "Sign" {
					base = ic.k.Key(call)
				}
			})
			return base
		}, func(string) [][]string { return [][]string{{"p1"}} }},
		{"Verify", func(*incorp, *ssa.Function) string { return "p1" }, func(string) [][]string { return [][]string{{"p2"}} }},
		{"BatchVerify", func(*incorp, *ssa.Function) string { return "p1" }, func(string) [][]string { return [][]string{{"lookup(p2)", "keys(p2)", "len(lookup(p2))"}} }},
	}
	for _, s := range specs {
		fn := p.Method("security/cert", "Cache", s.name)
		if fn == nil {
			c.Unresolved("C11.1", "Cache."+s.name, "anchor missing")
			continue
		}
		ic := newIncorp(p, fn)
		fl := NewFlow(p, fn)
		sigBase := s.sig(ic, fn)
		sites := callsIn(fn, false, func(cc *ssa.CallCommon) bool { return calleeIs(cc, check) || calleeIs(cc, insert) })
		// the keys given to check/insert, in the function or in private helpers of the package that
		// receive the key (or what it is built from) as arguments
		ksites := c11KeySites(ic, check, insert)
		if len(ksites) == 0 {
			c.Unresolved("C11.1", "Cache."+s.name, "no check/insert call")
			continue
		}
		var missMsg, missSig, missSigners, missCount, missSizes []string
		for _, ks := range ksites {
			d := ks.deps
			hasAll := func(tags []string) bool {
				for _, t := range tags {
					found := false
					for k := range d {
						if k == t || strings.HasPrefix(k, t+"#") {
							found = true
						}
					}
					if !found {
						return false
					}
				}
				return true
			}
			okMsg := false
			for _, alt := range s.msgTags(sigBase) {
				if hasAll(alt) {
					okMsg = true
				}
			}
			where := p.Pos(ks.site.Pos()) + " key incorporates {" + join(d.sorted()) + "}"
			if !okMsg {
				missMsg = append(missMsg, where)
			}
			sb := sigBase
			if !d["ToBytes("+sb+")"] {
				missSig = append(missSig, where)
			}
			if !d["Participants("+sb+")"] {
				missSigners = append(missSigners, where)
			}
			// accepted idioms: Participants().Len(), or len() of a value built from the participants
			counted := false
			for k := range d {
				if (strings.HasPrefix(k, "Len(") || strings.HasPrefix(k, "len(")) && strings.Contains(k, "Participants("+sb+")") {
					counted = true
				}
			}
			if !counted {
				missCount = append(missCount, where)
			}
			if !d["Sizes("+sb+")"] {
				missSizes = append(missSizes, where)
			}
		}
		what := map[string]string{"Sign": "the message", "Verify": "the message", "BatchVerify": "every per-signer message, its length (the messages are concatenated) and its signer id (hash result reaching the key)"}[s.name]
		c.Check(len(missMsg) == 0, "C11.1/message", "Cache."+s.name, p.FuncPos(fn),
			"every key given to check/insert ("+itoa(len(ksites))+" sites) incorporates "+what,
			"cache key does not incorporate "+what+": a verdict remembered for one message/batch is returned for another; "+join(missMsg))
		c.Check(len(missSig) == 0, "C11.1/signature", "Cache."+s.name, p.FuncPos(fn),
			"every key incorporates signature.ToBytes()", "cache key does not incorporate the signature bytes; "+join(missSig))
		c.Check(len(missSigners) == 0, "C11.1/signers", "Cache."+s.name, p.FuncPos(fn),
			"every key incorporates the claimed signer set (signature.Participants())",
			"cache key does not incorporate the claimed signer set: the signers are not part of ToBytes() for multi-signatures and BLS aggregates, so the same bytes with swapped or different signer ids hit the cache; "+join(missSigners))
		c.Check(len(missCount) == 0, "C11.1/delimited", "Cache."+s.name, p.FuncPos(fn),
			"every key incorporates the number of claimed signers, which separates the variable-length id list from the signature bytes",
			"cache key does not incorporate the number of claimed signers (Participants().Len()): the id list runs into the signature bytes, so bytes moved between the two give a different claimed signer set the same key; "+join(missCount))
		c.Check(len(missSizes) == 0, "C11.1/entries", "Cache."+s.name, p.FuncPos(fn),
			"every key incorporates the sizes of the individual signatures (Sizes()), which ToBytes of a multi-signature concatenates without separators",
			"cache key does not incorporate the sizes of the individual signatures: bytes moved from one signer's signature to its neighbour's leave the key unchanged, so a certificate whose signatures are all malformed is accepted from the entry of the genuine one; "+join(missSizes))

		// C11.2 verdict discipline
		if s.name != "Sign" {
			delegName := s.name
			var deleg *ssa.Call
			eachInstr(fn, func(in ssa.Instruction) {
				if call, ok := in.(*ssa.Call); ok && call.Call.IsInvoke() && call.Call.Method.Name() == delegName && strings.HasSuffix(fl.K.Key(call.Call.Value), "Cache.impl") {
					deleg = call
				}
			})
			if deleg == nil {
				if ok, detail := c11DelegateThroughHelper(c, fl, delegName, check, insert); ok {
					c.Held("C11.2", "Cache."+s.name+": hit = success, miss = delegate's verdict, remember only successes", p.FuncPos(fn), detail)
				} else if detail != "" {
					c.Violated("C11.2", "Cache."+s.name+": hit = success, miss = delegate's verdict, remember only successes", p.FuncPos(fn), detail)
				} else {
					c.Violated("C11.2", "Cache."+s.name+": delegate", p.FuncPos(fn), "no call of impl."+delegName)
				}
				continue
			}
			dk := fl.K.Key(deleg)
			argsOK := len(deleg.Call.Args) == 2 && fl.K.Key(deleg.Call.Args[0]) == "p1" && fl.K.Key(deleg.Call.Args[1]) == "p2"
			var bad []string
			// insert sites in the function or in private helpers it calls (facts in the function's terms)
			for _, ds := range deepSites(fl, func(cc *ssa.CallCommon) bool { return calleeIs(cc, insert) }, 0) {
				if !errNilOf(ds.Facts, is(dk)) {
					bad = append(bad, "insert at "+p.Pos(ds.Site.Pos())+" not dominated by "+delegName+" == nil")
				}
			}
			for _, e := range successExits(fl, 0) {
				facts := e.Facts
				hit := trueOf(facts, func(k string) bool { return strings.HasPrefix(k, callKeyPrefix(p, check)) })
				if !hit && !errNilOf(facts, is(dk)) && !(e.Via == deleg) {
					bad = append(bad, "accepting exit at "+p.Pos(e.Ret.Pos())+" is neither a cache hit nor a delegate success")
				}
			}
			// rejecting exits return the delegate's error itself
			for _, r := range returnsOf(fn) {
				v := retValue(r, 0)
				if isNilConst(v) || !fl.Reachable(r.Block()) {
					continue
				}
				if fl.K.Key(v) != dk && !knownNonNilError(v) {
					bad = append(bad, "exit at "+p.Pos(r.Pos())+" returns "+fl.K.Key(v))
				}
			}
			c.Check(argsOK && len(bad) == 0, "C11.2", "Cache."+s.name+": hit = success, miss = delegate's verdict, remember only successes", p.FuncPos(fn),
				"impl."+delegName+"(signature, message) is called with the caller's arguments; insert only after it returned nil; every accepting exit is a hit or a delegate success; errors are the delegate's",
				"delegate args ok: "+boolStr(argsOK)+"; "+join(bad))
		} else {
			var bad []string
			for _, site := range sites {
				if calleeIs(site.Common(), insert) && !errNilOf(fl.At(site), func(k string) bool { return strings.HasPrefix(k, sigBase) && strings.HasSuffix(k, "#1") }) {
					bad = append(bad, "insert at "+p.Pos(site.Pos())+" not dominated by Sign err == nil")
				}
				if calleeIs(site.Common(), check) {
					bad = append(bad, "Sign consults the cache at "+p.Pos(site.Pos()))
				}
			}
			c.Check(len(bad) == 0, "C11.2", "Cache.Sign: remembers only own successful signatures", p.FuncPos(fn), "insert only after impl.Sign succeeded; the cache is not consulted for signing", join(bad))
		}
	}
	c11Pairing(c)
	// C11.3 Combine bypasses the cache
	if comb := p.Method("security/cert", "Cache", "Combine"); comb != nil {
		n := len(callsIn(comb, true, func(cc *ssa.CallCommon) bool { return calleeIs(cc, check) || calleeIs(cc, insert) }))
		fl := NewFlow(p, comb)
		deleg := false
		for _, r := range returnsOf(comb) {
			if strings.Contains(fl.K.Key(retValue(r, 0)), "Base).Combine(p0->hs/security/cert.Cache.impl, p1") {
				deleg = true
			}
		}
		c.Check(n == 0 && deleg, "C11.3", "Cache.Combine: neither reads nor writes the cache", p.FuncPos(comb), "returns impl.Combine(signatures...) directly", "check/insert calls: "+itoa(n)+", delegates: "+boolStr(deleg))
	} else {
		c.Unresolved("C11.3", "Cache.Combine", "anchor missing")
	}
	c.whoMayCall("C11.3", insert, "Cache.insert", "(*hs/security/cert.Cache).Sign", "(*hs/security/cert.Cache).Verify", "(*hs/security/cert.Cache).BatchVerify")
	c.whoMayCall("C11.3", check, "Cache.check", "(*hs/security/cert.Cache).Verify", "(*hs/security/cert.Cache).BatchVerify")

	// C11.4 lock discipline
	c.checkGuard("C11.4", guards["Cache"])

	// C11.5 map and list stay in step
	ev := p.Method("security/cert", "Cache", "evict")
	if ev == nil {
		ev = insert // eviction written inline in insert
	}
	if ev != nil {
		fl := NewFlow(p, ev)
		ok, gateAt := false, false
		// (the removal may sit in a private helper, with the capacity test in the caller or in a predicate helper)
		for _, d := range deepInstrs(fl, func(in ssa.Instruction) bool {
			call, isCall := in.(*ssa.Call)
			if !isCall {
				return false
			}
			b, isB := call.Call.Value.(*ssa.Builtin)
			return isB && b.Name() == "delete"
		}, 0) {
			call := d.Instr.(*ssa.Call)
			k := d.Key(call.Call.Args[1])
			if strings.Contains(k, "(*container/list.List).Remove(&p0->hs/security/cert.Cache.accessOrder, (*container/list.List).Back(&p0->hs/security/cert.Cache.accessOrder)") {
				ok = true
				// reached only at capacity (early return below capacity, or the removal nested under the test)
				if hasCmp(d.Facts, "<=", is("p0->hs/security/cert.Cache.capacity"), func(k string) bool { return strings.HasPrefix(k, "builtin len(p0->hs/security/cert.Cache.entries)") }) {
					gateAt = true
				}
			}
		}
		gate := gateAt
		c.Check(ok && gate, "C11.5", "evict: removes the least recently used key from both structures, only at capacity", p.FuncPos(ev),
			"delete(entries, accessOrder.Remove(accessOrder.Back())); nothing is evicted while len(entries) < capacity", "same-key removal: "+boolStr(ok)+", capacity gate: "+boolStr(gate))
	} else {
		c.Unresolved("C11.5", "Cache.evict", "anchor missing")
	}
	{
		fl := NewFlow(p, insert)
		ok := false
		// (in insert or in a private helper of the package it delegates to; keys in insert's terms)
		for _, d := range deepInstrs(fl, func(in ssa.Instruction) bool { _, isMU := in.(*ssa.MapUpdate); return isMU }, 0) {
			mu := d.Instr.(*ssa.MapUpdate)
			if d.Key(mu.Map) == "p0->hs/security/cert.Cache.entries" {
				if d.Key(mu.Key) == "p1" && strings.HasPrefix(d.Key(mu.Value), "(*container/list.List).PushFront(&p0->hs/security/cert.Cache.accessOrder, p1)") {
					ok = true
					// only a key that is not there yet: a second list element for a key that is already present leaves a
					// stale element behind, whose eviction later removes the live key from the map
					absent := falseOf(d.Facts, func(k string) bool {
						return strings.HasPrefix(k, "p0->hs/security/cert.Cache.entries[p1]") && strings.HasSuffix(k, "#1")
					})
					c.Check(absent, "C11.5", "insert: a key enters the recency list once", p.InstrPos(d.Instr),
						"PushFront(key) only when entries has no element for the key (a present key is moved to the front instead)",
						"a key that is already cached gets a second list element; facts: "+join(d.Facts.Sorted()))
				}
			}
		}
		c.Check(ok, "C11.5", "insert: entries[key] = accessOrder.PushFront(key)", p.FuncPos(insert), "a new key enters both structures together", "insert does not add the same key to both structures")
	}
}

type c11KeySite struct {
	site ssa.CallInstruction
	deps depSet
}

// c11KeySites: the check/insert call sites of ic.fn and of the private helpers of the package it
// calls (two levels), each with what its key argument incorporates in ic.fn's terms.
func c11KeySites(ic *incorp, check, insert *ssa.Function) []c11KeySite {
	var out []c11KeySite
	for _, site := range callsIn(ic.fn, false, func(*ssa.CallCommon) bool { return true }) {
		cc := site.Common()
		if calleeIs(cc, check) || calleeIs(cc, insert) {
			out = append(out, c11KeySite{site, ic.deps(cc.Args[1])})
			continue
		}
		if _, isGo := site.(*ssa.Go); isGo || ic.depth >= 2 {
			continue
		}
		cal := cc.StaticCallee()
		if cal == nil || cal == ic.fn || cal.Blocks == nil || cal.Synthetic != "" || cal.Object() == nil || cal.Object().Exported() || funcPkgPath(cal) != funcPkgPath(ic.fn) {
			continue
		}
		sub := newIncorp(ic.p, cal)
		sub.depth = ic.depth + 1
		for _, ks := range c11KeySites(sub, check, insert) {
			d := depSet{}
			for tag := range ks.deps {
				d.add(substParams(tag, cal, cc.Args, ic))
			}
			out = append(out, c11KeySite{ks.site, d})
		}
	}
	return out
}

// c11DelegateThroughHelper: the delegated verification is a function literal `func() error {
// return cache.impl.<name>(signature, message) }` that fl.Fn hands to a private helper of the
// package together with the key; the helper consults the cache, runs the function it was given
// and remembers the key. The verdict discipline is then judged in the helper, with the call of
// its function parameter in the place of the delegate call, and fl.Fn must return the helper's
// verdict. Returns (false, "") when the shape is not present.
func c11DelegateThroughHelper(c *Ctx, fl *Flow, delegName string, check, insert *ssa.Function) (bool, string) {
	p := c.P
	fn := fl.Fn
	var mc *ssa.MakeClosure
	var deleg *ssa.Call
	var lit *ssa.Function
	eachInstr(fn, func(in ssa.Instruction) {
		m, ok := in.(*ssa.MakeClosure)
		if !ok {
			return
		}
		cl, _ := m.Fn.(*ssa.Function)
		if cl == nil {
			return
		}
		k := NewKeyer(p, cl)
		eachInstr(cl, func(in2 ssa.Instruction) {
			if call, ok := in2.(*ssa.Call); ok && call.Call.IsInvoke() && call.Call.Method.Name() == delegName && strings.HasSuffix(k.Key(call.Call.Value), "Cache.impl") {
				mc, deleg, lit = m, call, cl
			}
		})
	})
	if mc == nil {
		return false, ""
	}
	var bad []string
	// the literal returns the delegate's verdict and passes the caller's arguments on
	lk := NewKeyer(p, lit)
	for _, r := range returnsOf(lit) {
		if len(r.Results) != 1 || retValue(r, 0) != ssa.Value(deleg) {
			bad = append(bad, "the function literal at "+p.Pos(r.Pos())+" does not return the delegate's verdict")
		}
	}
	inOuter := func(v ssa.Value) string {
		fs := closureFactsInOuter(fl, mc, lit, FactSet{Fact{"true", lk.Key(v), ""}: true})
		if len(fs) == 1 {
			return fs[0].L
		}
		return "?"
	}
	argsOK := len(deleg.Call.Args) == 2 && inOuter(deleg.Call.Args[0]) == "p1" && inOuter(deleg.Call.Args[1]) == "p2"
	// handed to a private helper of the package, and to nothing else
	var hc *ssa.Call
	var h *ssa.Function
	argIdx := -1
	if refs := mc.Referrers(); refs != nil {
		for _, r := range *refs {
			if _, isDbg := r.(*ssa.DebugRef); isDbg {
				continue
			}
			call, ok := r.(*ssa.Call)
			if !ok || hc != nil {
				return false, "the verification function at " + p.InstrPos(mc) + " is used in a way the rule does not follow"
			}
			cal := call.Call.StaticCallee()
			if cal == nil || cal.Blocks == nil || cal.Object() == nil || cal.Object().Exported() || funcPkgPath(cal) != funcPkgPath(fn) {
				return false, "the verification function at " + p.InstrPos(mc) + " is handed to something other than a private helper of the package"
			}
			for j, a := range call.Call.Args {
				if a == ssa.Value(mc) {
					argIdx = j
				}
			}
			hc, h = call, cal
		}
	}
	if hc == nil || argIdx < 0 || argIdx >= len(h.Params) {
		return false, "the verification function at " + p.InstrPos(mc) + " is never run"
	}
	// in the helper: its function parameter is only called
	var dcalls []*ssa.Call
	if refs := h.Params[argIdx].Referrers(); refs != nil {
		for _, r := range *refs {
			if _, isDbg := r.(*ssa.DebugRef); isDbg {
				continue
			}
			call, ok := r.(*ssa.Call)
			if !ok || call.Call.Value != ssa.Value(h.Params[argIdx]) {
				return false, "helper " + shortName(h) + " does more with its function parameter than calling it"
			}
			dcalls = append(dcalls, call)
		}
	}
	if len(dcalls) != 1 {
		return false, "helper " + shortName(h) + " calls its function parameter " + itoa(len(dcalls)) + " times"
	}
	hfl := NewFlow(p, h)
	dk := hfl.K.Key(dcalls[0])
	for _, ds := range deepSites(hfl, func(cc *ssa.CallCommon) bool { return calleeIs(cc, insert) }, 0) {
		if !errNilOf(ds.Facts, is(dk)) {
			bad = append(bad, "insert at "+p.Pos(ds.Site.Pos())+" not dominated by "+delegName+" == nil")
		}
	}
	for _, e := range successExits(hfl, 0) {
		hit := trueOf(e.Facts, func(k string) bool { return strings.HasPrefix(k, callKeyPrefix(p, check)) })
		if !hit && !errNilOf(e.Facts, is(dk)) && !(e.Via == dcalls[0]) {
			bad = append(bad, "accepting exit at "+p.Pos(e.Ret.Pos())+" is neither a cache hit nor a delegate success")
		}
	}
	for _, r := range returnsOf(h) {
		v := retValue(r, 0)
		if isNilConst(v) || !hfl.Reachable(r.Block()) {
			continue
		}
		if hfl.K.Key(v) != dk && !knownNonNilError(v) {
			bad = append(bad, "exit at "+p.Pos(r.Pos())+" returns "+hfl.K.Key(v))
		}
	}
	// in the function: nothing is remembered outside the helper, and the verdict is the helper's
	for _, ds := range deepSites(fl, func(cc *ssa.CallCommon) bool { return calleeIs(cc, insert) }, 0) {
		if ds.Via != ssa.CallInstruction(hc) {
			bad = append(bad, "insert at "+p.Pos(ds.Site.Pos())+" outside "+shortName(h))
		}
	}
	for _, r := range returnsOf(fn) {
		v := retValue(r, 0)
		if !fl.Reachable(r.Block()) || knownNonNilError(v) {
			continue
		}
		if v != ssa.Value(hc) {
			bad = append(bad, "exit at "+p.Pos(r.Pos())+" returns "+fl.K.Key(v)+" instead of the verdict of "+shortName(h))
		}
	}
	if !argsOK {
		bad = append(bad, "the delegate is not called with the caller's signature and message")
	}
	if len(bad) > 0 {
		return false, join(bad)
	}
	return true, "impl." + delegName + "(signature, message) is run by " + shortName(h) + " as the function it is given; there: insert only after it returned nil, every accepting exit is a hit or a delegate success, errors are the delegate's; the function returns that verdict"
}

// c11Pairing (C11.6): the key writes the signer ids (Participants().ForEach) and then the
// signature bytes (ToBytes) as two separate runs. For a Multi the i-th id and the i-th
// signature belong together only if both runs enumerate the entries in the same order: the
// order of the slice. If ids were enumerated in another order (say ascending) than the
// bytes, entries [(2,B),(1,A)] and [(1,B),(2,A)] would share a key.
func c11Pairing(c *Ctx) {
	p := c.P
	elemOfIndex := regexp.MustCompile(`^invoke \(hs/security/crypto\.Signature\)\.(Signer|ToBytes)\(p0\[(phi@b\d+i\d+)\]\)$`)
	elemOfRange := regexp.MustCompile(`^invoke \(hs/security/crypto\.Signature\)\.(Signer|ToBytes)\(p0\[\((phi@b\d+i\d+) \+ c:1\)\]\)$`)
	rangeIdx := func(fn *ssa.Function, phiKey string, k *Keyer) bool {
		ok := false
		eachInstr(fn, func(in ssa.Instruction) {
			if ph, isPhi := in.(*ssa.Phi); isPhi && k.Key(ph) == phiKey && ph.Comment == "rangeindex" {
				ok = true
			}
			// an explicit ascending index: i := 0; …; i++
			if ph, isPhi := in.(*ssa.Phi); isPhi && k.Key(ph) == phiKey && len(ph.Edges) == 2 {
				init, step := false, false
				for _, e := range ph.Edges {
					if isIntConst(e, 0) {
						init = true
					}
					if bo, isBo := e.(*ssa.BinOp); isBo && bo.Op == token.ADD && bo.X == ssa.Value(ph) && isIntConst(bo.Y, 1) {
						step = true
					}
				}
				if init && step {
					ok = true
				}
			}
		})
		return ok
	}
	for _, name := range []string{"ForEach", "RangeWhile"} {
		fn := p.Method("security/crypto", "Multi", name)
		if fn == nil {
			c.Unresolved("C11.6", "Multi."+name, "anchor missing")
			continue
		}
		k := NewKeyer(p, fn)
		n, bad := 0, ""
		eachInstr(fn, func(in ssa.Instruction) {
			call, ok := in.(*ssa.Call)
			if !ok || call.Call.IsInvoke() || call.Call.Value != fn.Params[1] {
				return
			}
			n++
			m := elemOfRange.FindStringSubmatch(k.Key(call.Call.Args[0]))
			if m == nil {
				m = elemOfIndex.FindStringSubmatch(k.Key(call.Call.Args[0]))
			}
			if m == nil || m[1] != "Signer" || !rangeIdx(fn, m[2], k) {
				bad = "the callback receives " + k.Key(call.Call.Args[0]) + ", not the signer of the entry at the range position"
			}
		})
		if n == 0 {
			// one of the two iterations written in terms of the other (`sig.RangeWhile(func(id) bool { f(id); return true })`):
			// the order is the delegate's, which is judged on its own
			other := map[string]string{"ForEach": "RangeWhile", "RangeWhile": "ForEach"}[name]
			if of := p.Method("security/crypto", "Multi", other); of != nil {
				for _, cs := range callsIn(fn, false, func(cc *ssa.CallCommon) bool {
					return calleeIs(cc, of) || (cc.StaticCallee() != nil && cc.StaticCallee().Origin() == of)
				}) {
					if len(cs.Common().Args) != 2 || k.Key(cs.Common().Args[0]) != "p0" {
						continue
					}
					cl := funcOfValue(cs.Common().Args[1])
					if cl == nil || cl.Parent() != fn {
						continue
					}
					ck := NewKeyer(p, cl)
					nf, okArg := 0, true
					eachInstr(cl, func(x ssa.Instruction) {
						c2, ok := x.(*ssa.Call)
						if !ok || c2.Call.IsInvoke() {
							return
						}
						cv := c2.Call.Value
						if u, isU := cv.(*ssa.UnOp); isU {
							cv = u.X // the callback captured by reference
						}
						if fv, isFV := cv.(*ssa.FreeVar); isFV && fv.Name() == fn.Params[1].Name() {
							nf++
							if len(c2.Call.Args) != 1 || ck.Key(c2.Call.Args[0]) != "p0" {
								okArg = false
							}
						}
					})
					if nf == 1 && okArg {
						n = 1
					}
				}
			}
		}
		c.Check(n == 1 && bad == "", "C11.6", "Multi."+name+": ids are enumerated in slice order", p.FuncPos(fn),
			"f(sig[i].Signer()) for i ascending over the receiver: the same order in which ToBytes concatenates the signatures, so id i and signature i of the cache key belong together",
			map[bool]string{true: bad, false: "callback invocations found: " + itoa(n)}[bad != ""])
	}
	if fn := p.Method("security/crypto", "Multi", "ToBytes"); fn != nil {
		k := NewKeyer(p, fn)
		ok := false
		for _, r := range returnsOf(fn) {
			ph, isPhi := r.Results[0].(*ssa.Phi)
			if !isPhi {
				continue
			}
			for _, e := range ph.Edges {
				call, isCall := e.(*ssa.Call)
				if !isCall || len(call.Call.Args) != 2 || call.Call.Args[0] != ph {
					continue
				}
				if b, isB := call.Call.Value.(*ssa.Builtin); !isB || b.Name() != "append" {
					continue
				}
				m := elemOfRange.FindStringSubmatch(k.Key(call.Call.Args[1]))
				if m != nil && m[1] == "ToBytes" && rangeIdx(fn, m[2], k) {
					ok = true
				}
			}
		}
		c.Check(ok, "C11.6", "Multi.ToBytes: signatures are concatenated in slice order", p.FuncPos(fn),
			"b = append(b, sig[i].ToBytes()...) for i ascending over the receiver", "ToBytes is not the concatenation of the entries in slice order")
	} else {
		c.Unresolved("C11.6", "Multi.ToBytes", "anchor missing")
	}
	if fn := p.Method("security/crypto", "Multi", "Sizes"); fn != nil {
		k := NewKeyer(p, fn)
		lenOfEntry := regexp.MustCompile(`^builtin len\(invoke \(hs/security/crypto\.Signature\)\.ToBytes\(p0\[\((phi@b\d+i\d+) \+ c:1\)\]\)\)`)
		ok, n := false, 0
		eachInstr(fn, func(in ssa.Instruction) {
			call, isCall := in.(*ssa.Call)
			if !isCall {
				return
			}
			if b, isB := call.Call.Value.(*ssa.Builtin); !isB || b.Name() != "append" || len(call.Call.Args) != 2 {
				return
			}
			n++
			var elem string
			storedInto(sliceBase(call.Call.Args[1]), func(e ssa.Value) bool { elem = k.Key(e); return false })
			if m := lenOfEntry.FindStringSubmatch(elem); m != nil && rangeIdx(fn, m[1], k) {
				ok = true
			}
		})
		c.Check(ok && n == 1, "C11.6", "Multi.Sizes: the sizes of the entries in slice order", p.FuncPos(fn),
			"sizes = append(sizes, len(sig[i].ToBytes())) for i ascending over the receiver: the split points of ToBytes", "Sizes is not the list of len(sig[i].ToBytes()) in slice order")
	} else {
		c.Unresolved("C11.6", "Multi.Sizes", "anchor missing: the cache key cannot tell the signers' signatures apart")
	}
	// the key builder learns the sizes through a type assertion on an interface: every multi-signature type that has a
	// Sizes method must implement the asserted interface, or the assertion silently fails and the sizes are left out
	{
		n := 0
		var bad []string
		for _, fn := range p.ModFuncs {
			if funcPkgPath(fn) != modPath+"/security/cert" || fn.Blocks == nil || strings.HasSuffix(p.FuncPos(fn), "_test.go") {
				continue
			}
			eachInstr(fn, func(in ssa.Instruction) {
				ta, ok := in.(*ssa.TypeAssert)
				if !ok {
					return
				}
				iface, ok := ta.AssertedType.Underlying().(*types.Interface)
				if !ok {
					return
				}
				hasSizes := false
				for i := 0; i < iface.NumMethods(); i++ {
					if iface.Method(i).Name() == "Sizes" {
						hasSizes = true
					}
				}
				if !hasSizes {
					return
				}
				n++
				for _, mf := range p.ModFuncs {
					if mf.Name() != "Sizes" || mf.Signature.Recv() == nil || funcPkgPath(mf) != modPath+"/security/crypto" || mf.Synthetic != "" && mf.Origin() == nil {
						continue
					}
					rt := mf.Signature.Recv().Type()
					if _, isTP := rt.(*types.TypeParam); isTP {
						continue
					}
					if named := namedOf(rt); named != nil && named.TypeParams().Len() > 0 && named.TypeArgs().Len() == 0 {
						continue // the generic declaration itself: judged on its instantiations
					}
					if !types.Implements(rt, iface) && !types.Implements(types.NewPointer(rt), iface) {
						bad = append(bad, rt.String()+" has a Sizes method but does not implement "+ta.AssertedType.String())
					}
				}
			})
		}
		sortStrings(bad)
		c.Check(n > 0 && len(bad) == 0, "C11.6", "the key builder's Sizes assertion matches the multi-signature types", "security/cert/cache.go",
			"every type of security/crypto with a Sizes method implements the interface the key builder asserts", join(bad))
	}
	if fn := p.Method("security/crypto", "Multi", "Participants"); fn != nil {
		k := NewKeyer(p, fn)
		ok := false
		for _, r := range returnsOf(fn) {
			v := r.Results[0]
			for i := 0; i < 4; i++ {
				switch x := v.(type) {
				case *ssa.MakeInterface:
					v = x.X
				case *ssa.ChangeType:
					v = x.X
				}
			}
			if k.Key(v) == "p0" {
				ok = true
			}
		}
		c.Check(ok, "C11.6", "Multi.Participants: the id set is the multi-signature itself", p.FuncPos(fn), "returns the receiver", "Participants() is not the receiver")
	} else {
		c.Unresolved("C11.6", "Multi.Participants", "anchor missing")
	}
}
