package main

// Loading of the repository under analysis: go/packages (type-checked syntax of the
// whole module and its dependencies), go/ssa with instantiated generics, and lookup
// helpers keyed on type-resolved objects. Nothing in the analysed repository is run.

import (
	"fmt"
	"go/token"
	"go/types"
	"os"
	"sort"
	"strings"

	"golang.org/x/tools/go/callgraph"
	"golang.org/x/tools/go/callgraph/cha"
	"golang.org/x/tools/go/callgraph/vta"
	"golang.org/x/tools/go/packages"
	"golang.org/x/tools/go/ssa"
	"golang.org/x/tools/go/ssa/ssautil"
)

const modPath = "github.com/relab/hotstuff"

// Prog is the loaded program.
type Prog struct {
	Dir    string
	GOARCH string
	Tags   string
	Fset   *token.FileSet
	Pkgs   []*packages.Package // root packages (module)
	All    map[string]*packages.Package
	SSA    *ssa.Program
	// ModFuncs are all functions (methods, closures, instantiations included) whose
	// source lives in the module, excluding internal/testutil and internal/test.
	ModFuncs []*ssa.Function
	// AllFuncs is every function in the program (for call graphs).
	AllFuncs map[*ssa.Function]bool

	cha *callgraph.Graph
	vta *callgraph.Graph
}

func inModule(path string) bool {
	return path == modPath || strings.HasPrefix(path, modPath+"/")
}

// testHelperPkg reports packages that are test helpers only (out of production scope).
func testHelperPkg(path string) bool {
	return strings.HasPrefix(path, modPath+"/internal/testutil") ||
		strings.HasPrefix(path, modPath+"/internal/test")
}

// Load loads and type-checks ./... in dir and builds SSA for everything.
func Load(dir, goarch, tags string) (*Prog, error) {
	env := os.Environ()
	env = append(env, "GOFLAGS=-mod=mod", "GOPROXY=off", "GOWORK=off")
	if goarch != "" {
		env = append(env, "GOARCH="+goarch)
	}
	var flags []string
	if tags != "" {
		flags = append(flags, "-tags="+tags)
	}
	cfg := &packages.Config{
		Mode:       packages.LoadAllSyntax,
		Dir:        dir,
		Env:        env,
		Tests:      false,
		BuildFlags: flags,
	}
	pkgs, err := packages.Load(cfg, "./...")
	if err != nil {
		return nil, fmt.Errorf("packages.Load: %w", err)
	}
	if len(pkgs) == 0 {
		return nil, fmt.Errorf("no packages loaded from %s", dir)
	}
	var errs []string
	all := map[string]*packages.Package{}
	packages.Visit(pkgs, nil, func(p *packages.Package) {
		all[p.PkgPath] = p
		for _, e := range p.Errors {
			errs = append(errs, fmt.Sprintf("%s: %v", p.PkgPath, e))
		}
	})
	if len(errs) > 0 {
		sort.Strings(errs)
		if len(errs) > 10 {
			errs = errs[:10]
		}
		return nil, fmt.Errorf("type errors in the tree under analysis:\n  %s", strings.Join(errs, "\n  "))
	}
	nmod := 0
	for _, p := range pkgs {
		if inModule(p.PkgPath) {
			nmod++
		}
	}
	if nmod < 20 {
		return nil, fmt.Errorf("only %d module packages loaded (expected the whole module)", nmod)
	}
	prog, _ := ssautil.AllPackages(pkgs, ssa.InstantiateGenerics)
	prog.Build()
	p := &Prog{Dir: dir, GOARCH: goarch, Tags: tags, Fset: pkgs[0].Fset, Pkgs: pkgs, All: all, SSA: prog}
	p.AllFuncs = ssautil.AllFunctions(prog)
	for fn := range p.AllFuncs {
		if pp := funcPkgPath(fn); inModule(pp) && !testHelperPkg(pp) && fn.Blocks != nil {
			p.ModFuncs = append(p.ModFuncs, fn)
		}
	}
	sort.Slice(p.ModFuncs, func(i, j int) bool {
		a, b := p.ModFuncs[i], p.ModFuncs[j]
		if a.String() != b.String() {
			return a.String() < b.String()
		}
		return a.Pos() < b.Pos()
	})
	return p, nil
}

// funcPkgPath returns the package path a function's source belongs to (closures and
// instantiations are attributed to the package of their origin).
func funcPkgPath(fn *ssa.Function) string {
	for f := fn; f != nil; f = f.Parent() {
		if f.Pkg != nil {
			return f.Pkg.Pkg.Path()
		}
		if o := f.Origin(); o != nil && o.Pkg != nil {
			return o.Pkg.Pkg.Path()
		}
		if f.Object() != nil && f.Object().Pkg() != nil {
			return f.Object().Pkg().Path()
		}
	}
	return ""
}

// Pkg returns the types.Package for a module-relative path ("" = root).
func (p *Prog) Pkg(rel string) *types.Package {
	path := modPath
	if rel != "" {
		path = modPath + "/" + rel
	}
	if pk := p.All[path]; pk != nil {
		return pk.Types
	}
	return nil
}

// PkgAbs returns any loaded package by full import path.
func (p *Prog) PkgAbs(path string) *types.Package {
	if pk := p.All[path]; pk != nil {
		return pk.Types
	}
	return nil
}

// Named returns the named type rel.name.
func (p *Prog) Named(rel, name string) *types.Named {
	pk := p.Pkg(rel)
	if pk == nil {
		return nil
	}
	o := pk.Scope().Lookup(name)
	if o == nil {
		return nil
	}
	n, _ := types.Unalias(o.Type()).(*types.Named)
	return n
}

// Iface returns the interface type rel.name.
func (p *Prog) Iface(rel, name string) *types.Interface {
	n := p.Named(rel, name)
	if n == nil {
		return nil
	}
	i, _ := n.Underlying().(*types.Interface)
	return i
}

// FuncObj returns a package-level function object.
func (p *Prog) FuncObj(rel, name string) *types.Func {
	pk := p.Pkg(rel)
	if pk == nil {
		return nil
	}
	f, _ := pk.Scope().Lookup(name).(*types.Func)
	return f
}

// MethodObj returns the method object of rel.typ named m (pointer or value receiver).
func (p *Prog) MethodObj(rel, typ, m string) *types.Func {
	n := p.Named(rel, typ)
	if n == nil {
		return nil
	}
	for i := 0; i < n.NumMethods(); i++ {
		if n.Method(i).Name() == m {
			return n.Method(i)
		}
	}
	return nil
}

// Func returns the SSA function for a package-level function.
func (p *Prog) Func(rel, name string) *ssa.Function {
	o := p.FuncObj(rel, name)
	if o == nil {
		return nil
	}
	return p.SSA.FuncValue(o)
}

// Method returns the SSA function for a declared method.
func (p *Prog) Method(rel, typ, m string) *ssa.Function {
	o := p.MethodObj(rel, typ, m)
	if o == nil {
		return nil
	}
	return p.SSA.FuncValue(o)
}

// Field returns the field object rel.typ.field.
func (p *Prog) Field(rel, typ, field string) *types.Var {
	n := p.Named(rel, typ)
	if n == nil {
		return nil
	}
	st, _ := n.Underlying().(*types.Struct)
	if st == nil {
		return nil
	}
	for i := 0; i < st.NumFields(); i++ {
		if st.Field(i).Name() == field {
			return st.Field(i)
		}
	}
	return nil
}

// Implementations returns the named module types (production scope unless all is set)
// whose value or pointer method set implements the interface, sorted by name.
func (p *Prog) Implementations(iface *types.Interface, all bool) []*types.Named {
	var out []*types.Named
	if iface == nil {
		return nil
	}
	for path, pk := range p.All {
		if !inModule(path) || (!all && testHelperPkg(path)) {
			continue
		}
		sc := pk.Types.Scope()
		for _, name := range sc.Names() {
			tn, ok := sc.Lookup(name).(*types.TypeName)
			if !ok || tn.IsAlias() {
				continue
			}
			n, ok := tn.Type().(*types.Named)
			if !ok || n.TypeParams().Len() > 0 {
				continue
			}
			if _, isIface := n.Underlying().(*types.Interface); isIface {
				continue
			}
			if types.Implements(n, iface) || types.Implements(types.NewPointer(n), iface) {
				out = append(out, n)
			}
		}
	}
	sort.Slice(out, func(i, j int) bool { return out[i].String() < out[j].String() })
	return out
}

// MethodOf returns the SSA function implementing method name on named type n
// (through pointer method set, so promoted methods resolve to their declaration).
func (p *Prog) MethodOf(n *types.Named, name string) *ssa.Function {
	for _, t := range []types.Type{types.NewPointer(n), n} {
		ms := p.SSA.MethodSets.MethodSet(t)
		for i := 0; i < ms.Len(); i++ {
			sel := ms.At(i)
			if sel.Obj().Name() == name {
				if f, ok := sel.Obj().(*types.Func); ok {
					if fn := p.SSA.FuncValue(f); fn != nil {
						return fn
					}
				}
			}
		}
	}
	return nil
}

// Closures returns the anonymous functions nested (at any depth) in fn, in source order.
func Closures(fn *ssa.Function) []*ssa.Function {
	var out []*ssa.Function
	var rec func(f *ssa.Function)
	rec = func(f *ssa.Function) {
		for _, a := range f.AnonFuncs {
			out = append(out, a)
			rec(a)
		}
	}
	rec(fn)
	return out
}

// CHA returns the class-hierarchy call graph of the whole program (sound for
// who-may-call: every dynamic call has an edge to every type-compatible target).
func (p *Prog) CHA() *callgraph.Graph {
	if p.cha == nil {
		p.cha = cha.CallGraph(p.SSA)
	}
	return p.cha
}

// VTA returns the variable-type-analysis call graph (more precise; thorough tier).
func (p *Prog) VTA() *callgraph.Graph {
	if p.vta == nil {
		p.vta = vta.CallGraph(p.AllFuncs, p.CHA())
	}
	return p.vta
}

// Pos formats a position relative to the repository directory.
func (p *Prog) Pos(pos token.Pos) string {
	if !pos.IsValid() {
		return "?"
	}
	ps := p.Fset.Position(pos)
	f := strings.TrimPrefix(ps.Filename, p.Dir+"/")
	return fmt.Sprintf("%s:%d", f, ps.Line)
}

// FuncPos formats the position of a function.
func (p *Prog) FuncPos(fn *ssa.Function) string {
	if fn == nil {
		return "?"
	}
	return p.Pos(fn.Pos())
}

// shortName is a stable, human-readable function name without the module prefix.
func shortName(fn *ssa.Function) string {
	if fn == nil {
		return "<nil>"
	}
	return strings.ReplaceAll(fn.String(), modPath, "hs")
}

// InstrPos returns a usable position for an instruction: its own, or that of the
// nearest operand / referrer when go/ssa gives it none (MakeInterface, Store ...).
func (p *Prog) InstrPos(in ssa.Instruction) string {
	if in.Pos().IsValid() {
		return p.Pos(in.Pos())
	}
	if v, ok := in.(ssa.Value); ok && v.Referrers() != nil {
		for _, r := range *v.Referrers() {
			if r.Pos().IsValid() {
				return p.Pos(r.Pos())
			}
		}
	}
	for _, op := range in.Operands(nil) {
		if op != nil && *op != nil && (*op).Pos().IsValid() {
			return p.Pos((*op).Pos())
		}
	}
	// fall back to the closest positioned instruction in the same block
	b := in.Block()
	for _, x := range b.Instrs {
		if x.Pos().IsValid() {
			return p.Pos(x.Pos()) + "~"
		}
	}
	return p.FuncPos(in.Parent())
}
