package main

import (
	"strings"

	"golang.org/x/tools/go/ssa"
)

// backwardSlice visits the values v depends on inside its function: operands,
// phi edges, and for locals (Alloc) every value stored into them or their elements.
// visit returns true to stop (found).
func backwardSlice(v ssa.Value, visit func(ssa.Value) bool) bool {
	return backwardSliceOpt(v, false, visit)
}

// backwardSliceOpt: with direct set, the slice does not continue through calls
// (only copies, conversions, loads, slicing, phis and locals): "the value itself".
func backwardSliceOpt(v ssa.Value, direct bool, visit func(ssa.Value) bool) bool {
	// ctx: the helper calls through whose results the slice entered the current function, innermost
	// first; a parameter reached there stands for that call's argument only (a helper shared by three
	// decoders does not mix what the three pass to it)
	type frame struct {
		call   *ssa.Call
		parent *frame
	}
	type frameKey struct {
		call   *ssa.Call
		parent *frame
	}
	frames := map[frameKey]*frame{}
	enter := func(call *ssa.Call, parent *frame) *frame {
		k := frameKey{call, parent}
		if f, ok := frames[k]; ok {
			return f
		}
		f := &frame{call, parent}
		frames[k] = f
		return f
	}
	type seenKey struct {
		v   ssa.Value
		ctx *frame
	}
	seen := map[seenKey]bool{}
	var recCtx func(v ssa.Value, depth int, ctx *frame) bool
	recCtx = func(v ssa.Value, depth int, ctx *frame) bool {
		if v == nil || seen[seenKey{v, ctx}] || depth > 60 {
			return false
		}
		seen[seenKey{v, ctx}] = true
		rec := func(v ssa.Value, depth int) bool { return recCtx(v, depth, ctx) }
		if visit(v) {
			return true
		}
		if fv, ok := v.(*ssa.FreeVar); ok {
			// a captured variable: what the enclosing function bound it to
			cl := fv.Parent()
			idx := -1
			for i, x := range cl.FreeVars {
				if x == fv {
					idx = i
				}
			}
			if outer := cl.Parent(); outer != nil && idx >= 0 {
				for _, b := range outer.Blocks {
					for _, in := range b.Instrs {
						if mc, ok := in.(*ssa.MakeClosure); ok && mc.Fn == ssa.Value(cl) && idx < len(mc.Bindings) {
							if rec(mc.Bindings[idx], depth+1) {
								return true
							}
						}
					}
				}
			}
			return false
		}
		if a, ok := v.(*ssa.Alloc); ok {
			if storedInto(a, func(x ssa.Value) bool { return rec(x, depth+1) }) {
				return true
			}
			// copy(a[:], src) fills the local from src
			return copiedInto(a, func(x ssa.Value) bool { return rec(x, depth+1) })
		}
		if mm, ok := v.(*ssa.MakeMap); ok {
			if refs := mm.Referrers(); refs != nil {
				for _, r := range *refs {
					if mu, ok := r.(*ssa.MapUpdate); ok && mu.Map == mm {
						if rec(mu.Key, depth+1) || rec(mu.Value, depth+1) {
							return true
						}
					}
				}
			}
			return false
		}
		if ms, ok := v.(*ssa.MakeSlice); ok {
			// a pre-sized slice filled by index: sl[i] = x
			if refs := ms.Referrers(); refs != nil {
				for _, r := range *refs {
					ia, ok := r.(*ssa.IndexAddr)
					if !ok || ia.X != ssa.Value(ms) || ia.Referrers() == nil {
						continue
					}
					for _, r2 := range *ia.Referrers() {
						if st, ok := r2.(*ssa.Store); ok && st.Addr == ssa.Value(ia) && rec(st.Val, depth+1) {
							return true
						}
					}
				}
			}
		}
		if nx, ok := v.(*ssa.Next); ok {
			if rg, ok := nx.Iter.(*ssa.Range); ok {
				return rec(rg.X, depth+1)
			}
		}
		if prm, isPrm := v.(*ssa.Parameter); isPrm && sliceEnterHelpers != "" && sliceProg != nil {
			// a parameter of a private helper of the package: what its callers pass
			fn := prm.Parent()
			if fn != nil && fn.Object() != nil && !fn.Object().Exported() && funcPkgPath(fn) == sliceEnterHelpers && depth < 40 {
				idx := -1
				for i, q := range fn.Params {
					if q == prm {
						idx = i
					}
				}
				if ctx != nil && idx >= 0 && ctx.call.Call.StaticCallee() == fn {
					return idx < len(ctx.call.Call.Args) && recCtx(ctx.call.Call.Args[idx], depth+1, ctx.parent)
				}
				ci := callIndexOf(sliceProg)
				if idx >= 0 && !ci.asValue[fn] {
					for _, r := range ci.callers[fn] {
						args := r.Instr.(ssa.CallInstruction).Common().Args
						if idx < len(args) && rec(args[idx], depth+1) {
							return true
						}
					}
				}
			}
			return false
		}
		in, ok := v.(ssa.Instruction)
		if !ok {
			return false
		}
		if ex, isEx := v.(*ssa.Extract); isEx && sliceEnterHelpers != "" {
			// one result of a multi-result helper: only that result
			if call, isCall := ex.Tuple.(*ssa.Call); isCall {
				if cal := call.Call.StaticCallee(); cal != nil && cal.Blocks != nil && funcPkgPath(cal) == sliceEnterHelpers && cal.Object() != nil && !cal.Object().Exported() && depth < 40 {
					for _, r := range returnsOf(cal) {
						if ex.Index < len(r.Results) && recCtx(retValue(r, ex.Index), depth+1, enter(call, ctx)) {
							return true
						}
					}
					for _, a := range call.Call.Args {
						if rec(a, depth+1) {
							return true
						}
					}
					return false
				}
			}
		}
		if call, isCall := v.(*ssa.Call); isCall && sliceEnterHelpers != "" {
			// a helper of the named package: what it returns flows to the call's result
			if cal := call.Call.StaticCallee(); cal != nil && cal.Blocks != nil && funcPkgPath(cal) == sliceEnterHelpers && cal.Object() != nil && !cal.Object().Exported() && depth < 40 {
				for _, r := range returnsOf(cal) {
					for _, res := range r.Results {
						if recCtx(res, depth+1, enter(call, ctx)) {
							return true
						}
					}
				}
			}
		}
		if call, isCall := v.(*ssa.Call); isCall && direct {
			// library conversions (decompress, timestamp conversion ...) still carry the value;
			// module calls compute derived values (hashes, lookups) and end the direct slice
			cal := call.Call.StaticCallee()
			if cal == nil || inModule(funcPkgPath(cal)) || strings.HasPrefix(cal.String(), "crypto/sha") {
				return false
			}
		}
		if _, isBin := v.(*ssa.BinOp); isBin && direct {
			return false
		}
		for _, op := range in.Operands(nil) {
			if op != nil && *op != nil {
				if rec(*op, depth+1) {
					return true
				}
			}
		}
		return false
	}
	return recCtx(v, 0, nil)
}

// storedInto visits every value stored into the local a or into its fields/elements.
func storedInto(a ssa.Value, visit func(ssa.Value) bool) bool {
	refs := a.Referrers()
	if refs == nil {
		return false
	}
	for _, r := range *refs {
		switch x := r.(type) {
		case *ssa.Store:
			if x.Addr == a && visit(x.Val) {
				return true
			}
		case *ssa.FieldAddr:
			if storedInto(x, visit) {
				return true
			}
		case *ssa.IndexAddr:
			if storedInto(x, visit) {
				return true
			}
		}
	}
	return false
}

// dependsOnCall reports whether v's backward slice contains a call satisfying pred.
func dependsOnCall(v ssa.Value, pred func(*ssa.CallCommon) bool) bool {
	return backwardSlice(v, func(x ssa.Value) bool {
		c, ok := x.(*ssa.Call)
		return ok && pred(&c.Call)
	})
}

// copiedInto visits src of every builtin copy(dst, src) whose dst is a slice of local a.
func copiedInto(a ssa.Value, visit func(ssa.Value) bool) bool {
	refs := a.Referrers()
	if refs == nil {
		return false
	}
	for _, r := range *refs {
		sl, ok := r.(*ssa.Slice)
		if !ok || sl.Referrers() == nil {
			continue
		}
		for _, r2 := range *sl.Referrers() {
			if call, ok := r2.(*ssa.Call); ok {
				if b, ok := call.Call.Value.(*ssa.Builtin); ok && b.Name() == "copy" && len(call.Call.Args) == 2 && call.Call.Args[0] == sl {
					if visit(call.Call.Args[1]) {
						return true
					}
				}
			}
		}
	}
	return false
}

// sliceEnterHelpers: when set to a package path, backward slices also enter the bodies of
// unexported functions of that package through their results (used by the wire-conversion analysis, where a
// part of an encoder or decoder may live in a helper of the conversion package).
var sliceEnterHelpers string

// sliceProg: the program, for resolving the callers of a helper (set together with sliceEnterHelpers).
var sliceProg *Prog
