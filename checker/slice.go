package main

import (
	"golang.org/x/tools/go/ssa"
)

// backwardSlice visits the values v depends on inside its function: operands,
// phi edges, and for locals (Alloc) every value stored into them or their elements.
// visit returns true to stop (found).
func backwardSlice(v ssa.Value, visit func(ssa.Value) bool) bool {
	seen := map[ssa.Value]bool{}
	var rec func(v ssa.Value, depth int) bool
	rec = func(v ssa.Value, depth int) bool {
		if v == nil || seen[v] || depth > 60 {
			return false
		}
		seen[v] = true
		if visit(v) {
			return true
		}
		if a, ok := v.(*ssa.Alloc); ok {
			return storedInto(a, func(x ssa.Value) bool { return rec(x, depth+1) })
		}
		in, ok := v.(ssa.Instruction)
		if !ok {
			return false
		}
		for _, op := range in.Operands(nil) {
			if op != nil && *op != nil {
				if rec(*op, depth+1) {
					return true
				}
			}
		}
		return false
	}
	return rec(v, 0)
}

// storedInto visits every value stored into the local a or into its fields/elements.
func storedInto(a ssa.Value, visit func(ssa.Value) bool) bool {
	refs := a.Referrers()
	if refs == nil {
		return false
	}
	for _, r := range *refs {
		switch x := r.(type) {
		case *ssa.Store:
			if x.Addr == a && visit(x.Val) {
				return true
			}
		case *ssa.FieldAddr:
			if storedInto(x, visit) {
				return true
			}
		case *ssa.IndexAddr:
			if storedInto(x, visit) {
				return true
			}
		}
	}
	return false
}

// dependsOnCall reports whether v's backward slice contains a call satisfying pred.
func dependsOnCall(v ssa.Value, pred func(*ssa.CallCommon) bool) bool {
	return backwardSlice(v, func(x ssa.Value) bool {
		c, ok := x.(*ssa.Call)
		return ok && pred(&c.Call)
	})
}
