package main

import (
	"fmt"
	"go/token"
	"go/types"
	"os"
	"sort"
	"strings"

	"golang.org/x/tools/go/ssa"
)

func init() { register("C02", checkC02) }

const (
	kQCSig   = "(hs.QuorumCert).Signature("
	kTCSig   = "(hs.TimeoutCert).Signature("
	kAggSig  = "(hs.AggregateQC).Sig("
	kPartLen = "invoke (hs.IDSet).Len(invoke (hs.QuorumSignature).Participants("
	kBaseVer = "invoke (hs/security/crypto.Base).Verify("
	kBaseBV  = "invoke (hs/security/crypto.Base).BatchVerify("
	kGenesis = "(*hs.Block).Hash(hs.GetGenesis())"
)

// certVerifier describes one of the three certificate verifiers of Authority.
type certVerifier struct {
	name, sigKey string
	errIdx       int
}

func checkC02(c *Ctx) {
	p := c.P
	c.Decided = "on every accepting path of VerifyQuorumCert / VerifyTimeoutCert / VerifyAggregateQC: the participant count of the certificate's own signature is compared with the configured quorum size with the right polarity, " +
		"the signature is verified (Base.Verify / BatchVerify) over the bytes of the referenced block / the claimed view / the per-signer reconstructed timeout messages, and a QC's claimed view equals its block's view; " +
		"every crypto.Base verifier rejects foreign signature types, unknown signers, (multi-signature schemes) empty and repeated signers, and its verdict depends on every per-signer check; " +
		"findHighestValidQC returns only a QC that passed VerifyQuorumCert, trying higher views first; signer and verifier use the same bytes-to-sign functions. With aggregate QCs enabled and an aggregate attached, VerifyAnyQC accepts only if the aggregate verified and its high QC equals the block's QC (QuorumCert.Equals answers true only for the same view, block hash and signature); the BLS verifiers accept only signatures that passed the subgroup check, which accepts only under order*point == identity."
	c.NotDec = "cryptographic soundness of ECDSA/Ed25519/BLS12-381 and of the hash; the completeness direction (honestly assembled certificates verify) beyond the writer/reader agreement of C02.8."
	c.Assume = append(c.Assume, "the three signature primitives are unforgeable and the bls12-381 library implements pairing checks correctly")
	c.Expect("C02.1", 3)
	// a verdict remembered by the verification cache is a verdict of the delegate (C11.2): otherwise a certificate
	// rejected once is accepted when it is presented again
	c.importFrom(checkC11, "C02.9", "C11.2")
	c.Expect("C02.2", 3)
	c.Expect("C02.4", 5)
	c.Expect("C02.5", 10)

	vs := []certVerifier{
		{"VerifyQuorumCert", kQCSig + "p1)", 0},
		{"VerifyTimeoutCert", kTCSig + "p1)", 0},
		{"VerifyAggregateQC", kAggSig + "p1)", 1},
	}
	for _, v := range vs {
		fn := p.Method("security/cert", "Authority", v.name)
		if fn == nil {
			c.Unresolved("C02.1", v.name, "anchor missing")
			continue
		}
		fl := NewFlow(p, fn)
		exits := successExits(fl, v.errIdx)
		if len(exits) == 0 {
			c.Unresolved("C02.1", v.name, "no accepting exit")
			continue
		}
		var noQuorum, noVerify []string
		nBoot := 0
		for _, e := range exits {
			facts := aliasHelperResults(fl, e.Facts)
			// bootstrap exemptions (stated in the code): the genesis QC and the view-0 TC
			if v.name == "VerifyQuorumCert" && hasCmp(facts, "==", is(kQCHash+"p1)"), is(kGenesis)) {
				nBoot++
				continue
			}
			if v.name == "VerifyTimeoutCert" && hasCmp(facts, "==", is(kTCView+"p1)"), is("c:0")) {
				nBoot++
				continue
			}
			// C02.1: QuorumSize() <= Participants(own signature).Len()
			if !hasCmp(facts, "<=", contains(kQuorumSize), is(kPartLen+v.sigKey+"))")) {
				noQuorum = append(noQuorum, p.Pos(e.Ret.Pos()))
			}
			// C02.2: verified over the certified content
			if !c02Verified(fl, v, e, facts) {
				noVerify = append(noVerify, p.Pos(e.Ret.Pos()))
			}
		}
		c.Check(len(noQuorum) == 0, "C02.1", v.name+": quorum threshold", p.FuncPos(fn),
			itoa(len(exits)-nBoot)+" accepting exit(s) are dominated by QuorumSize() <= signature.Participants().Len() ("+itoa(nBoot)+" bootstrap exit exempt)",
			"accepting exit(s) at "+join(noQuorum)+" reachable without the quorum comparison on the certificate's own signature")
		c.Check(len(noVerify) == 0, "C02.2", v.name+": signature over certified content", p.FuncPos(fn),
			"every non-bootstrap accepting exit is dominated by a successful Base.Verify/BatchVerify of the certificate's signature over the certified bytes",
			"accepting exit(s) at "+join(noVerify)+" reachable without verifying the signature over the certified content")
	}
	c02AggMessages(c)

	// C02.3 view binding
	checkQCViewBinding(c, "C02.3")

	// C02.4 / C02.5 / C02.6 per scheme
	c02Schemes(c)

	// C02.7 findHighestValidQC
	c02FindHighest(c)

	// C02.8 writer/reader agreement on the signed bytes
	c02SignedBytes(c)
	c02Equality(c)
	c02ByteWidths(c)
	c02SubgroupCheck(c)
}

func c02Verified(fl *Flow, v certVerifier, e SuccessExit, facts FactSet) bool {
	var want func(k string) bool
	switch v.name {
	case "VerifyQuorumCert":
		want = func(k string) bool {
			return strings.HasPrefix(k, kBaseVer) && strings.Contains(k, ", "+v.sigKey+", (*hs.Block).ToBytes("+kBCGet) &&
				strings.Contains(k, kQCHash+"p1))")
		}
	case "VerifyTimeoutCert":
		want = func(k string) bool {
			return strings.HasPrefix(k, kBaseVer) && strings.Contains(k, ", "+v.sigKey+", (hs.View).ToBytes("+kTCView+"p1))")
		}
	case "VerifyAggregateQC":
		want = func(k string) bool {
			return strings.HasPrefix(k, kBaseBV) && strings.Contains(k, ", "+v.sigKey+", ") // the batch's content is C02.2 (per-signer messages)
		}
	}
	if e.Via != nil && want(fl.K.Key(e.Via)) {
		return true
	}
	return errNilOf(facts, func(k string) bool { return want(strings.TrimSuffix(k, "#1")) })
}

// c02AggMessages: the per-signer messages given to BatchVerify are the reconstructed
// TimeoutMsg{ID: id, View: aggQC.View(), SyncInfo: with(qc)} for each (id, qc) of the AggQC.
func c02AggMessages(c *Ctx) {
	p := c.P
	fn := p.Method("security/cert", "Authority", "VerifyAggregateQC")
	if fn == nil {
		return
	}
	fl := NewFlow(p, fn)
	var bv ssa.CallInstruction
	for _, s := range callsIn(fn, false, func(cc *ssa.CallCommon) bool { return cc.IsInvoke() && cc.Method.Name() == "BatchVerify" }) {
		bv = s
	}
	if bv == nil {
		c.Violated("C02.2", "VerifyAggregateQC: per-signer messages", p.FuncPos(fn), "no BatchVerify call")
		return
	}
	msgs := bv.Common().Args[1]
	ok := false
	detail := "no map update of the message batch found"
	// the batch may be built by a private helper of the package: follow the value to where it is made
	aggKey := "p1"
	if lvs := leaves(fl, msgs, bv); len(lvs) == 1 {
		if in, isIn := lvs[0].Val.(ssa.Instruction); isIn && in.Parent() != fn && in.Parent() != nil {
			helper := in.Parent()
			for _, s := range callsIn(fn, false, func(cc *ssa.CallCommon) bool { return calleeIs(cc, helper) }) {
				for i, a := range s.Common().Args {
					if fl.K.Key(a) == "p1" {
						aggKey = "p" + itoa(i)
					}
				}
			}
			msgs, fn = lvs[0].Val, helper
			fl = NewFlow(p, helper)
		}
	}
	eachInstr(fn, func(in ssa.Instruction) {
		mu, isMU := in.(*ssa.MapUpdate)
		if !isMU {
			return
		}
		if mu.Map != msgs {
			// the map held in a named result / local of the helper
			same := false
			for _, lf := range leaves(fl, mu.Map, in) {
				if lf.Val == msgs {
					same = true
				}
			}
			if !same {
				return
			}
		}
		// value = TimeoutMsg.ToBytes(complit)
		call, isCall := mu.Value.(*ssa.Call)
		if !isCall || call.Call.StaticCallee() == nil || call.Call.StaticCallee().String() != "("+modPath+".TimeoutMsg).ToBytes" {
			detail = "batch value is not TimeoutMsg.ToBytes(...)"
			return
		}
		var a *ssa.Alloc
		if u, isU := call.Call.Args[0].(*ssa.UnOp); isU {
			a, _ = u.X.(*ssa.Alloc)
		}
		if a == nil {
			detail = "TimeoutMsg is not a composite literal"
			return
		}
		idK := fl.K.Key(complitField(a, "ID"))
		viewK := fl.K.Key(complitField(a, "View"))
		siK := fl.K.Key(complitField(a, "SyncInfo"))
		keyK := fl.K.Key(mu.Key)
		// id and qc must be key and value of the same iteration over aggQC.QCs()
		rangeOK := false
		if ex, isEx := mu.Key.(*ssa.Extract); isEx {
			if nx, isN := ex.Tuple.(*ssa.Next); isN {
				if rg, isR := nx.Iter.(*ssa.Range); isR && fl.K.Key(rg.X) == "(hs.AggregateQC).QCs("+aggKey+")" {
					rangeOK = strings.Contains(siK, fl.K.Key(nx)+"#2")
				}
			}
		}
		ok = idK == keyK && viewK == kAggView+aggKey+")" && strings.Contains(siK, "NewSyncInfoWith[hs.QuorumCert](") && rangeOK
		detail = "messages[" + keyK + "] = TimeoutMsg{ID:" + idK + ", View:" + viewK + ", SyncInfo:" + siK + "}.ToBytes()"
	})
	c.Check(ok, "C02.2", "VerifyAggregateQC: per-signer messages", p.Pos(bv.Pos()),
		"for every (id, qc) of aggQC.QCs(): messages[id] = TimeoutMsg{ID: id, View: aggQC.View(), SyncInfo: with(qc)}.ToBytes()", detail)
}

// checkQCViewBinding (C02.3 / C07.7): VerifyQuorumCert accepts only when the view the
// certificate claims is the view of the block it references (genesis: the genesis view).
func checkQCViewBinding(c *Ctx, rule string) {
	p := c.P
	fn := p.Method("security/cert", "Authority", "VerifyQuorumCert")
	if fn == nil {
		c.Unresolved(rule, "VerifyQuorumCert", "anchor missing")
		return
	}
	fl := NewFlow(p, fn)
	exits := successExits(fl, 0)
	var badGen, bad []string
	nGen, nReg := 0, 0
	for _, e := range exits {
		facts := aliasHelperResults(fl, e.Facts)
		if hasCmp(facts, "==", is(kQCHash+"p1)"), is(kGenesis)) {
			nGen++
			if !(hasCmp(facts, "==", is(kQCView+"p1)"), is("c:0")) || hasCmp(facts, "==", is(kQCView+"p1)"), is(kBlockView+"hs.GetGenesis())"))) {
				// the view test may be tied to the hash test through a shared boolean (`isGenesis && view != 0` rejected
				// first, `isGenesis` accepted next): no must-fact survives the join, but no consistent path to this exit
				// avoids the edge that establishes view == genesis view
				viewOK := func(fs []Fact) bool {
					for _, f := range fs {
						if f.Op == "==" && (f.L == kQCView+"p1)" || f.R == kQCView+"p1)") &&
							(f.L == "c:0" || f.R == "c:0" || f.L == kBlockView+"hs.GetGenesis())" || f.R == kBlockView+"hs.GetGenesis())") {
							return true
						}
					}
					return false
				}
				if feasiblePathAvoiding(fl, e.Ret, viewOK) {
					badGen = append(badGen, p.Pos(e.Ret.Pos()))
				}
			}
			continue
		}
		nReg++
		if !hasCmp(facts, "==", is(kQCView+"p1)"), func(k string) bool {
			return strings.HasPrefix(k, kBlockView+kBCGet) && strings.Contains(k, kQCHash+"p1))") && strings.HasSuffix(k, "#0)")
		}) {
			bad = append(bad, p.Pos(e.Ret.Pos()))
		}
	}
	if len(exits) == 0 {
		c.Unresolved(rule, "VerifyQuorumCert", "no accepting exit")
		return
	}
	c.Check(len(bad) == 0 && nReg > 0, rule, "VerifyQuorumCert: claimed view = block view", p.FuncPos(fn),
		"every non-genesis accepting exit is dominated by qc.View() == Get(qc.BlockHash()).View()",
		"accepting exit(s) at "+join(bad)+" reachable without comparing the certificate's claimed view with the view of the referenced block (a relabelled QC verifies)")
	c.Check(len(badGen) == 0, rule, "VerifyQuorumCert: genesis exemption bound to the genesis view", p.FuncPos(fn),
		itoa(nGen)+" genesis-hash exit(s) are dominated by qc.View() == genesis view",
		"the genesis-hash early accept at "+join(badGen)+" does not check the claimed view (an unsigned {genesis hash, view N} certificate verifies for any N)")
}

// ---- signature schemes ----

func c02Schemes(c *Ctx) {
	p := c.P
	for _, scheme := range []string{"ECDSA", "EDDSA"} {
		for _, m := range []string{"Verify", "BatchVerify"} {
			fn := p.Method("security/crypto", scheme, m)
			if fn == nil {
				c.Unresolved("C02.4", scheme+"."+m, "anchor missing")
				continue
			}
			fl := NewFlow(p, fn)
			exits := successExits(fl, 0)
			inst := scheme + "." + m
			if len(exits) == 0 {
				c.Unresolved("C02.4", inst, "no accepting exit")
				continue
			}
			// C02.5 foreign type / empty set
			var noType, noEmpty []string
			for _, e := range exits {
				facts := e.Facts
				if !trueOf(facts, func(k string) bool {
					return strings.HasPrefix(k, "assert[hs/security/crypto.Multi[") && strings.HasSuffix(k, "](p1)#1")
				}) {
					noType = append(noType, p.Pos(e.Ret.Pos()))
				}
				// the size of the signer list: Participants().Len(), len() of the asserted list, or Len() of the asserted
				// multi-signature itself (a Multi is its own participant set)
				multiLen := func(k string) bool {
					return strings.HasPrefix(k, "(hs/security/crypto.Multi[") && strings.Contains(k, "]).Len(assert[") && strings.Contains(k, "](p1)#0)")
				}
				if !(hasCmp(facts, "!=", contains(kPartLen+"p1))"), is("c:0")) || hasCmp(facts, "<", is("c:0"), contains(kPartLen+"p1))")) ||
					hasCmp(facts, "!=", func(k string) bool { return strings.HasPrefix(k, "builtin len(assert[") }, is("c:0")) ||
					hasCmp(facts, "!=", multiLen, is("c:0")) || hasCmp(facts, "<", is("c:0"), multiLen)) {
					noEmpty = append(noEmpty, p.Pos(e.Ret.Pos()))
				}
			}
			c.Check(len(noType) == 0, "C02.5/type", inst, p.FuncPos(fn), "foreign signature types are rejected (comma-ok assertion dominates every accepting exit)",
				"accepting exit at "+join(noType)+" without a successful type assertion")
			c.Check(len(noEmpty) == 0, "C02.5/empty", inst, p.FuncPos(fn), "an empty participant set is rejected on every accepting path",
				"accepting exit at "+join(noEmpty)+" reachable with zero participants")
			// C02.4 distinct signers
			verdict, detail := dupGate(c, fl, exits)
			switch verdict {
			case Held:
				c.Held("C02.4", inst+": distinct signers", p.FuncPos(fn), detail)
			case Undecided:
				c.Undecided("C02.4", inst+": distinct signers", p.FuncPos(fn), detail)
			default:
				c.Violated("C02.4", inst+": distinct signers", p.FuncPos(fn), detail)
			}
			// C02.6 verdict depends on every per-signer check
			c02AllResults(c, fl, inst, exits)
		}
		vs := p.Method("security/crypto", scheme, "verifySingle")
		if vs == nil {
			c.Unresolved("C02.5/unknown", scheme+".verifySingle", "anchor missing")
			continue
		}
		fl := NewFlow(p, vs)
		var bad, noSig []string
		for _, e := range successExits(fl, 0) {
			facts := e.Facts
			if !trueOf(facts, func(k string) bool {
				return strings.HasPrefix(k, "(*hs/core.RuntimeConfig).ReplicaInfo(") && strings.Contains(k, ".Signer(") && strings.HasSuffix(k, "#1")
			}) {
				bad = append(bad, p.Pos(e.Ret.Pos()))
			}
			if !trueOf(facts, func(k string) bool {
				return strings.HasPrefix(k, "crypto/ecdsa.VerifyASN1(") || strings.HasPrefix(k, "crypto/ed25519.Verify(")
			}) {
				noSig = append(noSig, p.Pos(e.Ret.Pos()))
			}
		}
		c.Check(len(bad) == 0, "C02.5/unknown", scheme+".verifySingle", p.FuncPos(vs), "unknown signer ids are rejected (ReplicaInfo ok dominates acceptance)",
			"accepting exit at "+join(bad)+" without a successful ReplicaInfo lookup of the signer")
		c.Check(len(noSig) == 0, "C02.5/primitive", scheme+".verifySingle", p.FuncPos(vs), "acceptance is dominated by the library verification primitive returning true",
			"accepting exit at "+join(noSig)+" without a successful library verification")
	}
	// BLS
	for _, m := range []string{"Verify", "BatchVerify"} {
		fn := p.Method("security/crypto", "bls12Base", m)
		if fn == nil {
			c.Unresolved("C02.5/type", "bls12Base."+m, "anchor missing")
			continue
		}
		fl := NewFlow(p, fn)
		var noType []string
		for _, e := range successExits(fl, 0) {
			if !trueOf(e.Facts, func(k string) bool {
				return strings.HasPrefix(k, "assert[*hs/security/crypto.BLS12AggregateSignature](p1)#1")
			}) {
				noType = append(noType, p.Pos(e.Ret.Pos()))
			}
		}
		c.Check(len(noType) == 0, "C02.5/type", "bls12Base."+m, p.FuncPos(fn), "foreign signature types are rejected", "accepting exit at "+join(noType)+" without a successful type assertion")
	}
	if pk := p.Method("security/crypto", "bls12Base", "publicKey"); pk != nil {
		fl := NewFlow(p, pk)
		var bad []string
		for _, e := range successExits(fl, 1) {
			if !trueOf(e.Facts, func(k string) bool {
				return strings.HasPrefix(k, "(*hs/core.RuntimeConfig).ReplicaInfo(") && strings.Contains(k, ", p1)") && strings.HasSuffix(k, "#1")
			}) {
				bad = append(bad, p.Pos(e.Ret.Pos()))
			}
		}
		c.Check(len(bad) == 0, "C02.5/unknown", "bls12Base.publicKey", p.FuncPos(pk), "unknown signer ids are rejected", "key returned at "+join(bad)+" without a successful ReplicaInfo lookup")
	} else {
		c.Unresolved("C02.5/unknown", "bls12Base.publicKey", "anchor missing")
	}
	// BLS participants are a Bitfield: a set by construction
	if f := p.Field("security/crypto", "BLS12AggregateSignature", "participants"); f != nil {
		bf := namedType(p, "security/crypto", "Bitfield")
		c.Check(bf != nil && types.Identical(f.Type(), bf), "C02.4", "BLS12AggregateSignature.participants: set by type", p.Pos(f.Pos()),
			"participants is a crypto.Bitfield (one bit per id; distinctness by construction, see C19.2)", "participants is not a Bitfield: "+f.Type().String())
	} else {
		c.Unresolved("C02.4", "BLS12AggregateSignature.participants", "field missing")
	}
	c02CheckPop(c)
	c02BLSKeyLookups(c)
	c.Exempt("C02.5/empty", "bls12Base.Verify", "security/crypto/bls12.go",
		"empty participant sets are not rejected by the BLS verifier itself; every certificate verifier compares Participants().Len() with QuorumSize() >= 1 first (C02.1) and single votes are checked by C09.6")
}

// dupGate decides whether every accepting exit is protected by a duplicate-signer gate.
// Recognised idioms: (1) a seen-map keyed by Signer() whose hit edge leads to rejection,
// inline or in a helper that returns true on a hit and whose false result gates the
// exits; (2) a final len(distinct-map) == len(signature) gate.
func dupGate(c *Ctx, fl *Flow, exits []SuccessExit) (Verdict, string) {
	// (1a) helper
	allHelper := true
	helperName := ""
	for _, e := range exits {
		facts := e.Facts
		found := false
		for f := range facts {
			if f.Op != "false" {
				continue
			}
			// key is a call of a module function on the asserted multi-signature
			if !strings.Contains(f.L, "(assert[hs/security/crypto.Multi[") {
				continue
			}
			for _, cand := range c.P.ModFuncs {
				if strings.HasPrefix(f.L, shortName(cand)+"(") && isDupDetector(c.P, cand) {
					found = true
					helperName = shortName(cand)
				}
			}
		}
		if !found {
			allHelper = false
		}
	}
	if allHelper && len(exits) > 0 {
		return Held, "every accepting exit is dominated by !" + helperName + "(sig), a seen-map duplicate detector keyed by Signer()"
	}
	// (1b) inline seen-map
	if ok, d := inlineSeenMap(fl); ok {
		return Held, d
	}
	// (2) len(map keyed by signer) == len(sig)
	for _, e := range exits {
		_ = e
	}
	allLen := len(exits) > 0
	for _, e := range exits {
		facts := e.Facts
		ok := hasCmp(facts, "==", func(k string) bool { return strings.HasPrefix(k, "builtin len(make@") }, func(k string) bool {
			return strings.HasPrefix(k, "builtin len(assert[") || strings.HasPrefix(k, kPartLen)
		})
		if ok {
			// the map must be keyed by Signer()
			ok = false
			eachInstr(fl.Fn, func(in ssa.Instruction) {
				if mu, isMU := in.(*ssa.MapUpdate); isMU && strings.Contains(fl.K.Key(mu.Key), ".Signer(") {
					ok = true
				}
			})
		}
		if !ok {
			allLen = false
		}
	}
	if allLen {
		return Held, "every accepting exit is dominated by len(distinct signer map) == len(signature)"
	}
	return Violated, "no duplicate-signer gate on the accepting paths: a signature that lists one signer q times has q participants and every entry verifies"
}

// isDupDetector: fn has a map M, a comma-ok lookup M[x.Signer()] whose hit edge reaches
// `return true` only, and an update M[x.Signer()].
func isDupDetector(p *Prog, fn *ssa.Function) bool {
	if fn.Signature.Results().Len() != 1 {
		return false
	}
	fl := NewFlow(p, fn)
	hit, upd := false, signerRecorded(fl)
	eachInstr(fn, func(in ssa.Instruction) {
		switch x := in.(type) {
		case *ssa.Return:
			if isBoolConst(retValue(x, 0), true) {
				if trueOf(fl.At(x), func(k string) bool { return strings.Contains(k, ".Signer(") && strings.HasSuffix(k, "]#1") }) {
					hit = true
				}
			}
		}
	})
	// it must return false only after the loop (no early false): every false return
	// must not be dominated by a hit
	return hit && upd
}

// signerRecorded: fl.Fn records an entry's Signer() as a key of a map, in place or through a
// private helper of the package (a set type's insert method) that receives it.
func signerRecorded(fl *Flow) bool {
	for _, d := range deepInstrs(fl, func(in ssa.Instruction) bool { _, ok := in.(*ssa.MapUpdate); return ok }, 0) {
		if strings.Contains(d.Key(d.Instr.(*ssa.MapUpdate).Key), ".Signer(") {
			return true
		}
	}
	return false
}

// inlineSeenMap: in fl.Fn, a comma-ok lookup seen[sig.Signer()] whose hit edge cannot
// reach an accepting exit, and a matching update.
func inlineSeenMap(fl *Flow) (bool, string) {
	upd := signerRecorded(fl)
	var hitIf []*ssa.If
	eachInstr(fl.Fn, func(in ssa.Instruction) {
		switch x := in.(type) {
		case *ssa.If:
			k := fl.K.Key(x.Cond)
			if strings.Contains(k, ".Signer(") && strings.HasSuffix(k, "]#1") {
				hitIf = append(hitIf, x)
			}
		}
	})
	if !upd || len(hitIf) == 0 {
		return false, ""
	}
	for _, iff := range hitIf {
		hitSucc := iff.Block().Succs[0]
		w := reachAvoidBlock(hitSucc, func(in ssa.Instruction) bool {
			r, ok := in.(*ssa.Return)
			if !ok {
				return false
			}
			v := retValue(r, 0)
			return !knownNonNilError(v)
		}, func(ssa.Instruction) bool { return false })
		if w != nil {
			return false, ""
		}
	}
	return true, "inline seen-map keyed by Signer(): the hit edge reaches only rejecting exits"
}

// c02AllResults: the accepting exit's nil-test is on a value that accumulates a
// receive from the channel every spawned verifier sends its verifySingle result to,
// and spawn and collect loops range over the same signature.
func c02AllResults(c *Ctx, fl *Flow, inst string, exits []SuccessExit) {
	p := c.P
	fn := fl.Fn
	// spawned closures
	nGo, nSend := 0, 0
	eachInstr(fn, func(in ssa.Instruction) {
		g, ok := in.(*ssa.Go)
		if !ok {
			return
		}
		nGo++
		cl := funcOfValue(g.Call.Value)
		if cl == nil {
			cl = g.Call.StaticCallee() // `go x.verifyAsync(...)`: a named method instead of a closure
		}
		if cl == nil {
			return
		}
		eachInstr(cl, func(in2 ssa.Instruction) {
			if s, ok := in2.(*ssa.Send); ok {
				if call, ok := s.X.(*ssa.Call); ok && call.Call.StaticCallee() != nil && call.Call.StaticCallee().Name() == "verifySingle" {
					nSend++
				}
			}
		})
	})
	// the tested error
	dep := false
	// the results may be collected by a private helper of the package
	sliceEnterHelpers, sliceProg = funcPkgPath(fn), p
	defer func() { sliceEnterHelpers, sliceProg = "", nil }()
	for _, f := range collectNilTests(fl, exits) {
		if backwardSlice(f, func(x ssa.Value) bool {
			u, ok := x.(*ssa.UnOp)
			return ok && u.Op == token.ARROW
		}) {
			dep = true
		}
	}
	// loops: number of receives equals number of spawns: both loops bounded by len of the same value
	lens := map[string]int{}
	eachInstr(fn, func(in ssa.Instruction) {
		if call, ok := in.(*ssa.Call); ok {
			if b, ok := call.Call.Value.(*ssa.Builtin); ok && b.Name() == "len" {
				k := fl.K.Key(call.Call.Args[0])
				if strings.HasPrefix(k, "assert[") {
					lens[k]++
				}
			}
		}
	})
	sameLoops := false
	for _, n := range lens {
		if n >= 2 {
			sameLoops = true
		}
	}
	ok := nGo >= 1 && nSend == nGo && dep && sameLoops
	c.Check(ok, "C02.6", inst+": verdict covers every signer", p.FuncPos(fn),
		"each spawned verifier sends its verifySingle result; the accepting exit tests an error accumulated from those receives; spawn and collect loops range over the same signature",
		"go="+itoa(nGo)+" sends-of-verifySingle="+itoa(nSend)+" accepted-error-depends-on-receive="+boolStr(dep)+" same-range="+boolStr(sameLoops))
}

func boolStr(b bool) string {
	if b {
		return "true"
	}
	return "false"
}

// collectNilTests returns the values X for which "X == nil" is a must-fact at the exits.
func collectNilTests(fl *Flow, exits []SuccessExit) []ssa.Value {
	var out []ssa.Value
	for _, e := range exits {
		facts := e.Facts
		// `return err`: the caller's nil test is the test
		if n := len(e.Ret.Results); n > 0 {
			if v := retValue(e.Ret, n-1); !isNilConst(v) && v.Type().String() == "error" {
				out = append(out, v)
			}
		}
		eachInstr(fl.Fn, func(in ssa.Instruction) {
			b, ok := in.(*ssa.BinOp)
			if !ok || (b.Op != token.NEQ && b.Op != token.EQL) {
				return
			}
			if !isNilConst(b.Y) {
				return
			}
			if facts[eqFact(fl.K.Key(b.X), "nil")] {
				out = append(out, b.X)
			}
		})
	}
	return out
}

func c02FindHighest(c *Ctx) {
	p := c.P
	// the selection of the highest valid QC: the function, among VerifyAggregateQC and the helpers of its
	// package it calls, that sorts the candidates (today the helper findHighestValidQC)
	var fn *ssa.Function
	if vagg := p.Method("security/cert", "Authority", "VerifyAggregateQC"); vagg != nil {
		for _, hf := range helperClosure(p, vagg, 2) {
			if len(callsIn(hf, false, func(cc *ssa.CallCommon) bool {
				cal := cc.StaticCallee()
				return cal != nil && (strings.HasPrefix(cal.String(), "slices.SortFunc") || strings.HasPrefix(cal.String(), "slices.SortStableFunc") || strings.HasPrefix(cal.String(), "sort.Slice"))
			})) > 0 {
				fn = hf
				break
			}
		}
	}
	if fn == nil {
		c.Unresolved("C02.7", "findHighestValidQC", "anchor missing: no function reachable from VerifyAggregateQC sorts the candidate certificates")
		return
	}
	fl := NewFlow(p, fn)
	var bad []string
	exits := successExits(fl, 1)
	// the "first valid candidate" may be found with slices.IndexFunc(candidates, valid): the element at the index it
	// returns satisfies the predicate, every earlier element does not, and the scan is in slice order
	var ixCall *ssa.Call
	var ixTrue []Fact
	ixFalseRejects := false
	eachInstr(fn, func(in ssa.Instruction) {
		call, ok := in.(*ssa.Call)
		if !ok || call.Call.StaticCallee() == nil || !strings.HasPrefix(call.Call.StaticCallee().String(), "slices.IndexFunc") || len(call.Call.Args) != 2 {
			return
		}
		pf, okP := predicateFacts(fl, call.Call.Args[1])
		cl, _ := resolveClosure(fl, call.Call.Args[1])
		if !okP || cl == nil {
			return
		}
		ixCall, ixTrue = call, pf
		// every way the predicate answers false says that VerifyQuorumCert rejected the element
		pfl := NewFlow(p, cl)
		ixFalseRejects = true
		for _, r := range returnsOf(cl) {
			if !pfl.Reachable(r.Block()) || isBoolConst(retValue(r, 0), true) {
				continue
			}
			fs := pfl.At(r).clone()
			if !isBoolConst(retValue(r, 0), false) {
				var extra []Fact
				pfl.decompose(retValue(r, 0), false, &extra)
				for _, f := range extra {
					fs[f] = true
				}
			}
			if !notNilOf(fs, func(x string) bool { return strings.HasPrefix(x, kVerifyQC) && strings.Contains(x, ", p0)") }) {
				ixFalseRejects = false
			}
		}
	})
	for _, e := range exits {
		for _, lf := range leaves(fl, retValue(e.Ret, 0), e.Ret) {
			k := lf.KeyIn(fl)
			if ixCall != nil && k == fl.K.Key(ixCall.Call.Args[0])+"["+fl.K.Key(ixCall)+"]" {
				// candidates[IndexFunc(candidates, valid)] under a non-negative index
				found := hasCmp(lf.Facts, "<=", is("c:0"), is(fl.K.Key(ixCall))) || hasCmp(e.Facts, "<=", is("c:0"), is(fl.K.Key(ixCall)))
				verified := false
				for _, f := range ixTrue {
					if f.Op == "==" && oneIsNil(f) && strings.HasPrefix(nonNil(f), kVerifyQC) && strings.Contains(nonNil(f), ", elem)") {
						verified = true
					}
				}
				if found && verified {
					continue
				}
			}
			if !errNilOf(lf.Facts, func(x string) bool { return strings.HasPrefix(x, kVerifyQC) && strings.Contains(x, ", "+k+")") }) {
				bad = append(bad, k+" at "+p.Pos(e.Ret.Pos()))
			}
		}
	}
	c.Check(len(bad) == 0 && len(exits) > 0, "C02.7/valid", "findHighestValidQC", p.FuncPos(fn),
		"the returned QC passed VerifyQuorumCert on the returning path", "returned QC not verified: "+join(bad))
	// comparator sorts by descending view, and the loop ranges over the sorted slice
	okCmp := false
	detail := "no slices.SortFunc comparator found"
	var sorted string
	eachInstr(fn, func(in ssa.Instruction) {
		call, ok := in.(*ssa.Call)
		if !ok || call.Call.StaticCallee() == nil || !(strings.HasPrefix(call.Call.StaticCallee().String(), "slices.SortFunc") || strings.HasPrefix(call.Call.StaticCallee().String(), "slices.SortStableFunc")) {
			return
		}
		sorted = fl.K.Key(call.Call.Args[0])
		cmp := funcOfValue(call.Call.Args[1])
		if cmp == nil {
			return
		}
		fc := NewFlow(p, cmp)
		for _, r := range returnsOf(cmp) {
			k := fc.K.Key(r.Results[0])
			detail = "comparator returns " + k
			if k == "("+kQCView+"p1) - "+kQCView+"p0))" || strings.HasPrefix(k, "cmp.Compare[hs.View]("+kQCView+"p1), "+kQCView+"p0))") {
				okCmp = true
			}
		}
	})
	// the range must be over the same slice and the first valid one is returned
	rangeOK := false
	eachInstr(fn, func(in ssa.Instruction) {
		if ia, ok := in.(*ssa.IndexAddr); ok && fl.K.Key(ia.X) == sorted {
			rangeOK = true
		}
	})
	c.Check(okCmp && rangeOK, "C02.7/order", "findHighestValidQC", p.FuncPos(fn),
		"candidates are sorted by descending view (comparator b.View()-a.View()) and scanned in that order, so the first valid one is the highest valid one",
		detail+"; ranges over sorted slice: "+boolStr(rangeOK))
	// a candidate is passed over only because it did not verify: no path from the point where a candidate
	// is taken from the sorted slice to the next iteration avoids the edge VerifyQuorumCert(candidate) != nil
	{
		var open []string
		n := 0
		eachInstr(fn, func(in ssa.Instruction) {
			ia, ok := in.(*ssa.IndexAddr)
			if !ok || fl.K.Key(ia.X) != sorted || !inLoop(ia.Block()) {
				return
			}
			n++
			cand := strings.TrimPrefix(fl.K.Key(ia), "&")
			closes := func(fs []Fact) bool {
				for _, f := range fs {
					if f.Op == "!=" && oneIsNil(f) && strings.HasPrefix(nonNil(f), kVerifyQC) && strings.Contains(nonNil(f), ", "+cand+")") {
						return true
					}
				}
				return false
			}
			start := ia.Block()
			seen := map[*ssa.BasicBlock]bool{}
			work := []*ssa.BasicBlock{start}
			for len(work) > 0 {
				b := work[0]
				work = work[1:]
				for _, s := range b.Succs {
					if edgeBlocked(fl, b, s, closes, 0) {
						continue
					}
					if s == start {
						open = append(open, p.Pos(ia.Pos()))
						work = nil
						break
					}
					if !seen[s] {
						seen[s] = true
						work = append(work, s)
					}
				}
			}
		})
		if n == 0 && ixCall != nil && fl.K.Key(ixCall.Call.Args[0]) == sorted && ixFalseRejects {
			n = 1 // the library scan passes over exactly the elements for which the predicate said "rejected"
		}
		c.Check(n > 0 && len(open) == 0, "C02.7/complete", "findHighestValidQC", p.FuncPos(fn),
			"the scan moves on to the next candidate only after VerifyQuorumCert rejected the current one",
			"a candidate can be passed over without having been rejected by VerifyQuorumCert (loop at "+join(open)+"): a valid certificate with the highest view is skipped and a lower one is reported")
	}
	// VerifyAnyQC: the block's QC must equal the aggregate's high QC and is itself verified
	va := p.Method("security/cert", "Authority", "VerifyAnyQC")
	if va != nil {
		fa := NewFlow(p, va)
		var bad []string
		for _, e := range successExits(fa, 0) {
			viaOK := e.Via != nil && strings.HasPrefix(fa.K.Key(e.Via), kVerifyQC) && strings.Contains(fa.K.Key(e.Via), kBlockQC+"p1"+kPropBlock+"))")
			if !viaOK && !errNilOf(e.Facts, func(k string) bool {
				return strings.HasPrefix(k, kVerifyQC) && strings.Contains(k, kBlockQC+"p1"+kPropBlock+"))")
			}) {
				bad = append(bad, p.Pos(e.Ret.Pos()))
			}
		}
		c.Check(len(bad) == 0, "C02.7/anyqc", "VerifyAnyQC", p.FuncPos(va),
			"every accepting exit verifies the block's own QC", "accepting exit at "+join(bad)+" without VerifyQuorumCert(block.QuorumCert())")
		// with aggregate QCs enabled and an aggregate attached, the proposal is accepted only if the aggregate verifies and
		// its high QC is the block's QC: every path to an accepting exit crosses "aggregates disabled", "no aggregate",
		// or both "VerifyAggregateQC == nil" and "qc.Equals(highQC)"
		noAgg := func(f Fact) bool {
			return f.Op == "false" && strings.HasPrefix(f.L, "(*hs/core.RuntimeConfig).HasAggregateQC(") ||
				f.Op == "==" && oneIsNil(f) && strings.HasSuffix(nonNil(f), "hs.ProposeMsg.AggregateQC")
		}
		for _, want := range []struct {
			what string
			ok   func(Fact) bool
		}{
			{"the aggregate QC is verified", func(f Fact) bool {
				return f.Op == "==" && oneIsNil(f) && strings.HasPrefix(nonNil(f), "(*hs/security/cert.Authority).VerifyAggregateQC(") && strings.HasSuffix(nonNil(f), "#1")
			}},
			{"the block's QC equals the aggregate's high QC", func(f Fact) bool {
				return f.Op == "true" && strings.HasPrefix(f.L, "(hs.QuorumCert).Equals(")
			}},
		} {
			closes := func(fs []Fact) bool {
				for _, f := range fs {
					if noAgg(f) || want.ok(f) {
						return true
					}
				}
				return false
			}
			var open []string
			for _, e := range successExits(fa, 0) {
				if w := openPathTo(fa, e.Ret, closes); w != "" {
					open = append(open, p.Pos(e.Ret.Pos()))
				}
			}
			if want.what == "the block's QC equals the aggregate's high QC" {
				// and the other way round: a proposal with an aggregate is refused on the comparison only when it failed
				// (errors of the verifications themselves are passed on as they are)
				var wrong []string
				for _, hf := range helperClosure(p, va, 1) {
					if hf != va && (hf.Object() == nil || hf.Object().Exported() || !p.ownedByAny(hf, []string{shortName(va)})) {
						continue // the verifiers it calls have rules of their own
					}
					hfl := NewFlow(p, hf)
					for _, r := range returnsOf(hf) {
						if !hfl.Reachable(r.Block()) || len(r.Results) == 0 {
							continue
						}
						v := retValue(r, len(r.Results)-1)
						call, isCall := v.(*ssa.Call)
						if !isCall || call.Call.StaticCallee() == nil || inModule(funcPkgPath(call.Call.StaticCallee())) || !knownNonNilError(v) {
							continue // not an error made up here
						}
						notEq := func(f Fact) bool { return f.Op == "false" && strings.HasPrefix(f.L, "(hs.QuorumCert).Equals(") }
						ok := branchDominates(hfl, r, notEq)
						for f := range hfl.At(r) {
							if notEq(f) {
								ok = true
							}
						}
						if !ok {
							wrong = append(wrong, p.Pos(r.Pos()))
						}
					}
				}
				c.Check(len(wrong) == 0, "C02.7/aggqc", "VerifyAnyQC: refuses on the comparison only when it failed", p.FuncPos(va),
					"an error created in VerifyAnyQC (or its private helper) is returned only under !qc.Equals(highQC)",
					"a proposal is refused at "+join(wrong)+" although the comparison did not fail: with aggregate QCs no proposal is ever accepted")
			}
			c.Check(len(open) == 0, "C02.7/aggqc", "VerifyAnyQC: "+want.what, p.FuncPos(va),
				"no accepting exit is reachable with aggregate QCs enabled and an aggregate attached unless "+want.what,
				"accepting exit at "+join(open)+" reachable with an attached aggregate QC although not "+want.what+": a leader can justify its proposal with a stale QC (Fast-HotStuff's vote rule trusts the aggregate's high QC)")
		}
	}
}

// c02ByteWidths (C02.8/width): the bytes that get signed carry their integers in full: no ToBytes function of the
// protocol types narrows a 64-bit quantity (a view) before writing it, so two values that differ only in the high
// bits never sign alike.
func c02ByteWidths(c *Ctx) {
	p := c.P
	n := 0
	var bad []string
	for _, fn := range p.ModFuncs {
		if fn.Name() != "ToBytes" || funcPkgPath(fn) != modPath || fn.Blocks == nil || strings.HasSuffix(p.FuncPos(fn), "_test.go") {
			continue
		}
		n++
		eachInstr(fn, func(in ssa.Instruction) {
			cv, ok := in.(*ssa.Convert)
			if !ok {
				return
			}
			src, ok1 := cv.X.Type().Underlying().(*types.Basic)
			dst, ok2 := cv.Type().Underlying().(*types.Basic)
			if !ok1 || !ok2 || src.Info()&types.IsInteger == 0 || dst.Info()&types.IsInteger == 0 {
				return
			}
			size := func(b *types.Basic) int64 { return types.SizesFor("gc", "amd64").Sizeof(b) }
			if size(dst) < size(src) {
				bad = append(bad, p.InstrPos(in)+": "+src.Name()+" narrowed to "+dst.Name())
			}
		})
		// a fixed-size buffer is filled by a write of its own width
		eachInstr(fn, func(in ssa.Instruction) {
			call, ok := in.(*ssa.Call)
			if !ok || call.Call.StaticCallee() == nil || !strings.Contains(call.Call.StaticCallee().String(), "encoding/binary.") || !strings.HasPrefix(call.Call.StaticCallee().Name(), "PutUint") || len(call.Call.Args) < 2 {
				return
			}
			bits := strings.TrimPrefix(call.Call.StaticCallee().Name(), "PutUint")
			if sl, ok := call.Call.Args[1].(*ssa.Slice); ok {
				if a, ok := sl.X.(*ssa.Alloc); ok {
					if arr, ok := a.Type().Underlying().(*types.Pointer).Elem().Underlying().(*types.Array); ok {
						if itoa(int(arr.Len()*8)) != bits {
							bad = append(bad, p.InstrPos(in)+": a "+itoa(int(arr.Len()))+"-byte buffer is filled with PutUint"+bits)
						}
					}
				}
			}
		})
	}
	c.Check(n > 0 && len(bad) == 0, "C02.8/width", "ToBytes of the protocol types: integers are written in full", "types.go",
		itoa(n)+" ToBytes functions: no integer is narrowed, every fixed buffer is filled by a write of its own width", join(bad))
}

// c02Equality (C02.7/equals): QuorumCert.Equals, which ties a block's QC to the high QC of an aggregate, answers true only
// for certificates with the same view, the same block hash and the same signature (bytes, or both absent).
func c02Equality(c *Ctx) {
	p := c.P
	eq := p.Method("", "QuorumCert", "Equals")
	if eq == nil {
		c.Unresolved("C02.7/equals", "QuorumCert.Equals", "anchor missing")
		return
	}
	fl := NewFlow(p, eq)
	ways := trueEdges(fl)
	var bad []string
	side := func(prm, field string) func(string) bool {
		return func(k string) bool { return strings.HasPrefix(k, prm) && strings.HasSuffix(k, "hs.QuorumCert."+field) }
	}
	both := func(w FactSet, field string) bool {
		return hasCmp(w, "==", side("p0", field), side("p1", field))
	}
	for _, w := range ways {
		if !both(w, "view") {
			bad = append(bad, "a true answer without view == view")
		}
		if !both(w, "hash") {
			bad = append(bad, "a true answer without hash == hash")
		}
		sigOK := both(w, "signature") || trueOf(w, func(k string) bool {
			return strings.HasPrefix(k, "bytes.Equal(") && strings.Contains(k, "p0.hs.QuorumCert.signature") && strings.Contains(k, "p1.hs.QuorumCert.signature")
		})
		if !sigOK {
			// the comparison of the two signatures may be a private predicate of the package: every way it answers true
			// compares its two parameters' bytes, or finds them identical (both absent)
			for _, cs := range callsIn(eq, false, func(cc *ssa.CallCommon) bool {
				cal := cc.StaticCallee()
				return cal != nil && cal.Blocks != nil && funcPkgPath(cal) == funcPkgPath(eq) && len(cc.Args) == 2
			}) {
				call, isCall := cs.(*ssa.Call)
				if !isCall || !trueOf(w, is(fl.K.Key(call))) {
					continue
				}
				a0, a1 := fl.K.Key(call.Call.Args[0]), fl.K.Key(call.Call.Args[1])
				if !(strings.HasSuffix(a0, "QuorumCert.signature") && strings.HasSuffix(a1, "QuorumCert.signature") && a0 != a1) {
					continue
				}
				hfl := NewFlow(p, call.Call.StaticCallee())
				hw := trueEdges(hfl)
				okH := len(hw) > 0
				for _, x := range hw {
					if !(hasCmp(x, "==", is("p0"), is("p1")) || trueOf(x, func(k string) bool {
						return strings.HasPrefix(k, "bytes.Equal(") && strings.Contains(k, "ToBytes(p0)") && strings.Contains(k, "ToBytes(p1)")
					})) {
						okH = false
					}
				}
				sigOK = sigOK || okH
			}
		}
		if !sigOK {
			bad = append(bad, "a true answer without comparing the signatures")
		}
	}
	c.Check(len(ways) > 0 && len(bad) == 0, "C02.7/equals", "QuorumCert.Equals: same view, same block, same signature", p.FuncPos(eq),
		"true only under view == view, hash == hash and equal signature bytes (or both signatures absent)", join(bad))
}

// c02SubgroupCheck (C02.6/subgroup): the BLS subgroup test accepts a point only if multiplying it by the curve order
// gives the identity, and the verifiers reject what it rejects.
func c02SubgroupCheck(c *Ctx) {
	p := c.P
	sc := p.Method("security/crypto", "bls12Base", "subgroupCheck")
	if sc == nil {
		c.Exempt("C02.6/subgroup", "bls12Base.subgroupCheck", "-", "the helper does not exist on this tree")
		return
	}
	fl := NewFlow(p, sc)
	var bad []string
	exits := successExits(fl, 0)
	for _, e := range exits {
		if !trueOf(e.Facts, func(k string) bool { return strings.Contains(k, ".IsZero(") }) && !branchDominates(fl, e.Ret, func(f Fact) bool { return f.Op == "true" && strings.Contains(f.L, ".IsZero(") }) {
			bad = append(bad, p.Pos(e.Ret.Pos()))
		}
	}
	c.Check(len(exits) > 0 && len(bad) == 0, "C02.6/subgroup", "bls12Base.subgroupCheck: accepts only points of the prime-order subgroup", p.FuncPos(sc),
		"nil is returned only when order*point is the identity (IsZero)", "accepting exit at "+join(bad)+" without the IsZero test: signatures outside the subgroup are accepted")
	// the verifiers fail when the check fails
	n := 0
	for _, name := range []string{"coreVerify", "coreAggregateVerify"} {
		fn := p.Method("security/crypto", "bls12Base", name)
		if fn == nil {
			continue
		}
		ffl := NewFlow(p, fn)
		var open []string
		for _, e := range successExits(ffl, 0) {
			n++
			if !errNilOf(e.Facts, func(k string) bool { return strings.HasPrefix(k, shortName(sc)+"(") }) &&
				!branchDominates(ffl, e.Ret, func(f Fact) bool {
					return f.Op == "==" && oneIsNil(f) && strings.HasPrefix(nonNil(f), shortName(sc)+"(")
				}) {
				open = append(open, p.Pos(e.Ret.Pos()))
			}
		}
		c.Check(len(open) == 0, "C02.6/subgroup", "bls12Base."+name+": the signature passed the subgroup check", p.FuncPos(fn),
			"every accepting exit is under subgroupCheck(signature) == nil", "accepting exit at "+join(open)+" without a successful subgroup check")
	}
	if n == 0 {
		c.Unresolved("C02.6/subgroup", "bls12Base.coreVerify", "no verifier with an accepting exit found")
	}
}

// c02SignedBytes: signer and verifier agree on the bytes-to-sign functions (C02.8).
func c02SignedBytes(c *Ctx) {
	p := c.P
	type pair struct {
		what           string
		signer         *ssa.Function
		signCallee     string
		verifier       *ssa.Function
		verifyArgWants string
	}
	ps := []pair{
		{"vote/QC: Block.ToBytes", p.Method("security/cert", "Authority", "CreatePartialCert"), "(*hs.Block).ToBytes(p1)", p.Method("security/cert", "Authority", "VerifyQuorumCert"), "(*hs.Block).ToBytes("},
		{"vote/partial: Block.ToBytes", p.Method("security/cert", "Authority", "CreatePartialCert"), "(*hs.Block).ToBytes(p1)", p.Method("security/cert", "Authority", "VerifyPartialCert"), "(*hs.Block).ToBytes("},
		{"timeout/TC (simple): View.ToBytes", p.Method("protocol/synchronizer", "Simple", "LocalTimeoutRule"), "(hs.View).ToBytes(p1)", p.Method("security/cert", "Authority", "VerifyTimeoutCert"), "(hs.View).ToBytes("},
		{"timeout/TC (aggregate): View.ToBytes", p.Method("protocol/synchronizer", "Aggregate", "LocalTimeoutRule"), "(hs.View).ToBytes(p1)", p.Method("security/cert", "Authority", "VerifyTimeoutCert"), "(hs.View).ToBytes("},
	}
	for _, pr := range ps {
		if pr.signer == nil || pr.verifier == nil {
			c.Unresolved("C02.8", pr.what, "anchor missing")
			continue
		}
		fs := NewFlow(p, pr.signer)
		signOK := false
		// (the Sign / Verify call may sit in a private helper of the package: keys in the anchored function's terms)
		for _, ds := range deepSites(fs, func(cc *ssa.CallCommon) bool { return cc.IsInvoke() && cc.Method.Name() == "Sign" }, 0) {
			if len(ds.Args) > 0 && strings.HasPrefix(ds.Args[0], pr.signCallee) {
				signOK = true
			}
		}
		fv := NewFlow(p, pr.verifier)
		verOK := false
		for _, ds := range deepSites(fv, func(cc *ssa.CallCommon) bool { return cc.IsInvoke() && cc.Method.Name() == "Verify" }, 0) {
			if len(ds.Args) > 1 && strings.HasPrefix(ds.Args[1], pr.verifyArgWants) {
				verOK = true
			}
		}
		c.Check(signOK && verOK, "C02.8", pr.what, p.FuncPos(pr.signer),
			"signer signs and verifier verifies the output of the same bytes-to-sign function", "signer uses expected function: "+boolStr(signOK)+", verifier: "+boolStr(verOK))
	}
	// aggregate QC: the fields TimeoutMsg.ToBytes reads are exactly those VerifyAggregateQC reconstructs
	tb := p.Method("", "TimeoutMsg", "ToBytes")
	va := p.Method("security/cert", "Authority", "VerifyAggregateQC")
	if tb == nil || va == nil {
		c.Unresolved("C02.8", "TimeoutMsg.ToBytes vs VerifyAggregateQC", "anchor missing")
		return
	}
	read := fieldsRead(tb, namedType(p, "", "TimeoutMsg"))
	set := map[string]bool{}
	vaFns := map[*ssa.Function]bool{}
	for _, hf := range helperClosure(p, va, 2) {
		vaFns[hf] = true
	}
	for _, e := range p.constructSites(namedType(p, "", "TimeoutMsg")) {
		if vaFns[e.Fn] && e.Alloc != nil {
			for _, f := range []string{"ID", "View", "ViewSignature", "MsgSignature", "SyncInfo"} {
				if complitField(e.Alloc, f) != nil {
					set[f] = true
				}
			}
		}
	}
	var missing []string
	for f := range read {
		if !set[f] {
			missing = append(missing, f)
		}
	}
	sortStrings(missing)
	c.Check(len(missing) == 0 && len(read) > 0, "C02.8", "TimeoutMsg.ToBytes fields ⊆ fields reconstructed by VerifyAggregateQC", p.FuncPos(va),
		"ToBytes reads {"+join(keysOf(read))+"}, the verifier sets {"+join(keysOf(set))+"}", "fields read by ToBytes but not reconstructed: "+join(missing))
	// the aggregate signer signs TimeoutMsg.ToBytes of the message it sends
	agg := p.Method("protocol/synchronizer", "Aggregate", "LocalTimeoutRule")
	if agg != nil {
		fa := NewFlow(p, agg)
		ok := false
		for _, s := range callsIn(agg, false, func(cc *ssa.CallCommon) bool { return cc.IsInvoke() && cc.Method.Name() == "Sign" }) {
			if strings.HasPrefix(fa.K.Key(s.Common().Args[0]), "(hs.TimeoutMsg).ToBytes(") {
				ok = true
			}
		}
		c.Check(ok, "C02.8", "timeout/AggQC: TimeoutMsg.ToBytes", p.FuncPos(agg), "the message signature signs TimeoutMsg.ToBytes()", "no Sign(TimeoutMsg.ToBytes()) in Aggregate.LocalTimeoutRule")
	}
}

func keysOf(m map[string]bool) []string {
	var out []string
	for k := range m {
		out = append(out, k)
	}
	sortStrings(out)
	return out
}

// fieldsRead returns the names of the fields of struct type T that fn reads
// (Field / FieldAddr-load on a value of type T or *T), not following calls.
func fieldsRead(fn *ssa.Function, T types.Type) map[string]bool {
	out := map[string]bool{}
	if T == nil {
		return out
	}
	isT := func(t types.Type) bool {
		if pt, ok := t.Underlying().(*types.Pointer); ok {
			t = pt.Elem()
		}
		return types.Identical(t, T)
	}
	eachInstr(fn, func(in ssa.Instruction) {
		switch x := in.(type) {
		case *ssa.Field:
			if isT(x.X.Type()) {
				out[fieldVar(x.X.Type(), x.Field).Name()] = true
			}
		case *ssa.FieldAddr:
			if isT(x.X.Type()) {
				// count as read unless only stored to
				for _, r := range *x.Referrers() {
					if st, ok := r.(*ssa.Store); ok && st.Addr == x {
						continue
					}
					out[fieldVar(x.X.Type(), x.Field).Name()] = true
				}
			}
		}
	})
	return out
}

// c02CheckPop: the BLS proof-of-possession check (the defence against rogue-key aggregates): a replica's key is
// accepted only after its proof verified for that key, the verdict cache is keyed by proof AND key, a cached verdict
// is used only if it was positive, and what is cached is the verdict of popVerify.
func c02CheckPop(c *Ctx) {
	p := c.P
	fn := p.Method("security/crypto", "bls12Base", "checkPop")
	pv := p.Method("security/crypto", "bls12Base", "popVerify")
	if pv == nil {
		pv = p.Func("security/crypto", "popVerify") // the verification does not need the receiver: may be a function
	}
	pvKey := ""
	if pv != nil {
		pvKey = shortName(pv) + "("
	}
	if fn == nil || pv == nil {
		c.Unresolved("C02.5/pop", "bls12Base.checkPop", "anchor missing")
		return
	}
	fl := NewFlow(p, fn)
	ic := newIncorp(p, fn)
	// accepting exits
	var bad []string
	exits := successExits(fl, 0)
	for _, e := range exits {
		facts := e.Facts
		// (the map may be a field of bls12Base or of a small cache type held in that field, read through a helper)
		isCacheRead := func(k, suffix string) bool {
			return strings.Contains(k, "bls12Base.popCache") && strings.Contains(k, "[") && strings.HasSuffix(k, suffix)
		}
		// (a true value read from a map[string]bool implies that the entry is present)
		hit := trueOf(facts, func(k string) bool { return isCacheRead(k, "#0") })
		verified := (e.Via != nil && calleeIs(&e.Via.Call, pv)) || errNilOf(facts, func(k string) bool { return strings.HasPrefix(k, pvKey) })
		// `return err` where err is popVerify's result
		if !verified {
			if call, ok := retValue(e.Ret, 0).(*ssa.Call); ok && calleeIs(&call.Call, pv) {
				verified = true
			}
		}
		if !hit && !verified {
			bad = append(bad, p.Pos(e.Ret.Pos()))
		}
	}
	c.Check(len(bad) == 0 && len(exits) > 0, "C02.5/pop", "bls12Base.checkPop: accepted only on a positive cached verdict or a successful popVerify", p.FuncPos(fn),
		"every accepting exit is a cache hit with a true verdict, or returns popVerify's own verdict", "accepting exit at "+join(bad)+" without a positive verdict for this proof and key (a failed or never-checked proof is accepted)")
	// cache key incorporates proof and key; popVerify is called with the replica's own key and the decoded proof
	okKey, okVal, okArgs := true, false, false
	nKeys := 0
	// look-ups and updates of the verdict map, in checkPop or in the methods of a small cache type it calls; a key or
	// value that is the helper's parameter is judged by the argument checkPop passes
	inRoot := func(d DeepInstr, v ssa.Value) ssa.Value {
		if d.In == fn {
			return v
		}
		prm, isPrm := v.(*ssa.Parameter)
		if !isPrm || len(d.Path) != 1 {
			return nil
		}
		for i, q := range d.In.Params {
			if q == prm && i < len(d.Path[0].Common().Args) {
				return d.Path[0].Common().Args[i]
			}
		}
		return nil
	}
	keyOK := func(v ssa.Value) bool {
		if v == nil {
			return false
		}
		d := ic.deps(v)
		return hasDepContaining(d, "Metadata") && (hasDepContaining(d, "PubKey") || hasDepContaining(d, "BLS12PublicKey"))
	}
	for _, d := range deepInstrs(fl, func(in ssa.Instruction) bool {
		switch in.(type) {
		case *ssa.Lookup, *ssa.MapUpdate:
			return true
		}
		return false
	}, 0) {
		switch x := d.Instr.(type) {
		case *ssa.Lookup:
			if strings.Contains(d.Key(x.X), "bls12Base.popCache") {
				nKeys++
				if !keyOK(inRoot(d, x.Index)) {
					okKey = false
				}
			}
		case *ssa.MapUpdate:
			if strings.Contains(d.Key(x.Map), "bls12Base.popCache") {
				nKeys++
				if !keyOK(inRoot(d, x.Key)) {
					okKey = false
				}
				if rv := inRoot(d, x.Value); rv != nil {
					vk := fl.K.Key(rv)
					if strings.HasPrefix(vk, "("+pvKey) && strings.HasSuffix(vk, " == nil)") {
						okVal = true
					}
				}
			}
		}
	}
	eachInstr(fn, func(in ssa.Instruction) {
		if x, ok := in.(*ssa.Call); ok && calleeIs(&x.Call, pv) {
			for _, a := range x.Call.Args {
				if strings.Contains(fl.K.Key(a), "ReplicaInfo.PubKey") {
					okArgs = true
				}
			}
		}
	})
	c.Check(okKey && nKeys >= 2, "C02.5/pop", "bls12Base.checkPop: verdict cache keyed by proof and public key", p.FuncPos(fn),
		"every look-up and update of popCache uses a key that incorporates the proof bytes and the replica's public key", "the proof-of-possession verdict cache key does not bind the proof to the public key it was checked for (a proof replayed under another key hits the cache)")
	c.Check(okVal && okArgs, "C02.5/pop", "bls12Base.checkPop: caches popVerify's verdict for the replica's own key", p.FuncPos(fn),
		"popCache[key] = (popVerify(replica.PubKey, proof) == nil)", "cached value is popVerify's verdict: "+boolStr(okVal)+", popVerify called with the replica's key: "+boolStr(okArgs))
}

func hasDepContaining(d depSet, sub string) bool {
	for k := range d {
		if strings.Contains(k, sub) {
			return true
		}
	}
	return false
}

// c02BLSKeyLookups (C02.6 for BLS): the aggregate verification uses the sum of the participants'
// public keys, so a participant whose key cannot be obtained (unknown replica, no valid proof of
// possession) must make the verification fail -- otherwise it is silently left out of the key
// set while it still counts in Participants().Len(). For every call of publicKey reachable from
// Verify / BatchVerify (in the method, its function literals, private helpers of the package and
// theirs): on the edge where the lookup failed, the enclosing declared function reaches no
// accepting exit; in a function literal the failing path stores into a captured variable that
// every accepting exit of the enclosing function has tested to be in its zero state; and if the
// enclosing function is a helper, its callers treat its error the same way.
func c02BLSKeyLookups(c *Ctx) {
	p := c.P
	pk := p.Method("security/crypto", "bls12Base", "publicKey")
	if pk == nil {
		c.Unresolved("C02.6", "bls12Base.publicKey", "anchor missing")
		return
	}
	for _, m := range []string{"Verify", "BatchVerify"} {
		root := p.Method("security/crypto", "bls12Base", m)
		if root == nil {
			c.Unresolved("C02.6", "bls12Base."+m, "anchor missing")
			continue
		}
		var scope []*ssa.Function
		for _, hf := range helperClosure(p, root, 2) {
			if hf == pk {
				continue
			}
			scope = append(scope, hf)
			scope = append(scope, Closures(hf)...)
		}
		n := 0
		for _, fn := range scope {
			for _, s := range callsIn(fn, false, func(cc *ssa.CallCommon) bool { return calleeIs(cc, pk) }) {
				call, ok := s.(*ssa.Call)
				if !ok {
					continue
				}
				n++
				ok, why := failureRejects(p, root, fn, call, 0)
				c.Check(ok, "C02.6", "bls12Base."+m+": a failed key lookup fails the verification", p.Pos(call.Pos()),
					why, why+": the participant is left out of the aggregated key while it still counts as a signer (a sub-quorum signature padded with unknown ids verifies)")
			}
		}
		if n == 0 {
			c.Unresolved("C02.6", "bls12Base."+m, "no public key lookup reachable from the verifier")
		}
	}
	// BatchVerify gathers keys and messages by ranging over the batch: that covers every claimed participant only
	// if the batch has exactly as many entries as the signature has participants (the aggregate then fails unless
	// they are the same replicas); otherwise the participant set can be padded beyond what was verified while it
	// still counts toward the quorum. Alternative shape: the keys are gathered by iterating the participants.
	if bv := p.Method("security/crypto", "bls12Base", "BatchVerify"); bv != nil {
		fl := NewFlow(p, bv)
		byParticipants := false
		for _, cl := range Closures(bv) {
			k := NewKeyer(p, cl)
			for _, s := range callsIn(cl, false, func(cc *ssa.CallCommon) bool { return calleeIs(cc, pk) }) {
				if len(s.Common().Args) > 1 && k.Key(s.Common().Args[1]) == "p0" {
					byParticipants = true
				}
			}
		}
		var bad []string
		exits := successExits(fl, 0)
		for _, e := range exits {
			eq := func(f Fact) bool {
				if f.Op != "==" {
					return false
				}
				isLenBatch := func(k string) bool { return strings.HasPrefix(k, "builtin len(p2)") }
				isPartLen := func(k string) bool {
					return strings.Contains(k, ".Len(") && strings.Contains(k, "Participants(") || strings.Contains(k, "Bitfield).Len(")
				}
				return isLenBatch(f.L) && isPartLen(f.R) || isLenBatch(f.R) && isPartLen(f.L)
			}
			ok := byParticipants || branchDominates(fl, e.Ret, eq)
			for f := range e.Facts {
				if eq(f) {
					ok = true
				}
			}
			if !ok {
				bad = append(bad, p.Pos(e.Ret.Pos()))
			}
		}
		c.Check(len(bad) == 0 && len(exits) > 0, "C02.6", "bls12Base.BatchVerify: the batch covers every claimed participant", p.FuncPos(bv),
			"every accepting exit is under Participants().Len() == len(batch) (keys and messages are gathered by ranging over the batch)",
			"accepting exit at "+join(bad)+" without Participants().Len() == len(batch): participants that are not in the batch are never verified but count toward the quorum (a sub-quorum aggregate QC with a padded bit field verifies)")
	}
}

// failureRejects: see c02BLSKeyLookups. call returns an error (alone or as its last result) and
// sits in host; root is the API function whose verdict is at stake.
func failureRejects(p *Prog, root, host *ssa.Function, call *ssa.Call, depth int) (bool, string) {
	if depth > 3 {
		return false, "helper nesting too deep for the rule"
	}
	errT := types.Universe.Lookup("error").Type()
	var errv ssa.Value
	if tup, ok := call.Type().(*types.Tuple); ok {
		if refs := call.Referrers(); refs != nil {
			for _, r := range *refs {
				if ex, ok := r.(*ssa.Extract); ok && ex.Index == tup.Len()-1 && types.Identical(ex.Type(), errT) {
					errv = ex
				}
			}
		}
	} else if types.Identical(call.Type(), errT) {
		errv = call
	}
	if errv == nil {
		return false, "the error of " + shortCallee(call) + " at " + p.Pos(call.Pos()) + " is discarded"
	}
	var failing []*ssa.BasicBlock
	for _, b := range host.Blocks {
		iff, ok := b.Instrs[len(b.Instrs)-1].(*ssa.If)
		if !ok || len(b.Succs) != 2 {
			continue
		}
		bo, ok := iff.Cond.(*ssa.BinOp)
		if !ok || (bo.Op != token.NEQ && bo.Op != token.EQL) {
			continue
		}
		if !((bo.X == errv && isNilConst(bo.Y)) || (bo.Y == errv && isNilConst(bo.X))) {
			continue
		}
		if bo.Op == token.NEQ {
			failing = append(failing, b.Succs[0])
		} else {
			failing = append(failing, b.Succs[1])
		}
	}
	if len(failing) == 0 {
		// `return helper(..)`: the caller's test is the test
		tail := false
		if host.Parent() == nil && errv == ssa.Value(call) {
			for _, r := range returnsOf(host) {
				if n := len(r.Results); n > 0 && retValue(r, n-1) == errv {
					tail = true
				}
			}
		}
		if !tail {
			return false, "the error of " + shortCallee(call) + " at " + p.Pos(call.Pos()) + " is never tested"
		}
	}
	errIdxOf := func(fn *ssa.Function) int {
		res := fn.Signature.Results()
		if res.Len() > 0 && types.Identical(res.At(res.Len()-1).Type(), errT) {
			return res.Len() - 1
		}
		return -1
	}
	upward := func(fn *ssa.Function) (bool, string) {
		if fn == root {
			return true, "on a failed lookup the verifier reaches no accepting exit"
		}
		callers := callIndexOf(p).callers[fn]
		if len(callers) == 0 || callIndexOf(p).asValue[fn] {
			return false, shortName(fn) + " is used in a way the rule does not follow"
		}
		for _, r := range callers {
			c2, ok := r.Instr.(*ssa.Call)
			if !ok {
				return false, shortName(fn) + " is called by go/defer at " + p.Pos(r.Instr.Pos())
			}
			if ok, why := failureRejects(p, root, r.In, c2, depth+1); !ok {
				return false, why
			}
		}
		return true, "on a failed lookup " + shortName(fn) + " fails and every caller up to the verifier fails with it"
	}
	if host.Parent() == nil {
		idx := errIdxOf(host)
		if idx < 0 {
			return false, shortName(host) + " has no error result to report the failed lookup with"
		}
		fl := NewFlow(p, host)
		acc := map[ssa.Instruction]bool{}
		for _, e := range successExits(fl, idx) {
			acc[e.Ret] = true
		}
		for _, fb := range failing {
			if w := reachTrackingErr(fb, errv, func(in ssa.Instruction) bool { return acc[in] }); w != nil {
				return false, "after the failed lookup at " + p.Pos(call.Pos()) + " the accepting exit at " + p.Pos(w.Pos()) + " is reachable"
			}
		}
		return upward(host)
	}
	// a function literal: the failing path must leave a trace in a captured variable
	outer := host.Parent()
	var mc *ssa.MakeClosure
	eachInstr(outer, func(in ssa.Instruction) {
		if m, ok := in.(*ssa.MakeClosure); ok && m.Fn == ssa.Value(host) {
			mc = m
		}
	})
	if mc == nil || outer.Parent() != nil {
		return false, "the function literal at " + p.FuncPos(host) + " is nested in a way the rule does not follow"
	}
	ofl := NewFlow(p, outer)
	oidx := errIdxOf(outer)
	if oidx < 0 {
		return false, shortName(outer) + " has no error result to report the failed lookup with"
	}
	// the accepting exits that can follow the iteration
	var exits []SuccessExit
	for _, e := range successExits(ofl, oidx) {
		ret := e.Ret
		if reachAvoidFromPlain(mc.Block(), 0, func(in ssa.Instruction) bool { return in == ssa.Instruction(ret) }, func(ssa.Instruction) bool { return false }, map[*ssa.BasicBlock]bool{}) != nil {
			exits = append(exits, e)
		}
	}
	for i, fv := range host.FreeVars {
		if i >= len(mc.Bindings) {
			continue
		}
		isStore := func(in ssa.Instruction) bool {
			st, ok := in.(*ssa.Store)
			return ok && st.Addr == ssa.Value(fv)
		}
		all := true
		for _, fb := range failing {
			if reachAvoidFromPlain(fb, 0, isReturn, isStore, map[*ssa.BasicBlock]bool{fb: true}) != nil {
				all = false
			}
		}
		if !all || len(failing) == 0 {
			continue
		}
		cell, ok := mc.Bindings[i].(*ssa.Alloc)
		if !ok {
			continue
		}
		// every accepting exit of the enclosing function knows the cell is in its zero state
		var keys []string
		if refs := cell.Referrers(); refs != nil {
			for _, r := range *refs {
				if u, ok := r.(*ssa.UnOp); ok && u.X == ssa.Value(cell) {
					keys = append(keys, ofl.K.Key(u))
				}
			}
		}
		tested := len(exits) > 0
		if os.Getenv("HSVERIF_DEBUG") != "" {
			fmt.Println("DEBUG failureRejects", shortName(outer), "cell keys", keys, "exits", len(exits))
			for _, e := range exits {
				fmt.Println("  exit", p.Pos(e.Ret.Pos()), join(e.Facts.Sorted()))
			}
		}
		for _, e := range exits {
			okE := false
			for _, k := range keys {
				zero := func(f Fact) bool {
					return f == eqFact(k, "nil") || f == (Fact{"false", k, ""}) || f == eqFact(k, "c:0")
				}
				// (a later call may touch the captured variable, which ends the must-fact; the test was made and
				// decided this way on every path to the exit all the same)
				if e.Facts[eqFact(k, "nil")] || e.Facts[Fact{"false", k, ""}] || e.Facts[eqFact(k, "c:0")] || branchDominates(ofl, e.Ret, zero) {
					okE = true
				}
			}
			// `return errs`: the caller's nil test is the test
			if n := len(e.Ret.Results); n > 0 {
				if u, ok := retValue(e.Ret, n-1).(*ssa.UnOp); ok && u.X == ssa.Value(cell) {
					okE = true
				}
			}
			if !okE {
				tested = false
			}
		}
		if tested {
			return upward(outer)
		}
	}
	return false, "the failed lookup at " + p.Pos(call.Pos()) + " only stops the iteration: no captured variable records it that every accepting exit of " + shortName(outer) + " has tested"
}

func shortCallee(call *ssa.Call) string {
	if cal := call.Call.StaticCallee(); cal != nil {
		return shortName(cal)
	}
	return "the call"
}

// reachTrackingErr: the first instruction satisfying target that is reachable from the start of block fb,
// on the paths where the error value errv is non-nil, following error variables set on the way: entering a
// block binds its phis to the incoming values (nil constant / a value known to be non-nil: errv itself, an
// error constructor, errors.Join with a non-nil operand), and a later `if phi != nil` follows the matching
// branch only (`errs = errors.Join(errs, err); break` … `if errs != nil { return … }`).
func reachTrackingErr(fb *ssa.BasicBlock, errv ssa.Value, target func(ssa.Instruction) bool) ssa.Instruction {
	type st struct {
		b   *ssa.BasicBlock
		key string
	}
	seen := map[st]bool{}
	var nonNil func(v ssa.Value, asg map[*ssa.Phi]bool, depth int) (bool, bool)
	nonNil = func(v ssa.Value, asg map[*ssa.Phi]bool, depth int) (isNonNil, known bool) {
		if depth > 3 {
			return false, false
		}
		if isNilConst(v) {
			return false, true
		}
		if v == errv || knownNonNilError(v) {
			return true, true
		}
		if ph, ok := v.(*ssa.Phi); ok {
			nn, ok := asg[ph]
			return nn, ok
		}
		if call, ok := v.(*ssa.Call); ok {
			if cal := call.Call.StaticCallee(); cal != nil && cal.String() == "errors.Join" && len(call.Call.Args) == 1 {
				if sl, ok := call.Call.Args[0].(*ssa.Slice); ok {
					if arr, ok := sl.X.(*ssa.Alloc); ok && arr.Referrers() != nil {
						for _, r := range *arr.Referrers() {
							ia, ok := r.(*ssa.IndexAddr)
							if !ok || ia.Referrers() == nil {
								continue
							}
							for _, r2 := range *ia.Referrers() {
								if stv, ok := r2.(*ssa.Store); ok && stv.Addr == ssa.Value(ia) {
									if nn, known := nonNil(stv.Val, asg, depth+1); known && nn {
										return true, true
									}
								}
							}
						}
					}
				}
			}
		}
		return false, false
	}
	var found ssa.Instruction
	var rec func(pred, b *ssa.BasicBlock, asg map[*ssa.Phi]bool)
	rec = func(pred, b *ssa.BasicBlock, asg map[*ssa.Phi]bool) {
		if found != nil {
			return
		}
		next := make(map[*ssa.Phi]bool, len(asg)+1)
		for k, v := range asg {
			next[k] = v
		}
		if pred != nil {
			for _, in := range b.Instrs {
				ph, ok := in.(*ssa.Phi)
				if !ok {
					break
				}
				for i, pb := range b.Preds {
					if pb != pred || i >= len(ph.Edges) {
						continue
					}
					if nn, known := nonNil(ph.Edges[i], asg, 0); known {
						next[ph] = nn
					} else {
						delete(next, ph)
					}
				}
			}
		}
		keys := make([]string, 0, len(next))
		for ph, v := range next {
			keys = append(keys, ph.Name()+map[bool]string{true: "+", false: "-"}[v])
		}
		sort.Strings(keys)
		k := st{b, strings.Join(keys, ",")}
		if seen[k] {
			return
		}
		seen[k] = true
		for _, in := range b.Instrs {
			if target(in) {
				found = in
				return
			}
		}
		iff, isIf := b.Instrs[len(b.Instrs)-1].(*ssa.If)
		for i, s := range b.Succs {
			if isIf && len(b.Succs) == 2 {
				if bo, ok := iff.Cond.(*ssa.BinOp); ok && (bo.Op == token.NEQ || bo.Op == token.EQL) {
					var tested ssa.Value
					if isNilConst(bo.Y) {
						tested = bo.X
					} else if isNilConst(bo.X) {
						tested = bo.Y
					}
					if tested != nil {
						if nn, known := nonNil(tested, next, 0); known {
							// the branch taken: (tested != nil) == nn for NEQ
							takesTrue := nn == (bo.Op == token.NEQ)
							if takesTrue != (i == 0) {
								continue
							}
						}
					}
				}
			}
			rec(b, s, next)
		}
	}
	rec(nil, fb, map[*ssa.Phi]bool{})
	return found
}
