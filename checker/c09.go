package main

import (
	"go/types"
	"strings"

	"golang.org/x/tools/go/ssa"
)

func init() { register("C09", checkC09) }

const (
	kVM        = "hs/protocol/votingmachine.VotingMachine."
	kVotes     = "p0->" + kVM + "verifiedVotes"
	kVerifyPC  = "(*hs/security/cert.Authority).VerifyPartialCert("
	kCreateQC  = "(*hs/security/cert.Authority).CreateQuorumCert("
	kPCSig     = "(hs.PartialCert).Signature("
	kPCHash    = "(hs.PartialCert).BlockHash("
	kKauri     = "hs/protocol/comm.Kauri."
	kCanMerge  = "hs/protocol/comm/kauri.CanMergeContributions("
	kStateHiQC = "(*hs/protocol.ViewStates).HighQC("
)

func checkC09(c *Ctx) {
	p := c.P
	c.Decided = "the all-to-one collector records a vote only after VerifyPartialCert succeeded, only if no recorded vote for that block has the same signer, and only if the vote is signed by exactly one replica; " +
		"the QC is created from exactly the recorded list for that block when its length reaches the configured quorum size (polarity checked) and is emitted as a new-view event; votes for blocks not newer than the high QC are dropped; " +
		"first-miss votes are deferred until the next proposal, deferred misses fetch the block; the vote table is accessed only under its mutex (verification runs concurrently); " +
		"the Kauri collector merges a contribution only after verifying it over the block's bytes and checking mergeability, emits when the merged participant count reaches the quorum size, with the QC built from the merged signature, the current view and the block hash. A Kauri aggregation starts from a reset state holding the replica's own vote, and a single contribution replaces the aggregate only when it is empty."
	c.NotDec = "arrival-order independence as such (follows from the set-like structure of the vote table, not separately proved); goroutine interleavings beyond lock discipline; Kauri tree timing."
	c.Expect("C09.1", 3)
	c.Expect("C09.7", 3)
	c.Expect("C09.10", 2)

	c09Engines(c)
	vc := p.Method("protocol/votingmachine", "VotingMachine", "verifyCert")
	cv := p.Method("protocol/votingmachine", "VotingMachine", "CollectVote")
	if vc == nil || cv == nil {
		c.Unresolved("C09.1", "VotingMachine", "anchor missing")
		return
	}
	// the function that records the vote: verifyCert itself, or the private helper of its package that holds
	// its locked part (which then starts with the facts established at its call site: calling-context facts)
	vcRoot := vc
	fl := NewFlow(p, vc)
	var upd *ssa.MapUpdate
	for _, hf := range helperClosure(p, vcRoot, 2) {
		hfl := fl
		if hf != vcRoot {
			hfl = NewFlow(p, hf)
		}
		eachInstr(hf, func(in ssa.Instruction) {
			if mu, ok := in.(*ssa.MapUpdate); ok && hfl.K.Key(mu.Map) == kVotes && upd == nil {
				upd = mu
				vc, fl = hf, hfl
			}
		})
	}
	ws := c.whoMayWrite("C09.9", p.Field("protocol/votingmachine", "VotingMachine", "verifiedVotes"), "VotingMachine.verifiedVotes", "(*hs/protocol/votingmachine.VotingMachine).verifyCert")
	// C09.10 collected votes are discarded only when they cannot form a certificate any more: the block is
	// unknown locally, or not newer than the high QC, or its certificate was just created from them
	for _, w := range ws {
		if w.Fresh {
			continue
		}
		if w.Kind == "clear" {
			c.Violated("C09.10", "verifiedVotes: votes are discarded only when obsolete", p.InstrPos(w.Instr), "all collected votes are discarded at once")
			continue
		}
		if w.Kind == "deletefunc" {
			// maps.DeleteFunc(verifiedVotes, pred): every way pred answers true says that the entry is obsolete
			del := w.Instr.(*ssa.Call)
			cl, _ := resolveClosure(NewFlow(p, w.Fn), del.Call.Args[1])
			ok := cl != nil
			if cl != nil {
				pfl := NewFlow(p, cl)
				ways := trueEdges(pfl)
				ok = len(ways) > 0
				for _, way := range ways {
					obsolete := false
					for f := range way {
						switch {
						case f.Op == "false" && strings.HasPrefix(f.L, "(*hs/security/blockchain.Blockchain).LocalGet(") && strings.Contains(f.L, ", p0)") && strings.HasSuffix(f.L, "#1"):
							obsolete = true
						case f.Op == "<=" && strings.HasPrefix(f.L, kBlockView+"(*hs/security/blockchain.Blockchain).LocalGet(") && strings.Contains(f.L, ", p0)") &&
							strings.HasPrefix(f.R, kQCView+"(*hs/protocol.ViewStates).HighQC("):
							obsolete = true
						}
					}
					if !obsolete {
						ok = false
					}
				}
			}
			c.Check(ok, "C09.10", "verifiedVotes: votes are discarded only when obsolete", p.InstrPos(del),
				"maps.DeleteFunc removes an entry only when its block is unknown or not newer than the high QC (every true outcome of the predicate)",
				"the predicate given to maps.DeleteFunc can answer true for a block that is known and newer than the high QC: collected votes are discarded while a certificate can still form")
			continue
		}
		if w.Kind != "delete" {
			continue
		}
		del := w.Instr.(*ssa.Call)
		dfl := NewFlow(p, w.Fn)
		kd := dfl.K.Key(del.Call.Args[1])
		getOf := func(k, suffix string) bool {
			return strings.HasPrefix(k, "(*hs/security/blockchain.Blockchain).LocalGet(") && strings.Contains(k, ", "+kd+")") && strings.HasSuffix(k, suffix)
		}
		closes := func(fs []Fact) bool {
			for _, f := range fs {
				switch {
				case f.Op == "false" && getOf(f.L, "#1"):
					return true
				case f.Op == "<=" && strings.HasPrefix(f.L, kBlockView) && getOf(strings.TrimSuffix(strings.TrimPrefix(f.L, kBlockView), ")"), "#0") &&
					strings.HasPrefix(f.R, kQCView+"(*hs/protocol.ViewStates).HighQC("):
					return true
				case f.Op == "<=" && strings.HasPrefix(f.L, kQuorumSize) && strings.HasPrefix(f.R, "builtin len(") && kd == kPCHash+"p1)":
					return true
				}
			}
			return false
		}
		open := openPathTo(dfl, del, closes)
		c.Check(open == "", "C09.10", "verifiedVotes: votes are discarded only when obsolete", p.InstrPos(del),
			"delete(verifiedVotes, "+shortVal(kd)+") is reached only when the block is unknown, not newer than the high QC, or its quorum was just reached",
			"collected votes for "+shortVal(kd)+" can be discarded while a certificate can still form ("+open+" without passing an obsolescence test): a quorum votes for the block and no QC is created")
	}
	if upd == nil {
		c.Unresolved("C09.1", "verifyCert", "no update of verifiedVotes found")
	} else {
		facts := fl.At(upd)
		keyK, valK := fl.K.Key(upd.Key), fl.K.Key(upd.Value)
		listK := kVotes + "[" + kPCHash + "p1)]"
		// C09.1 verified, keyed by the vote's block, appended to that block's list
		okV := errNilOf(facts, func(k string) bool { return strings.HasPrefix(k, kVerifyPC) && strings.Contains(k, ", p1)") })
		c.Check(okV, "C09.1/verified", "verifyCert: record only verified votes", p.InstrPos(upd),
			"the vote table is updated only after VerifyPartialCert(cert) == nil", "update reachable without successful VerifyPartialCert; facts: "+join(facts.Sorted()))
		okK := keyK == kPCHash+"p1)" && strings.HasPrefix(valK, "builtin append("+listK+", ")
		appended := false
		if call, ok := upd.Value.(*ssa.Call); ok && len(call.Call.Args) == 2 {
			storedInto(sliceBase(call.Call.Args[1]), func(e ssa.Value) bool {
				if fl.K.Key(e) == "p1" {
					appended = true
				}
				return false
			})
		}
		// "append unless the signer already voted" may be one helper of the package that returns the new list and a
		// flag: under flag == true its list result is append(list, cert) and the flag is true only after a complete
		// scan of the list found no vote of the same signer
		viaHelper := false
		if ex, isEx := upd.Value.(*ssa.Extract); isEx && ex.Index == 0 {
			if hc, isCall := ex.Tuple.(*ssa.Call); isCall && facts[Fact{"true", fl.K.Key(hc) + "#1", ""}] {
				hf := hc.Call.StaticCallee()
				if hf != nil && hf.Blocks != nil && funcPkgPath(hf) == funcPkgPath(vc) && hf.Signature.Results().Len() == 2 {
					li, ci := -1, -1
					for i, a := range hc.Call.Args {
						switch fl.K.Key(a) {
						case listK:
							li = i
						case "p1":
							ci = i
						}
					}
					if li >= 0 && ci >= 0 {
						hfl := NewFlow(p, hf)
						lp, cp := "p"+itoa(li), "p"+itoa(ci)
						all, n := true, 0
						for _, r := range returnsOf(hf) {
							if !hfl.Reachable(r.Block()) || isBoolConst(retValue(r, 1), false) {
								continue
							}
							n++
							okApp := false
							if call, ok := retValue(r, 0).(*ssa.Call); ok && len(call.Call.Args) == 2 && strings.HasPrefix(hfl.K.Key(call), "builtin append("+lp+", ") {
								storedInto(sliceBase(call.Call.Args[1]), func(e ssa.Value) bool {
									if hfl.K.Key(e) == cp {
										okApp = true
									}
									return false
								})
							}
							same := func(hit []Fact, elem string) bool {
								a, b := "(hs.PartialCert).Signer("+elem+")", "(hs.PartialCert).Signer("+cp+")"
								for _, f := range hit {
									if f.Op == "==" && ((f.L == a && f.R == b) || (f.L == b && f.R == a)) {
										return true
									}
								}
								return false
							}
							if !okApp || !isBoolConst(retValue(r, 1), true) || noMatchBefore(hfl, r, func(k string) bool { return k == lp }, same) == "" {
								all = false
							}
						}
						viaHelper = all && n > 0 && keyK == kPCHash+"p1)"
					}
				}
			}
		}
		if viaHelper {
			okK, appended = true, true
		}
		c.Check(okK && appended, "C09.1/keyed", "verifyCert: vote recorded under its own block hash", p.InstrPos(upd),
			"verifiedVotes[cert.BlockHash()] = append(verifiedVotes[cert.BlockHash()], cert)", "update is "+kVotes+"["+keyK+"] = "+valK)
		// duplicate signer: the hit edge of v.Signer()==cert.Signer() over that list cannot reach the update
		var hits []*ssa.If
		eachInstr(vc, func(in ssa.Instruction) {
			if iff, ok := in.(*ssa.If); ok {
				k := fl.K.Key(iff.Cond)
				if strings.HasPrefix(k, "((hs.PartialCert).Signer("+listK+"[") && strings.HasSuffix(k, " == (hs.PartialCert).Signer(p1))") {
					hits = append(hits, iff)
				}
			}
		})
		okD := len(hits) > 0 || viaHelper
		for _, h := range hits {
			if reachAvoidBlock(h.Block().Succs[0], func(in ssa.Instruction) bool { return in == upd }, func(ssa.Instruction) bool { return false }) != nil {
				okD = false
			}
			// and the update is only reachable through the loop's exit, i.e. after all elements were compared
			if !loopExitDominates(h, upd) {
				okD = false
			}
		}
		if !okD && !viaHelper {
			// either idiom: explicit loop with return on the hit, or slices.ContainsFunc/IndexFunc
			sameSigner := func(hit []Fact, elem string) bool {
				for _, f := range hit {
					if f.Op != "==" {
						continue
					}
					a, b := "(hs.PartialCert).Signer("+elem+")", "(hs.PartialCert).Signer(p1)"
					if (f.L == a && f.R == b) || (f.L == b && f.R == a) {
						return true
					}
				}
				return false
			}
			okD = noMatchBefore(fl, upd, func(k string) bool { return k == listK }, sameSigner) != ""
		}
		c.Check(okD, "C09.1/dedup", "verifyCert: one vote per signer and block", p.InstrPos(upd),
			"every recorded vote for the block is compared with cert.Signer(); a match returns without recording",
			"no complete duplicate-signer scan over the block's recorded votes before the update")
		// C09.6 single-signer votes
		okS := hasCmp(facts, "==", is(kPartLen+kPCSig+"p1)))"), is("c:1"))
		if !okS {
			okS = c09SingleSignerInVerifyPartial(c)
		}
		c.Check(okS, "C09.6", "verifyCert: a vote is signed by exactly one replica", p.InstrPos(upd),
			"a vote is recorded only if its signature has exactly one participant",
			"a 'vote' whose signature lists several signers is recorded as one vote; Combine then reports an overlap with the honest votes and no certificate can be formed for that block")
		// C09.2 / C09.3 threshold and creation
		for _, s := range callsIn(vc, false, func(cc *ssa.CallCommon) bool {
			cal := cc.StaticCallee()
			return cal != nil && cal.Name() == "CreateQuorumCert"
		}) {
			f2 := fl.At(s)
			a := s.Common().Args
			okT := fl.K.Key(a[1]) == "p2" && fl.K.Key(a[2]) == valK && hasCmp(f2, "<=", contains(kQuorumSize), func(k string) bool { return strings.HasPrefix(k, "builtin len("+valK+")") })
			c.Check(okT, "C09.2", "verifyCert: QC from the counted list at quorum", p.Pos(s.Pos()),
				"CreateQuorumCert(block, votes) under QuorumSize() <= len(votes), votes being the list just recorded",
				"CreateQuorumCert("+fl.K.Key(a[1])+", "+fl.K.Key(a[2])+") not gated by the quorum comparison on that list; facts: "+join(f2.Sorted()))
			qk := fl.K.Key(s.Value())
			okE := false
			for _, e := range p.constructSites(namedType(p, "", "NewViewMsg")) {
				if e.Fn != vc || e.Alloc == nil {
					continue
				}
				si := fl.K.Key(complitField(e.Alloc, "SyncInfo"))
				if strings.HasPrefix(si, "hs.NewSyncInfoWith[hs.QuorumCert]("+qk+"#0)") && errNilOf(fl.At(e.Instr), is(qk+"#1")) {
					okE = true
				}
			}
			c.Check(okE, "C09.3", "verifyCert: the created QC is emitted", p.Pos(s.Pos()),
				"NewViewMsg{SyncInfo: with(qc)} is added with the QC just created, only when creation succeeded", "no NewViewMsg carrying the created QC under err == nil")
		}
	}
	// C09.3b the block handed to verifyCert is the one looked up under the vote's hash; C09.5 stale gate
	fcv := NewFlow(p, cv)
	n := 0
	// (the calls may sit in a private helper that CollectVote hands the vote and the block to: `verifyIfNewer(cert, block)`)
	for _, ds := range deepSites(fcv, func(cc *ssa.CallCommon) bool { return calleeIs(cc, vcRoot) }, 0) {
		in := ssa.Instruction(ds.Site)
		ci := ds.Site
		n++
		a := ci.Common().Args
		var bad []string
		pcK := ds.Args[1]
		isLookup := func(k string) bool {
			return (strings.HasPrefix(k, "(*hs/security/blockchain.Blockchain).LocalGet(") || strings.HasPrefix(k, kBCGet)) && strings.Contains(k, ", "+kPCHash+pcK+"))") && strings.HasSuffix(k, "#0")
		}
		copyOK := true
		if ds.In == cv {
			for _, lf := range leaves(fcv, a[2], in) {
				if k := lf.KeyIn(fcv); !isLookup(k) {
					bad = append(bad, k)
				}
			}
			copyOK = localCopyOfParam(a[1], 1)
		} else if ds.Via != nil && len(ds.Via.Common().Args) > 2 {
			// the block the helper was given, at the call in CollectVote that leads here
			matched := false
			for i, va := range ds.Via.Common().Args {
				if fcv.K.Key(va) != ds.Args[2] {
					continue
				}
				matched = true
				for _, lf := range leaves(fcv, ds.Via.Common().Args[i], ds.Via) {
					if k := lf.KeyIn(fcv); !isLookup(k) {
						bad = append(bad, k)
					}
				}
			}
			if !matched && !isLookup(ds.Args[2]) {
				bad = append(bad, ds.Args[2])
			}
		} else if !isLookup(ds.Args[2]) {
			bad = append(bad, ds.Args[2])
		}
		okA := strings.HasSuffix(pcK, "hs.VoteMsg.PartialCert") && copyOK && len(bad) == 0
		c.Check(okA, "C09.3", "CollectVote->verifyCert: block of the vote's hash", p.Pos(in.Pos()),
			"verifyCert(vote.PartialCert, block looked up under vote.PartialCert.BlockHash())", "verifyCert args: "+pcK+", "+join(bad))
		facts := ds.Facts
		okS := hasCmp(facts, "<", func(k string) bool { return strings.HasPrefix(k, kQCView+kStateHiQC) }, func(k string) bool { return strings.HasPrefix(k, kBlockView) })
		c.Check(okS, "C09.5/stale", "CollectVote: votes for blocks not newer than the high QC are dropped", p.Pos(in.Pos()),
			"verification starts only under HighQC().View() < block.View()", "verifyCert reachable for a stale block; facts: "+join(facts.Sorted()))
	}
	if n < 2 {
		c.Unresolved("C09.3", "CollectVote", "expected a synchronous and an asynchronous verifyCert call")
	}
	c09Deferral(c, fcv, cv)

	// C09.4 the vote table is accessed only under its mutex (verification may run concurrently)
	c.checkGuard("C09.4", guards["VotingMachine"])
	// (votes are verified one goroutine per vote: the proof-of-possession memo of the BLS scheme is shared between them)
	if mf, pf := p.Field("security/crypto", "bls12Base", "mut"), p.Field("security/crypto", "bls12Base", "popCache"); mf != nil && pf != nil {
		if _, isMap := pf.Type().Underlying().(*types.Map); isMap {
			c.checkGuard("C09.4", guards["bls12Base"])
		} else {
			c.Exempt("C09.4", "bls12Base: the proof-of-possession memo is accessed under its mutex", "security/crypto", "the memo is not a map field of bls12Base on this tree (encapsulated in a type of its own); this table entry does not apply")
		}
	} else {
		c.Exempt("C09.4", "bls12Base: the proof-of-possession memo is accessed under its mutex", "security/crypto", "bls12Base has no mutex/popCache pair on this tree (the memo is encapsulated elsewhere); this table entry does not apply")
	}

	// C09.7 Kauri
	c09Kauri(c)

	// C09.8b a vote from a replica whose BLS proof of possession does not verify never counts (shared with C02.5/pop)
	c.importFrom(checkC02, "C09.8", "C02.5/pop", "C02.6")
	// the overlap tests that keep a vote from being merged twice (Combine, CanMergeContributions) rest on Contains
	c.importFrom(checkC19, "C09.8", "C19.1")

	// C09.8 duplicate signers inside one signature (shared with C02.4)
	for _, scheme := range []string{"ECDSA", "EDDSA"} {
		fn := p.Method("security/crypto", scheme, "Verify")
		if fn == nil {
			c.Unresolved("C09.8", scheme+".Verify", "anchor missing")
			continue
		}
		f := NewFlow(p, fn)
		v, d := dupGate(c, f, successExits(f, 0))
		c.add("C09.8", scheme+".Verify: distinct signers", p.FuncPos(fn), v, d, true)
	}
}

// loopExitDominates: the update is reachable from the loop header of the comparison
// only through the loop's exit edge (so every element was compared first).
func loopExitDominates(hit *ssa.If, upd ssa.Instruction) bool {
	// the "no match" successor of the comparison goes back to the loop header
	hdr := hit.Block().Succs[1]
	// from the header, the update must not be reachable through the loop body edge
	if len(hdr.Instrs) == 0 {
		return false
	}
	hif, ok := hdr.Instrs[len(hdr.Instrs)-1].(*ssa.If)
	if !ok {
		return false
	}
	body := hif.Block().Succs[0]
	// paths from body that avoid returning to the header must not reach the update
	seen := map[*ssa.BasicBlock]bool{hdr: true, body: true}
	work := []*ssa.BasicBlock{body}
	for len(work) > 0 {
		b := work[0]
		work = work[1:]
		for _, in := range b.Instrs {
			if in == upd {
				return false
			}
		}
		for _, s := range b.Succs {
			if !seen[s] {
				seen[s] = true
				work = append(work, s)
			}
		}
	}
	return true
}

func c09SingleSignerInVerifyPartial(c *Ctx) bool {
	p := c.P
	fn := p.Method("security/cert", "Authority", "VerifyPartialCert")
	if fn == nil {
		return false
	}
	fl := NewFlow(p, fn)
	exits := successExits(fl, 0)
	if len(exits) == 0 {
		return false
	}
	for _, e := range exits {
		if !hasCmp(e.Facts, "==", is(kPartLen+kPCSig+"p1)))"), is("c:1")) {
			return false
		}
	}
	return true
}

// c09Deferral: a vote whose block is unknown is deferred until the next proposal
// (first miss) or triggers a fetch (deferred miss) -- it is never recorded without a block.
func c09Deferral(c *Ctx, fl *Flow, cv *ssa.Function) {
	p := c.P
	delay := p.Func("core/eventloop", "DelayUntil")
	okDelay, okFetch := false, false
	// CollectVote or a helper of its package the lookup was extracted into
	for _, hf := range helperClosure(p, cv, 2) {
		if hf == p.Method("protocol/votingmachine", "VotingMachine", "verifyCert") {
			continue
		}
		fl := fl
		if hf != cv {
			fl = NewFlow(p, hf)
		}
		eachInstr(hf, func(in ssa.Instruction) {
			call, ok := in.(*ssa.Call)
			if !ok || call.Call.StaticCallee() == nil {
				return
			}
			cal := call.Call.StaticCallee()
			if cal.Origin() == delay && len(cal.TypeArgs()) == 1 && cal.TypeArgs()[0].String() == modPath+".ProposeMsg" {
				facts := fl.AtBlockStart(in.Block())
				if falseOf(facts, func(k string) bool {
					return strings.HasPrefix(k, "(*hs/security/blockchain.Blockchain).LocalGet(") && strings.HasSuffix(k, "#1")
				}) &&
					falseOf(facts, func(k string) bool { return strings.HasSuffix(k, "hs.VoteMsg.Deferred") }) {
					okDelay = true
				}
			}
			if strings.HasPrefix(fl.K.Key(call), kBCGet) {
				if trueOf(fl.At(in), func(k string) bool { return strings.HasSuffix(k, "hs.VoteMsg.Deferred") }) {
					okFetch = true
				}
			}
		})
	}
	c.Check(okDelay, "C09.5/defer", "CollectVote: first miss is deferred until the next proposal", p.FuncPos(cv),
		"DelayUntil[ProposeMsg](vote) exactly when the vote is not yet deferred and the block is not stored locally", "no such deferral found")
	c.Check(okFetch, "C09.5/fetch", "CollectVote: a deferred vote fetches its block", p.FuncPos(cv),
		"blockchain.Get(hash) is used only for already-deferred votes", "no fetch for deferred votes found")
}

func c09Kauri(c *Ctx) {
	p := c.P
	mc := p.Method("protocol/comm", "Kauri", "mergeContribution")
	if mc == nil {
		c.Unresolved("C09.7", "Kauri.mergeContribution", "anchor missing")
		return
	}
	fl := NewFlow(p, mc)
	blk := kBCGet + "p0->" + kKauri + "blockchain, p0->" + kKauri + "blockHash)"
	// the block of the aggregation may be looked up by mergeContribution or by its callers, which then pass it in:
	// a *Block parameter counts if every caller passes Get(blockchain, blockHash)#0 under found == true
	blockParams := map[string]bool{}
	for i, prm := range mc.Params {
		if i < 2 || prm.Type().String() != "*"+modPath+".Block" {
			continue
		}
		callers := callIndexOf(p).callers[mc]
		ok := len(callers) > 0
		for _, r := range callers {
			ci, isCall := r.Instr.(ssa.CallInstruction)
			if !isCall || i >= len(ci.Common().Args) {
				ok = false
				continue
			}
			rfl := NewFlow(p, r.In)
			ak := rfl.K.Key(ci.Common().Args[i])
			if !(strings.HasPrefix(ak, blk) && strings.HasSuffix(ak, "#0") && trueOf(rfl.At(r.Instr), is(strings.TrimSuffix(ak, "#0")+"#1"))) {
				ok = false
			}
		}
		if ok {
			blockParams["p"+itoa(i)] = true
		}
	}
	verified := func(s FactSet) bool {
		return errNilOf(s, func(k string) bool {
			if !strings.HasPrefix(k, kBaseVer) {
				return false
			}
			if strings.Contains(k, ", p1, (*hs.Block).ToBytes("+blk) && strings.Contains(k, "#0)") {
				return true
			}
			for bp := range blockParams {
				if strings.Contains(k, ", p1, (*hs.Block).ToBytes("+bp+")") {
					return true
				}
			}
			return false
		})
	}
	storedAgg := map[string]bool{"p0->" + kKauri + "aggContrib": true}
	n := 0
	isAggStore := func(in ssa.Instruction) bool {
		st, ok := in.(*ssa.Store)
		if !ok {
			return false
		}
		fa, ok := st.Addr.(*ssa.FieldAddr)
		return ok && fieldName(fa.X.Type(), fa.Field) == kKauri+"aggContrib"
	}
	// in mergeContribution or in the private helpers of its package it was split into
	for _, d := range deepInstrs(fl, isAggStore, 0) {
		in := d.Instr
		st := in.(*ssa.Store)
		n++
		facts := d.Facts
		val := d.Key(st.Val)
		storedAgg[val] = true
		okV := verified(facts)
		c.Check(okV, "C09.7/verified", "mergeContribution: aggContrib := "+shortVal(val), p.InstrPos(in),
			"aggContrib is updated only after auth.Verify(contribution, block.ToBytes()) == nil for the block of the current aggregation",
			"aggContrib updated without verifying the contribution over the block's bytes; facts: "+join(facts.Sorted()))
		if val == "p1" {
			// the bare contribution replaces the aggregate only when there is none yet: otherwise what was
			// accumulated so far (the replica's own vote, at least) is thrown away and the quorum is never reached
			okE := facts[eqFact("nil", "p0->"+kKauri+"aggContrib")] || facts[eqFact("p0->"+kKauri+"aggContrib", "nil")]
			c.Check(okE, "C09.7/first", "mergeContribution: a contribution replaces the aggregate only when it is empty", p.InstrPos(in),
				"aggContrib := contribution only under aggContrib == nil", "the accumulated contribution can be overwritten by a single one; facts: "+join(facts.Sorted()))
		}
		if val != "p1" {
			okM := strings.Contains(val, "Base).Combine(") && errNilOf(facts, func(k string) bool { return strings.HasPrefix(k, kCanMerge+"p1, p0->"+kKauri+"aggContrib)") })
			c.Check(okM, "C09.7/mergeable", "mergeContribution: combine only mergeable contributions", p.InstrPos(in),
				"the combined signature is stored only after CanMergeContributions(contribution, aggContrib) == nil", "combine-store without the mergeability check; value "+val)
		}
	}
	if n == 0 {
		c.Unresolved("C09.7", "mergeContribution", "no store to aggContrib")
	}
	// a new aggregation starts from a clean state that holds exactly the replica's own vote for the proposal
	if bg := p.Method("protocol/comm", "Kauri", "begin"); bg != nil {
		fb := NewFlow(p, bg)
		rs := p.Method("protocol/comm", "Kauri", "reset")
		want := map[string]string{"aggContrib": "(hs.PartialCert).Signature(p2)", "blockHash": "(hs.PartialCert).BlockHash(p2)", "currentView": kBlockView + "p1" + kPropBlock + ")"}
		got := map[string]bool{}
		var bad []string
		for _, d := range deepInstrs(fb, func(in ssa.Instruction) bool {
			st, ok := in.(*ssa.Store)
			if !ok {
				return false
			}
			fa, ok := st.Addr.(*ssa.FieldAddr)
			return ok && strings.HasPrefix(fieldName(fa.X.Type(), fa.Field), kKauri)
		}, 0) {
			st := d.Instr.(*ssa.Store)
			fa := st.Addr.(*ssa.FieldAddr)
			f := strings.TrimPrefix(fieldName(fa.X.Type(), fa.Field), kKauri)
			w, tracked := want[f]
			if !tracked || (rs != nil && d.In == rs) {
				continue
			}
			if v := d.Key(st.Val); v == w {
				got[f] = true
				// the previous aggregation's leftovers are cleared first
				pos := ssa.Instruction(st)
				if len(d.Path) > 0 {
					pos = d.Path[0]
				}
				if rs != nil {
					if w := cfgSearch(fb, nil, bg.Blocks[0], func(x ssa.Instruction) bool { return x == pos }, func(x ssa.Instruction) bool {
						return isCallTo(rs)(x) || helperAlways(x, isCallTo(rs), 0)
					}, nil); w != nil {
						bad = append(bad, p.InstrPos(st)+": "+f+" is set on a path that did not reset the aggregation state")
					}
				}
			}
		}
		for f := range want {
			if !got[f] {
				bad = append(bad, f+" is not set from the proposal and the replica's own vote")
			}
		}
		// reset() clears everything that belongs to one aggregation
		if rs != nil {
			kr := NewKeyer(p, rs)
			cleared := map[string]bool{}
			eachInstr(rs, func(in ssa.Instruction) {
				if st, ok := in.(*ssa.Store); ok {
					if fa, ok := st.Addr.(*ssa.FieldAddr); ok && strings.HasPrefix(fieldName(fa.X.Type(), fa.Field), kKauri) {
						f := strings.TrimPrefix(fieldName(fa.X.Type(), fa.Field), kKauri)
						// (a value that does not read the old state: nil, false, a fresh empty list)
						if v := kr.Key(st.Val); isNilConst(st.Val) || isBoolConst(st.Val, false) || v == "nil" || (!strings.Contains(v, kKauri) && !isBoolConst(st.Val, true)) {
							cleared[f] = true
						}
					}
				}
			})
			for _, f := range []string{"aggContrib", "aggSent", "senders"} {
				if p.Field("protocol/comm", "Kauri", f) != nil && !cleared[f] {
					bad = append(bad, "reset() does not clear "+f)
				}
			}
		}
		sortStrings(bad)
		c.Check(len(bad) == 0, "C09.7/begin", "Kauri.begin: a new aggregation starts clean, with the replica's own vote", p.FuncPos(bg),
			"after reset(): blockHash := pc.BlockHash(), currentView := p.Block.View(), aggContrib := pc.Signature()", join(bad))
	} else {
		c.Unresolved("C09.7/begin", "Kauri.begin", "anchor missing")
	}
	// the wait timer belongs to the view it was started in: the view put into WaitTimerExpiredEvent is read before the
	// wait, so that a timer left over from the previous view is recognised as stale by onWaitTimerExpired
	if wa := p.Method("protocol/comm", "Kauri", "waitToAggregate"); wa != nil {
		fw := NewFlow(p, wa)
		ok, n := true, 0
		var sleep ssa.Instruction
		eachInstr(wa, func(in ssa.Instruction) {
			if call, isCall := in.(*ssa.Call); isCall && call.Call.StaticCallee() != nil && call.Call.StaticCallee().String() == "time.Sleep" {
				sleep = in
			}
		})
		for _, e := range p.constructSites(namedType(p, "protocol/comm", "WaitTimerExpiredEvent")) {
			if e.Fn != wa || e.Alloc == nil {
				continue
			}
			n++
			v := complitField(e.Alloc, "currentView")
			ld, isLoad := v.(*ssa.UnOp)
			if !isLoad || sleep == nil || !strings.HasSuffix(fw.K.Key(v), kKauri+"currentView") || !precedes(ld, sleep) {
				ok = false
			}
		}
		c.Check(ok && n > 0, "C09.7/timer", "waitToAggregate: the timer carries the view it was started in", p.FuncPos(wa),
			"currentView is read before time.Sleep and that value is put into WaitTimerExpiredEvent", "the view is read after the wait (or not from currentView): a timer of the previous view looks current and flushes the next view's aggregate")
	}
	// only contributions for the view being aggregated are merged
	if ocr := p.Method("protocol/comm", "Kauri", "onContributionRecv"); ocr != nil {
		fo := NewFlow(p, ocr)
		n := 0
		for _, s := range callsIn(ocr, false, func(cc *ssa.CallCommon) bool { return calleeIs(cc, mc) }) {
			n++
			facts := fo.At(s)
			okV := hasCmp(facts, "==", is("p0->"+kKauri+"currentView"), func(k string) bool { return strings.Contains(k, "kauripb.Contribution") && strings.Contains(k, "View") })
			arg := fo.K.Key(s.Common().Args[1])
			okA := strings.HasPrefix(arg, "hs/internal/proto/hotstuffpb.QuorumSignatureFromProto(") && strings.Contains(arg, "kauripb.Contribution") && strings.Contains(arg, "Signature")
			c.Check(okV && okA, "C09.7/view", "onContributionRecv: merges only contributions for the current aggregation view", p.Pos(s.Pos()),
				"mergeContribution(decoded contribution.Signature) is reached only under currentView == contribution.View", "view gate: "+boolStr(okV)+", argument is the contribution's signature: "+boolStr(okA))
		}
		if n == 0 {
			c.Unresolved("C09.7/view", "onContributionRecv", "no mergeContribution call")
		}
	}
	// emission
	emitted := false
	nvSites := map[ssa.Instruction]Emit{}
	for _, e := range p.constructSites(namedType(p, "", "NewViewMsg")) {
		if e.Alloc != nil {
			nvSites[e.Instr] = e
		}
	}
	for _, d := range deepInstrs(fl, func(in ssa.Instruction) bool { _, ok := nvSites[in]; return ok }, 0) {
		e := nvSites[d.Instr]
		emitted = true
		facts := d.Facts
		si := d.Key(complitField(e.Alloc, "SyncInfo"))
		okT := hasCmp(facts, "<=", contains(kQuorumSize), func(k string) bool { return strings.HasPrefix(k, kPartLen) && strings.Contains(k, "Base).Combine(") })
		okQ := strings.HasPrefix(si, "hs.NewSyncInfoWith[hs.QuorumCert](hs.NewQuorumCert(p0->"+kKauri+"aggContrib, p0->"+kKauri+"currentView, p0->"+kKauri+"blockHash)")
		if !okQ {
			// the QC may be built from the value that was stored into aggContrib (handed to a helper that builds the message)
			for x := range storedAgg {
				if strings.HasPrefix(si, "hs.NewSyncInfoWith[hs.QuorumCert](hs.NewQuorumCert("+x+", p0->"+kKauri+"currentView, p0->"+kKauri+"blockHash)") {
					okQ = true
				}
			}
		}
		if !okQ {
			// the QC may be built from the local that was just stored into aggContrib
			eachInstr(d.In, func(x ssa.Instruction) {
				call, isCall := x.(*ssa.Call)
				if !isCall || call.Call.StaticCallee() == nil || call.Call.StaticCallee().Name() != "NewQuorumCert" || len(call.Call.Args) != 3 {
					return
				}
				eachInstr(d.In, func(y ssa.Instruction) {
					if st, isSt := y.(*ssa.Store); isSt && isAggStore(y) && st.Val == call.Call.Args[0] && precedes(y, x) {
						rest := d.Key(call.Call.Args[1]) + ", " + d.Key(call.Call.Args[2])
						if rest == "p0->"+kKauri+"currentView, p0->"+kKauri+"blockHash" && strings.Contains(si, d.Key(call)) {
							okQ = true
						}
					}
				})
			})
		}
		c.Check(okT, "C09.7/threshold", "mergeContribution: emit at quorum", p.InstrPos(e.Instr),
			"the QC is emitted only under QuorumSize() <= merged.Participants().Len()", "emission not gated by the quorum comparison; facts: "+join(facts.Sorted()))
		c.Check(okQ, "C09.7/qc", "mergeContribution: QC = (aggContrib, currentView, blockHash)", p.InstrPos(e.Instr),
			"the emitted QC carries the merged signature, the aggregation's view and block hash", "emitted sync info is "+si)
	}
	if !emitted {
		c.Unresolved("C09.7", "mergeContribution", "no NewViewMsg emission")
	}
}

func shortVal(v string) string {
	if len(v) > 60 {
		return v[:60] + "..."
	}
	return v
}

// localCopyOfParam: v is (a field of) the function's local copy of parameter idx.
func localCopyOfParam(v ssa.Value, idx int) bool {
	for {
		switch x := v.(type) {
		case *ssa.UnOp:
			v = x.X
		case *ssa.FieldAddr:
			v = x.X
		case *ssa.Field:
			v = x.X
		case *ssa.Parameter:
			return x.Parent().Params[idx] == x
		case *ssa.Alloc:
			ok := false
			for _, r := range *x.Referrers() {
				if st, isSt := r.(*ssa.Store); isSt && st.Addr == x {
					if prm, isP := st.Val.(*ssa.Parameter); isP && prm.Parent().Params[idx] == prm {
						ok = true
					} else {
						return false
					}
				}
			}
			return ok
		default:
			return false
		}
	}
}

// c09Engines (C09.11): votes are verified concurrently (one goroutine per vote), so the crypto schemes must be re-entrant.
// The group and pairing objects of the BLS library (G1, G2, Engine) carry scratch temporaries that every operation
// overwrites; the repository's idiom is one object per use. Rule: in package security/crypto every method call on such an
// object has a receiver created by the library's constructor in the same function (or the G1/G2 of such an engine) -- never
// one kept in a struct field, a package variable or passed in from elsewhere (where two verifications would share it).
func c09Engines(c *Ctx) {
	p := c.P
	isEngineType := func(t types.Type) bool {
		pt, ok := t.(*types.Pointer)
		if !ok {
			return false
		}
		n, ok := pt.Elem().(*types.Named)
		if !ok || n.Obj().Pkg() == nil || !strings.HasSuffix(n.Obj().Pkg().Path(), "kilic/bls12-381") {
			return false
		}
		switch n.Obj().Name() {
		case "G1", "G2", "Engine":
			return true
		}
		return false
	}
	var origin func(v ssa.Value, fn *ssa.Function, seen map[ssa.Value]bool) string
	origin = func(v ssa.Value, fn *ssa.Function, seen map[ssa.Value]bool) string {
		if seen[v] {
			return ""
		}
		seen[v] = true
		switch x := v.(type) {
		case *ssa.Call:
			if cal := x.Call.StaticCallee(); cal != nil && cal.Pkg != nil && strings.HasSuffix(cal.Pkg.Pkg.Path(), "kilic/bls12-381") && strings.HasPrefix(cal.Name(), "New") {
				return ""
			}
			return "the result of " + x.Call.Value.Name()
		case *ssa.Phi:
			for _, e := range x.Edges {
				if why := origin(e, fn, seen); why != "" {
					return why
				}
			}
			return ""
		case *ssa.UnOp:
			switch a := x.X.(type) {
			case *ssa.FieldAddr:
				// engine.G1 / engine.G2 of a locally created engine
				if isEngineType(a.X.Type()) {
					return origin(a.X, fn, seen)
				}
				return "the field " + fieldName(a.X.Type(), a.Field)
			case *ssa.Alloc:
				for _, r := range *a.Referrers() {
					if st, ok := r.(*ssa.Store); ok && st.Addr == a {
						if why := origin(st.Val, fn, seen); why != "" {
							return why
						}
					}
				}
				return ""
			case *ssa.Global:
				return "the package variable " + a.Name()
			case *ssa.FreeVar:
				return origin(a, fn, seen)
			}
			return "a value loaded from " + x.X.String()
		case *ssa.FreeVar:
			par := fn.Parent()
			if par == nil {
				return "a captured variable"
			}
			idx := -1
			for i, fv := range fn.FreeVars {
				if fv == x {
					idx = i
				}
			}
			var why string
			found := false
			eachInstr(par, func(in ssa.Instruction) {
				mc, ok := in.(*ssa.MakeClosure)
				if !ok || mc.Fn != fn || idx < 0 || idx >= len(mc.Bindings) {
					return
				}
				found = true
				b := mc.Bindings[idx]
				if a, ok := b.(*ssa.Alloc); ok {
					for _, r := range *a.Referrers() {
						if st, ok := r.(*ssa.Store); ok && st.Addr == a && why == "" {
							why = origin(st.Val, par, seen)
						}
					}
					return
				}
				if why == "" {
					why = origin(b, par, seen)
				}
			})
			if !found {
				return "a captured variable"
			}
			return why
		case *ssa.Parameter:
			return "the parameter " + x.Name()
		}
		return v.String()
	}
	n := 0
	var bad []string
	for _, fn := range p.ModFuncs {
		if funcPkgPath(fn) != modPath+"/security/crypto" {
			continue
		}
		eachInstr(fn, func(in ssa.Instruction) {
			ci, ok := in.(ssa.CallInstruction)
			if !ok {
				return
			}
			cm := ci.Common()
			cal := cm.StaticCallee()
			if cal == nil || cal.Signature.Recv() == nil || len(cm.Args) == 0 || !isEngineType(cm.Args[0].Type()) {
				return
			}
			n++
			if why := origin(cm.Args[0], fn, map[ssa.Value]bool{}); why != "" {
				bad = append(bad, p.InstrPos(in)+" in "+shortName(fn)+": "+cal.Name()+" on "+why)
			}
		})
	}
	if n == 0 {
		c.Unresolved("C09.11", "security/crypto: BLS group/pairing objects", "no use of the library's G1/G2/Engine found")
		return
	}
	c.Check(len(bad) == 0, "C09.11", "security/crypto: BLS group and pairing objects are created per use", p.FuncPos(p.Method("security/crypto", "bls12Base", "coreVerify")),
		itoa(n)+" operations on G1/G2/Engine objects, each on an object created by the library's constructor in the same function: concurrent verifications share no scratch state",
		"a stateful group/pairing object is shared between calls: "+join(bad)+" (two votes verified at the same time overwrite each other's temporaries; a valid vote fails verification and is dropped)")
}
