package main

import (
	"go/token"
	"sort"
	"strings"

	"golang.org/x/tools/go/ssa"
)

func init() { register("C01", checkC01) }

const (
	kCommitInner = "(*hs/protocol/consensus.Committer).commitInner("
	kBCGet       = "(*hs/security/blockchain.Blockchain).Get("
)

func checkC01(c *Ctx) {
	p := c.P
	c.Decided = "the local commit-sequence clause: commit events are produced only by Committer.commitInner, only for a block with a strictly higher view than the last committed one, " +
		"only after the block's parent (looked up by its parent hash) was committed by the recursive call, always followed by recording the block as last committed; " +
		"the commit pipeline is entered only with the non-nil result of the ruleset's CommitRule, only from proposals that passed Voter.Verify."
	c.NotDec = "prefix agreement between two replicas over all schedules and Byzantine behaviours (a protocol-level safety argument; its structural preconditions are checked under C02, C03, C04, C07)."
	c.Expect("C01.1", 3)
	c.Expect("C01.5", 3)

	commitInner := p.Method("protocol/consensus", "Committer", "commitInner")
	commit := p.Method("protocol/consensus", "Committer", "commit")
	tryCommit := p.Method("protocol/consensus", "Committer", "TryCommit")
	updCB := p.Method("protocol", "ViewStates", "UpdateCommittedBlock")
	committedBlock := p.Method("protocol", "ViewStates", "CommittedBlock")

	// C01.1 single emitter, single recorder
	ceT := namedType(p, "", "CommitEvent")
	sites := p.constructSites(ceT)
	if ceT == nil || len(sites) == 0 {
		c.Unresolved("C01.1", "CommitEvent construction", "no construction site of hotstuff.CommitEvent found")
	} else {
		names := emitNames(sites)
		// a private helper that only commitInner calls emits on commitInner's behalf
		for i, e := range sites {
			if p.ownedByAny(e.Fn, []string{"(*hs/protocol/consensus.Committer).commitInner"}) {
				_ = i
				names = replaceName(names, shortName(declaredParent(e.Fn)), "(*hs/protocol/consensus.Committer).commitInner")
			}
		}
		c.Check(setEq(names, []string{"(*hs/protocol/consensus.Committer).commitInner"}), "C01.1", "CommitEvent construction", p.InstrPos(sites[0].Instr),
			"hotstuff.CommitEvent is constructed only in Committer.commitInner ("+itoa(len(sites))+" site)",
			"hotstuff.CommitEvent constructed in: "+join(names))
	}
	c.whoMayCall("C01.1", updCB, "ViewStates.UpdateCommittedBlock", "(*hs/protocol/consensus.Committer).commitInner")
	c.whoMayWrite("C01.1", p.Field("protocol", "ViewStates", "committedBlock"), "ViewStates.committedBlock", "(*hs/protocol.ViewStates).UpdateCommittedBlock")

	// C01.6 structural preconditions of cross-replica agreement, decided under their own properties and re-listed here:
	// what an honest replica votes for (C03.5/C03.6), the vote/lock/commit decision tables (C04.1), the QC view binding (C02.3)
	c.importFrom(checkC03, "C01.6", "C03.1", "C03.2", "C03.3", "C03.4", "C03.5", "C03.6", "C03.7")
	c.importFrom(checkC04, "C01.6", "C04.1", "C04.7")
	c.importFrom(checkC02, "C01.6", "C02.1", "C02.3", "C02.7")
	// ancestors reached through parent links are authenticated by their hash only: a block fetched from a peer must be
	// accepted only if its recomputed hash is the requested one (the network layer's part of C13.1)
	c13SendersFor(c, "C01.7")

	if commitInner == nil || commit == nil || tryCommit == nil {
		c.Unresolved("C01.2", "Committer", "anchor missing")
		return
	}
	fl := NewFlow(p, commitInner)
	// the base of the commit: the last committed block, or its view handed down as a value
	baseView := kBlockView + "p2)"
	if len(commitInner.Params) > 2 && commitInner.Params[2].Type().String() == modPath+".View" {
		baseView = "p2"
	}
	siteOf := map[ssa.Instruction]Emit{}
	for _, e := range sites {
		siteOf[e.Instr] = e
	}
	for _, d := range deepInstrs(fl, func(in ssa.Instruction) bool { _, ok := siteOf[in]; return ok }, 0) {
		e := siteOf[d.Instr]
		facts := d.Facts
		blk := complitField(e.Alloc, "Block")
		bk := d.Key(blk)
		innerBk := d.Flow.K.Key(blk)
		// C01.2 strictly higher view than the last committed block
		if d.In == commitInner {
			// the iterative form: the uncommitted ancestors are collected in a slice by following the
			// parent links, and executed from the last collected (oldest) to the first
			if iter, why := c01IterativeForm(fl, blk, e.Instr); iter {
				c.Held("C01.2", "commitInner: view gate", p.InstrPos(e.Instr), why)
				c.Held("C01.3", "commitInner: ancestor first", p.InstrPos(e.Instr), why)
				w := reachAvoid(e.Instr, func(in ssa.Instruction) bool { return isReturn(in) || in == e.Instr }, func(in ssa.Instruction) bool {
					ci, ok := in.(ssa.CallInstruction)
					return ok && calleeIs(ci.Common(), updCB) && d.Flow.K.Key(ci.Common().Args[1]) == innerBk
				})
				c.Check(w == nil, "C01.4", "commitInner: record committed block", p.InstrPos(e.Instr),
					"every path from the emission to a return or to the next emission calls UpdateCommittedBlock("+bk+")",
					"a return or the next emission is reachable after the emission without UpdateCommittedBlock on the same block")
				continue
			}
		}
		ok := hasCmp(facts, "<", is(baseView), is(kBlockView+bk+")"))
		c.Check(ok && bk == "p1", "C01.2", "commitInner: view gate", p.InstrPos(e.Instr),
			"CommitEvent{Block: block} is emitted only under committedBlock.View() < block.View()",
			"emission of CommitEvent{"+bk+"} not dominated by committedBlock.View() < block.View(); facts: "+join(facts.Sorted()))
		// C01.3 ancestor first
		getKey := func(k string) bool {
			return strings.HasPrefix(k, kBCGet) && strings.Contains(k, ", "+kBlockParent+bk+"))")
		}
		recOK := errNilOf(facts, func(k string) bool {
			return strings.HasPrefix(k, kCommitInner) && strings.Contains(k, kBCGet) && strings.Contains(k, kBlockParent+bk+")") && strings.Contains(k, "#0, p2)")
		})
		found := trueOf(facts, func(k string) bool { return getKey(strings.TrimSuffix(k, "#1")) && strings.HasSuffix(k, "#1") })
		c.Check(recOK && found, "C01.3", "commitInner: ancestor first", p.InstrPos(e.Instr),
			"emission is dominated by a successful recursive commitInner(Get(block.Parent()), committedBlock) and the parent was found",
			"emission reachable without committing the parent first; facts: "+join(facts.Sorted()))
		// C01.4 always followed by UpdateCommittedBlock(block)
		w := reachAvoid(e.Instr, isReturn, func(in ssa.Instruction) bool {
			ci, ok := in.(ssa.CallInstruction)
			return ok && calleeIs(ci.Common(), updCB) && d.Flow.K.Key(ci.Common().Args[1]) == innerBk
		})
		c.Check(w == nil, "C01.4", "commitInner: record committed block", p.InstrPos(e.Instr),
			"every path from the emission to a return calls UpdateCommittedBlock("+bk+")",
			"a return is reachable after the emission without UpdateCommittedBlock on the same block")
	}
	// failure path of the parent lookup returns a non-nil error (no emission)
	// C01.4b commit passes the current committed block as base
	{
		fc := NewFlow(p, commit)
		calls := callsIn(commit, false, func(cc *ssa.CallCommon) bool { return calleeIs(cc, commitInner) })
		if len(calls) != 1 {
			c.Unresolved("C01.4", "commit->commitInner", "expected exactly one call")
		} else {
			a := calls[0].Common().Args
			k1, k2 := fc.K.Key(a[1]), fc.K.Key(a[2])
			ok := k1 == "p1" && committedBlock != nil && (strings.HasPrefix(k2, "(*hs/protocol.ViewStates).CommittedBlock(") ||
				baseView == "p2" && strings.HasPrefix(k2, kBlockView+"(*hs/protocol.ViewStates).CommittedBlock("))
			if !ok && committedBlock != nil {
				// the base may be read by TryCommit and handed down: judged in TryCommit's terms
				for _, ds := range deepSites(NewFlow(p, tryCommit), func(cc *ssa.CallCommon) bool { return calleeIs(cc, commitInner) }, 0) {
					if ds.Site != calls[0] || len(ds.Args) < 3 {
						continue
					}
					r1, r2 := ds.Args[1], ds.Args[2]
					ok = strings.Contains(r1, "CommitRuler).CommitRule(") && (strings.HasPrefix(r2, "(*hs/protocol.ViewStates).CommittedBlock(") ||
						baseView == "p2" && strings.HasPrefix(r2, kBlockView+"(*hs/protocol.ViewStates).CommittedBlock("))
				}
			}
			c.Check(ok, "C01.4", "commit: base is the current committed block", p.Pos(calls[0].Pos()),
				"commitInner(block, viewStates.CommittedBlock())", "commitInner called with ("+k1+", "+k2+")")
		}
	}
	// C01.5 entry discipline
	c.whoMayCall("C01.5", commitInner, "Committer.commitInner", "(*hs/protocol/consensus.Committer).commit", "(*hs/protocol/consensus.Committer).commitInner")
	c.whoMayCall("C01.5", commit, "Committer.commit", "(*hs/protocol/consensus.Committer).TryCommit")
	c.whoMayCall("C01.5", tryCommit, "Committer.TryCommit", "(*hs/protocol/consensus.Voter).OnValidPropose", "(*hs/protocol/consensus.Proposer).Propose")
	{
		ft := NewFlow(p, tryCommit)
		for _, ds := range deepSites(ft, func(cc *ssa.CallCommon) bool { return calleeIs(cc, commit) }, 0) {
			s := ds.Site
			arg := ds.Args[1]
			facts := ds.Facts
			nonNil := notNilOf(facts, is(arg))
			if !nonNil {
				// the nil test is the callee's first act: every use of commit's block parameter is under block != nil
				fcm := NewFlow(p, commit)
				uses, guarded := 0, true
				eachInstr(commit, func(in ssa.Instruction) {
					ci, isCall := in.(ssa.CallInstruction)
					if !isCall {
						return
					}
					for _, a := range ci.Common().Args {
						if fcm.K.Key(a) == "p1" {
							uses++
							if !notNilOf(fcm.At(in), is("p1")) {
								guarded = false
							}
						}
					}
				})
				nonNil = uses > 0 && guarded
			}
			ok := strings.Contains(arg, "CommitRuler).CommitRule(") && strings.Contains(arg, ", p1)") && nonNil
			c.Check(ok, "C01.5", "TryCommit: commit(CommitRule(block)) under != nil", p.Pos(s.Pos()),
				"commit receives the non-nil result of ruler.CommitRule(block)", "commit called with "+arg+"; facts: "+join(facts.Sorted()))
		}
		propose := p.Method("protocol/consensus", "Proposer", "Propose")
		if propose != nil {
			fp := NewFlow(p, propose)
			for _, ds := range deepSites(fp, func(cc *ssa.CallCommon) bool { return calleeIs(cc, tryCommit) }, 0) {
				s := ds.Site
				facts := ds.Facts
				arg := ds.Args[1]
				ok := arg == "p1"+kPropBlock && errNilOf(facts, func(k string) bool {
					return strings.Contains(k, "(*hs/protocol/consensus.Voter).Verify(") && strings.Contains(k, ", p1)")
				})
				c.Check(ok, "C01.5", "Propose: TryCommit after Verify", p.Pos(s.Pos()),
					"TryCommit(proposal.Block) only after Voter.Verify(proposal) == nil", "TryCommit("+arg+") without verification; facts: "+join(facts.Sorted()))
			}
		}
	}
}

func replaceName(names []string, from, to string) []string {
	seen := map[string]bool{}
	var out []string
	for _, n := range names {
		if n == from {
			n = to
		}
		if !seen[n] {
			seen[n] = true
			out = append(out, n)
		}
	}
	sort.Strings(out)
	return out
}

// c01IterativeForm recognises the loop form of commitInner and decides the two clauses the
// recursive form gets from the recursion (C01.2 view gate, C01.3 ancestor first):
//
//	for cur := block; committed.View() < cur.View(); cur = parent { parent, ok := Get(cur.Parent()); if !ok { return err }; S = append(S, cur) }
//	for i := len(S) - 1; i >= 0; i-- { emit(S[i]) }
//
// (a) the emitted block is S[i], S a local slice that only grows by append(S, cur) and does not
// change once an emission was reached; (b) every appended cur satisfies committed.View() <
// cur.View() at the append, and cur is the block parameter or the block found under the previous
// cur's parent hash; (c) emissions are reached only after the walk arrived at a block with
// View() <= committed.View() (the chain is complete); (d) i starts at len(S)-1, is decremented by
// one and the emission is under i >= 0: the oldest collected block is emitted first.
func c01IterativeForm(fl *Flow, blk ssa.Value, emit ssa.Instruction) (bool, string) {
	fn := fl.Fn
	ld, ok := blk.(*ssa.UnOp)
	if !ok {
		return false, ""
	}
	ia, ok := ld.X.(*ssa.IndexAddr)
	if !ok {
		return false, ""
	}
	S, ok := ia.X.(*ssa.Phi)
	if !ok {
		return false, ""
	}
	// (a)
	var appends []*ssa.Call
	for _, e := range S.Edges {
		if isNilConst(e) {
			continue
		}
		call, ok := e.(*ssa.Call)
		if !ok {
			return false, ""
		}
		if b, isB := call.Call.Value.(*ssa.Builtin); !isB || b.Name() != "append" || call.Call.Args[0] != ssa.Value(S) {
			return false, ""
		}
		appends = append(appends, call)
	}
	if len(appends) == 0 {
		return false, ""
	}
	for _, ap := range appends {
		if reachAvoidFromPlain(emit.Block(), 0, func(x ssa.Instruction) bool { return x == ssa.Instruction(ap) }, func(ssa.Instruction) bool { return false }, map[*ssa.BasicBlock]bool{}) != nil {
			return false, ""
		}
	}
	// (b)
	var curKeys []string
	for _, ap := range appends {
		facts := fl.At(ap)
		n := 0
		bad := false
		storedInto(sliceBase(ap.Call.Args[1]), func(el ssa.Value) bool {
			n++
			ck := fl.K.Key(el)
			if !hasCmp(facts, "<", is(kBlockView+"p2)"), is(kBlockView+ck+")")) {
				bad = true
				return false
			}
			ph, isPhi := el.(*ssa.Phi)
			if !isPhi {
				bad = bad || ck != "p1"
				return false
			}
			for i, e := range ph.Edges {
				ek := fl.K.Key(e)
				if ek == "p1" {
					continue
				}
				// the block found under the current block's parent hash, and the append is reached only if it was found
				// (known at the append, or on the edge that hands the found block to the next round of the walk)
				foundKey := strings.TrimSuffix(ek, "#0") + "#1"
				if !(strings.HasPrefix(ek, kBCGet) && strings.Contains(ek, ", "+kBlockParent+ck+"))") && strings.HasSuffix(ek, "#0")) ||
					!(trueOf(facts, is(foundKey)) || trueOf(fl.AtEdge(ph.Block().Preds[i], ph.Block()), is(foundKey))) {
					bad = true
				}
			}
			curKeys = append(curKeys, ck)
			return false
		})
		if bad || n != 1 {
			return false, ""
		}
	}
	// (c)
	at := fl.At(emit)
	for _, ck := range curKeys {
		if !hasCmp(at, "<=", is(kBlockView+ck+")"), is(kBlockView+"p2)")) {
			return false, ""
		}
	}
	// (d)
	idx, ok := ia.Index.(*ssa.Phi)
	if !ok || len(idx.Edges) != 2 {
		return false, ""
	}
	init, step := false, false
	for _, e := range idx.Edges {
		b, ok := e.(*ssa.BinOp)
		if !ok || b.Op != token.SUB || !isIntConst(b.Y, 1) {
			return false, ""
		}
		if b.X == ssa.Value(idx) {
			step = true
			continue
		}
		if call, ok := b.X.(*ssa.Call); ok {
			if bi, isB := call.Call.Value.(*ssa.Builtin); isB && bi.Name() == "len" && call.Call.Args[0] == ssa.Value(S) {
				init = true
			}
		}
	}
	if !init || !step || !hasCmp(at, "<=", is("c:0"), is(fl.K.Key(idx))) {
		return false, ""
	}
	_ = fn
	return true, "iterative form: the emitted block is an element of the slice of uncommitted ancestors; every element was appended under committedBlock.View() < its View() and is the block itself or the block found under the previous element's parent hash; emissions start only after the walk reached a block with View() <= committedBlock.View(); the slice is consumed from its last element to its first (oldest ancestor first)"
}
