package main

import (
	"fmt"
	"go/types"
	"os"
	"sort"
	"strings"

	"golang.org/x/tools/go/ssa"
)

func init() { register("C12", checkC12) }

const pbPkg = modPath + "/internal/proto/hotstuffpb"

// isGenerated reports functions from generated *.pb.go / *_gorums.pb.go files.
func (p *Prog) isGenerated(fn *ssa.Function) bool {
	if !fn.Pos().IsValid() {
		return fn.Synthetic != ""
	}
	f := p.Fset.Position(fn.Pos()).Filename
	return strings.HasSuffix(f, ".pb.go")
}

// accessorFields resolves a getter method to the struct fields its result is read from
// (following nested getters of the same kind, e.g. protobuf oneof getters).
func accessorFields(p *Prog, fn *ssa.Function, depth int) map[string]bool {
	fields := map[string]bool{}
	if fn == nil || fn.Blocks == nil || fn.Signature.Recv() == nil || depth > 2 {
		return fields
	}
	recvPb := isPbMsg(fn.Signature.Recv().Type())
	for _, r := range returnsOf(fn) {
		if len(r.Results) == 0 {
			continue
		}
		backwardSlice(r.Results[0], func(v ssa.Value) bool {
			switch x := v.(type) {
			case *ssa.FieldAddr:
				if (recvPb && isPbMsg(x.X.Type())) || (!recvPb && isDomainStruct(x.X.Type())) {
					fields[fieldName(x.X.Type(), x.Field)] = true
				}
			case *ssa.Field:
				if (recvPb && isPbMsg(x.X.Type())) || (!recvPb && isDomainStruct(x.X.Type())) {
					fields[fieldName(x.X.Type(), x.Field)] = true
				}
			case *ssa.Call:
				if cal := x.Call.StaticCallee(); cal != nil && cal.Signature.Recv() != nil && recvPb && isPbMsg(cal.Signature.Recv().Type()) && strings.HasPrefix(cal.Name(), "Get") {
					for f := range accessorFields(p, cal, depth+1) {
						fields[f] = true
					}
				}
			}
			return false
		})
	}
	return fields
}

// accessorField: the single field a plain accessor returns ("" otherwise).
func accessorField(p *Prog, fn *ssa.Function) string {
	fs := accessorFields(p, fn, 0)
	if len(fs) == 1 {
		for f := range fs {
			return f
		}
	}
	return ""
}

// setterFields: for a function, which domain struct fields receive (a value derived
// from) parameter i.
func setterFields(p *Prog, fn *ssa.Function) map[int]map[string]bool {
	out := map[int]map[string]bool{}
	if fn == nil || fn.Blocks == nil {
		return out
	}
	eachInstr(fn, func(in ssa.Instruction) {
		st, ok := in.(*ssa.Store)
		if !ok {
			return
		}
		fa, ok := st.Addr.(*ssa.FieldAddr)
		if !ok {
			return
		}
		fname := fieldName(fa.X.Type(), fa.Field)
		backwardSliceOpt(st.Val, true, func(v ssa.Value) bool {
			if prm, ok := v.(*ssa.Parameter); ok {
				for i, q := range fn.Params {
					if q == prm {
						if out[i] == nil {
							out[i] = map[string]bool{}
						}
						out[i][fname] = true
					}
				}
			}
			return false
		})
	})
	return out
}

func isDomainPkg(path string) bool {
	return path == modPath || path == modPath+"/security/crypto"
}

func namedOf(t types.Type) *types.Named {
	if pt, ok := t.Underlying().(*types.Pointer); ok {
		t = pt.Elem()
	}
	n, _ := types.Unalias(t).(*types.Named)
	return n
}

func isPbMsg(t types.Type) bool {
	n := namedOf(t)
	if n == nil || n.Obj().Pkg() == nil || n.Obj().Pkg().Path() != pbPkg {
		return false
	}
	_, ok := n.Underlying().(*types.Struct)
	return ok
}

func isDomainStruct(t types.Type) bool {
	n := namedOf(t)
	if n == nil || n.Obj().Pkg() == nil || !isDomainPkg(n.Obj().Pkg().Path()) {
		return false
	}
	_, ok := n.Underlying().(*types.Struct)
	return ok
}

type fieldMap map[string]map[string]bool // wire field -> domain fields

func (m fieldMap) add(w, d string) {
	if m[w] == nil {
		m[w] = map[string]bool{}
	}
	m[w][d] = true
}

func setStr(m map[string]bool) string {
	var ks []string
	for k := range m {
		ks = append(ks, k)
	}
	sort.Strings(ks)
	return "{" + strings.Join(ks, ", ") + "}"
}

func checkC12(c *Ctx) {
	p := c.P
	c.Decided = "writer/reader agreement of the wire conversion: every field of every wire message type used for protocol objects is written by an encoder and read by a decoder, and the correspondence between wire fields and protocol-object fields induced by the encoders is the same as the one induced by the decoders (no field dropped, none crossed); " +
		"the sender identity of proposals, votes, new-view and timeout messages is taken from the authenticated peer; bytes-to-sign of blocks, certificates and timeout messages cover every field of the object except derived ones; " +
		"block fields are written only at construction and by SetTimestamp, each time followed by recomputing the cached hash from those bytes; a fetched block is accepted only if its hash is the requested one. An optional part is converted when it is present, not when it is absent (polarity of the presence test)."
	c.Decided += " The proposer written into a received block equals the id the proposal is attributed to."
	c.NotDec = "value-level round-trip equality (timestamp precision, varint extremes) and protobuf's own marshalling."
	c.Expect("C12.1", 20)
	c.Expect("C12.3", 5)
	// the participants of a BLS aggregate travel as the bytes of a bit field: rebuilding the set from its bytes keeps
	// the bytes in place and recounts the members (shared with C19.2)
	c.importFrom(checkC19, "C12.7", "C19.2")

	// ---- C12.1 ----
	var toFns, fromFns []*ssa.Function
	for _, fn := range p.ModFuncs {
		if funcPkgPath(fn) != pbPkg || p.isGenerated(fn) || fn.Parent() != nil {
			continue
		}
		switch {
		case strings.HasSuffix(fn.Name(), "ToProto"):
			toFns = append(toFns, fn)
		case strings.HasSuffix(fn.Name(), "FromProto"):
			fromFns = append(fromFns, fn)
		}
	}
	if len(toFns) < 8 || len(fromFns) < 8 {
		c.Unresolved("C12.1", "convert.go", "expected at least 8 encoders and 8 decoders")
		return
	}
	c.Stat("encoders", len(toFns))
	c.Stat("decoders", len(fromFns))

	written := map[string]bool{}
	read := map[string]bool{}
	toMap, fromMap := fieldMap{}, fieldMap{}
	sliceEnterHelpers, sliceProg = pbPkg, p
	defer func() { sliceEnterHelpers, sliceProg = "", nil }()

	// domain sources reachable backwards from v: accessor calls and direct field reads of domain structs
	domainSources := func(fn *ssa.Function, v ssa.Value) map[string]bool {
		out := map[string]bool{}
		backwardSlice(v, func(x ssa.Value) bool {
			switch y := x.(type) {
			case *ssa.Call:
				if cal := y.Call.StaticCallee(); cal != nil && cal.Signature.Recv() != nil {
					if isDomainStruct(cal.Signature.Recv().Type()) || (cal.Origin() != nil && isDomainPkg(funcPkgPath(cal))) {
						if f := accessorField(p, cal); f != "" {
							out[f] = true
						}
					}
				}
			case *ssa.FieldAddr:
				if isDomainStruct(y.X.Type()) {
					out[fieldName(y.X.Type(), y.Field)] = true
				}
			case *ssa.Field:
				if isDomainStruct(y.X.Type()) {
					out[fieldName(y.X.Type(), y.Field)] = true
				}
			}
			return false
		})
		return out
	}
	// wire fields read backwards from v: getter calls and direct field loads of pb messages
	wireSources := func(v ssa.Value) map[string]bool {
		out := map[string]bool{}
		backwardSlice(v, func(x ssa.Value) bool {
			switch y := x.(type) {
			case *ssa.Call:
				if cal := y.Call.StaticCallee(); cal != nil && cal.Signature.Recv() != nil && isPbMsg(cal.Signature.Recv().Type()) && strings.HasPrefix(cal.Name(), "Get") {
					for f := range accessorFields(p, cal, 0) {
						out[f] = true
					}
				}
			case *ssa.FieldAddr:
				if isPbMsg(y.X.Type()) {
					out[fieldName(y.X.Type(), y.Field)] = true
				}
			case *ssa.Field:
				if isPbMsg(y.X.Type()) {
					out[fieldName(y.X.Type(), y.Field)] = true
				}
			}
			return false
		})
		return out
	}

	for _, fn := range toFns {
		eachInstr(fn, func(in ssa.Instruction) {
			st, ok := in.(*ssa.Store)
			if !ok {
				return
			}
			fa, ok := st.Addr.(*ssa.FieldAddr)
			if !ok || !isPbMsg(fa.X.Type()) {
				return
			}
			w := fieldName(fa.X.Type(), fa.Field)
			written[w] = true
			for d := range domainSources(fn, st.Val) {
				toMap.add(w, d)
			}
		})
	}
	for _, fn := range fromFns {
		// reads
		eachInstr(fn, func(in ssa.Instruction) {
			switch y := in.(type) {
			case *ssa.Call:
				if cal := y.Call.StaticCallee(); cal != nil && cal.Signature.Recv() != nil && isPbMsg(cal.Signature.Recv().Type()) && strings.HasPrefix(cal.Name(), "Get") {
					for f := range accessorFields(p, cal, 0) {
						read[f] = true
					}
				}
			case *ssa.FieldAddr:
				if isPbMsg(y.X.Type()) {
					read[fieldName(y.X.Type(), y.Field)] = true
				}
			}
		})
		// sinks: arguments of domain constructors / setters, stores to domain struct fields
		eachInstr(fn, func(in ssa.Instruction) {
			switch y := in.(type) {
			case *ssa.Call:
				cal := y.Call.StaticCallee()
				if cal == nil || !isDomainPkg(funcPkgPath(cal)) {
					return
				}
				sf := setterFields(p, cal)
				for i, a := range y.Call.Args {
					if len(sf[i]) == 0 {
						continue
					}
					for w := range wireSources(a) {
						for d := range sf[i] {
							fromMap.add(w, d)
						}
					}
				}
			case *ssa.Store:
				if fa, ok := y.Addr.(*ssa.FieldAddr); ok && isDomainStruct(fa.X.Type()) {
					d := fieldName(fa.X.Type(), fa.Field)
					for w := range wireSources(y.Val) {
						fromMap.add(w, d)
					}
				}
			}
		})
	}
	// all fields of the wire types touched
	pbTypes := map[string]*types.Named{}
	addType := func(w string) {
		tn := w[:strings.LastIndex(w, ".")]
		tn = tn[strings.LastIndex(tn, ".")+1:]
		if n := p.Named("internal/proto/hotstuffpb", tn); n != nil {
			pbTypes[tn] = n
		}
	}
	for w := range written {
		addType(w)
	}
	for w := range read {
		addType(w)
	}
	var names []string
	for n := range pbTypes {
		names = append(names, n)
	}
	sort.Strings(names)
	for _, tn := range names {
		st := pbTypes[tn].Underlying().(*types.Struct)
		var notW, notR []string
		nf := 0
		for i := 0; i < st.NumFields(); i++ {
			f := st.Field(i)
			if !f.Exported() {
				continue
			}
			nf++
			w := fieldName(pbTypes[tn], i)
			if !written[w] {
				notW = append(notW, f.Name())
			}
			if !read[w] {
				notR = append(notR, f.Name())
			}
		}
		if nf == 0 {
			continue
		}
		c.Check(len(notW) == 0 && len(notR) == 0, "C12.1/coverage", "hotstuffpb."+tn, p.Pos(pbTypes[tn].Obj().Pos()),
			"all "+itoa(nf)+" wire fields are written by an encoder and read by a decoder",
			"not written by any encoder: {"+join(notW)+"}; not read by any decoder: {"+join(notR)+"}")
	}
	// correspondence
	var ws []string
	for w := range written {
		ws = append(ws, w)
	}
	sort.Strings(ws)
	for _, w := range ws {
		a, b := toMap[w], fromMap[w]
		if len(a) == 0 && len(b) == 0 {
			continue
		}
		short := strings.TrimPrefix(w, "hs/internal/proto/hotstuffpb.")
		c.Check(setStr(a) == setStr(b), "C12.1/correspondence", short, "internal/proto/hotstuffpb/convert.go",
			"encoders fill it from "+setStr(a)+" and decoders deliver it to the same protocol-object fields",
			"encoders fill it from "+setStr(a)+" but decoders deliver it to "+setStr(b)+" (a field is dropped or crossed)")
	}

	c12OrderAndPresence(c, toFns, fromFns)
	c12Contribution(c)
	c12Identity(c)
	c12BytesToSign(c)
	c12BlockHash(c)
	// C12.5 (shared with C13.1)
	c13SendersFor(c, "C12.5")
}

// c12Identity: the sender id of incoming messages comes from the authenticated peer.
func c12Identity(c *Ctx) {
	p := c.P
	peer := "(*hs/core.RuntimeConfig).PeerIDFromContext("
	type h struct{ name, field string }
	for _, x := range []h{{"Propose", "hs.ProposeMsg.ID"}, {"Vote", "hs.VoteMsg.ID"}, {"NewView", "hs.NewViewMsg.ID"}, {"Timeout", "hs.TimeoutMsg.ID"}} {
		fn := p.Method("server", "serviceImpl", x.name)
		if fn == nil {
			c.Unresolved("C12.2", "serviceImpl."+x.name, "anchor missing")
			continue
		}
		fl := NewFlow(p, fn)
		var bad []string
		n := 0
		eachInstr(fn, func(in ssa.Instruction) {
			st, ok := in.(*ssa.Store)
			if !ok {
				return
			}
			fa, ok := st.Addr.(*ssa.FieldAddr)
			if !ok || fieldName(fa.X.Type(), fa.Field) != x.field {
				return
			}
			n++
			for _, lf := range leaves(fl, st.Val, in) {
				k := lf.KeyIn(fl)
				if strings.HasPrefix(k, peer) && strings.HasSuffix(k, "#0") {
					continue
				}
				// Kauri: proposals are relayed down the tree, the proposer id travels in the message
				if x.name == "Propose" && isCarriedProposerKey(k) && trueOf(lf.Facts, func(s string) bool { return strings.HasPrefix(s, "(*hs/core.RuntimeConfig).HasKauriTree(") }) {
					continue
				}
				bad = append(bad, k)
			}
		})
		c.Check(n > 0 && len(bad) == 0, "C12.2", "serviceImpl."+x.name+": sender id from the authenticated peer", p.FuncPos(fn),
			"the message's ID is PeerIDFromContext(ctx) (for Kauri-relayed proposals: the proposer id carried by the message)", "ID assigned from "+join(bad)+" (sites: "+itoa(n)+")")
		if x.name == "Propose" {
			// the proposer written into the decoded block (it is part of the block's hash) is the id the proposal is attributed to
			strip := func(v ssa.Value) ssa.Value {
				for i := 0; i < 4; i++ {
					switch y := v.(type) {
					case *ssa.ChangeType:
						v = y.X
					case *ssa.Convert:
						v = y.X
					}
				}
				return v
			}
			var idVal, propVal ssa.Value
			nProp := 0
			eachInstr(fn, func(in ssa.Instruction) {
				st, ok := in.(*ssa.Store)
				if !ok {
					return
				}
				fa, ok := st.Addr.(*ssa.FieldAddr)
				if !ok {
					return
				}
				switch fieldName(fa.X.Type(), fa.Field) {
				case x.field:
					idVal = strip(st.Val)
				case "hs/internal/proto/hotstuffpb.Block.Proposer":
					nProp++
					propVal = strip(st.Val)
				}
			})
			c.Check(nProp == 1 && idVal != nil && propVal == idVal, "C12.2", "serviceImpl.Propose: the block's proposer is the id the proposal is attributed to", p.FuncPos(fn),
				"Block.Proposer and ProposeMsg.ID are assigned the same value (the authenticated peer, or for a Kauri-relayed proposal the carried proposer id)",
				"Block.Proposer and ProposeMsg.ID are assigned different values: for a proposal relayed down a Kauri tree the decoded block gets the relayer as proposer, i.e. another hash than the block the proposer signed")
		}
	}
}

func c12BytesToSign(c *Ctx) {
	p := c.P
	type spec struct {
		typ    string
		method string
		exempt map[string]string
	}
	specs := []spec{
		{"Block", "ToBytes", map[string]string{"hash": "derived: the cached hash of these bytes"}},
		{"QuorumCert", "ToBytes", nil},
		{"PartialCert", "ToBytes", map[string]string{"signer": "derived: first participant of the signature"}},
		{"TimeoutCert", "ToBytes", nil},
		{"TimeoutMsg", "ToBytes", map[string]string{
			"ViewSignature": "a signature over the view, not part of what the message signature covers",
			"MsgSignature":  "the signature itself"}},
	}
	for _, s := range specs {
		n := p.Named("", s.typ)
		fn := p.Method("", s.typ, s.method)
		if n == nil || fn == nil {
			c.Unresolved("C12.3", s.typ+"."+s.method, "anchor missing")
			continue
		}
		readF := fieldsRead(fn, n)
		st := n.Underlying().(*types.Struct)
		var missing []string
		for i := 0; i < st.NumFields(); i++ {
			f := st.Field(i).Name()
			if readF[f] {
				continue
			}
			if _, ok := s.exempt[f]; ok {
				continue
			}
			missing = append(missing, f)
		}
		c.Check(len(missing) == 0, "C12.3", s.typ+"."+s.method+" covers the object", p.FuncPos(fn),
			"reads {"+join(keysOf(readF))+"}; exempt "+itoa(len(s.exempt))+" derived/signature field(s)", "fields not covered by the bytes-to-sign: "+join(missing))
	}
	// SyncInfo part of TimeoutMsg.ToBytes: only the QC (TC/AggQC by design, see C02.8)
}

func c12BlockHash(c *Ctx) {
	p := c.P
	nb := p.Func("", "NewBlock")
	stf := p.Method("", "Block", "SetTimestamp")
	if nb == nil || stf == nil {
		c.Unresolved("C12.4", "NewBlock/SetTimestamp", "anchor missing")
		return
	}
	for _, f := range []string{"parent", "proposer", "batch", "cert", "view"} {
		c.whoMayWrite("C12.4", p.Field("", "Block", f), "Block."+f)
	}
	c.whoMayWrite("C12.4", p.Field("", "Block", "ts"), "Block.ts", "(*hs.Block).SetTimestamp")
	c.whoMayWrite("C12.4", p.Field("", "Block", "hash"), "Block.hash", "(*hs.Block).SetTimestamp")
	for _, fn := range []*ssa.Function{nb, stf} {
		fl := NewFlow(p, fn)
		var hashStore *ssa.Store
		var others []ssa.Instruction
		eachInstr(fn, func(in ssa.Instruction) {
			st, ok := in.(*ssa.Store)
			if !ok {
				return
			}
			fa, ok := st.Addr.(*ssa.FieldAddr)
			if !ok || !strings.HasPrefix(fieldName(fa.X.Type(), fa.Field), "hs.Block.") {
				return
			}
			if fieldName(fa.X.Type(), fa.Field) == "hs.Block.hash" {
				hashStore = st
			} else {
				others = append(others, in)
			}
		})
		ok := hashStore != nil
		if ok {
			hv := fl.K.Key(hashStore.Val)
			ok = strings.HasPrefix(hv, "crypto/sha256.Sum256((*hs.Block).ToBytes(")
			for _, o := range others {
				if !precedes(o, hashStore) {
					ok = false
				}
			}
			// and the ToBytes call itself comes after the other stores
			if call, isC := hashStore.Val.(*ssa.Call); isC && len(call.Call.Args) == 1 {
				if tb, isTB := call.Call.Args[0].(*ssa.Call); isTB {
					for _, o := range others {
						if !precedes(o, tb) {
							ok = false
						}
					}
				}
			}
			if reachAvoid(others[len(others)-1], isReturn, func(in ssa.Instruction) bool { return in == ssa.Instruction(hashStore) }) != nil {
				ok = false
			}
		}
		c.Check(ok, "C12.4", shortName(fn)+": hash = sha256(ToBytes()) after the fields are set", p.FuncPos(fn),
			"the cached hash is recomputed from ToBytes() after every field store and before returning", "the cached hash can be stale with respect to the block's fields")
	}
}

// c12Contribution: the Kauri contribution message: every field is written by the sender and read by the receiver.
func c12Contribution(c *Ctx) {
	p := c.P
	n := p.Named("internal/proto/kauripb", "Contribution")
	snd := p.Method("protocol/comm/kauri", "KauriGorumsSender", "SendContributionToParent")
	rcv := p.Method("protocol/comm", "Kauri", "onContributionRecv")
	if n == nil || snd == nil || rcv == nil {
		c.Unresolved("C12.1/coverage", "kauripb.Contribution", "anchor missing")
		return
	}
	written, read := map[string]bool{}, map[string]bool{}
	eachInstr(snd, func(in ssa.Instruction) {
		if st, ok := in.(*ssa.Store); ok {
			if fa, ok := st.Addr.(*ssa.FieldAddr); ok && namedOf(fa.X.Type()) == n {
				written[fieldVar(fa.X.Type(), fa.Field).Name()] = true
			}
		}
	})
	eachInstr(rcv, func(in ssa.Instruction) {
		switch x := in.(type) {
		case *ssa.FieldAddr:
			if namedOf(x.X.Type()) == n {
				read[fieldVar(x.X.Type(), x.Field).Name()] = true
			}
		case *ssa.Call:
			if cal := x.Call.StaticCallee(); cal != nil && cal.Signature.Recv() != nil && namedOf(cal.Signature.Recv().Type()) == n && strings.HasPrefix(cal.Name(), "Get") {
				read[strings.TrimPrefix(cal.Name(), "Get")] = true
			}
		}
	})
	st := n.Underlying().(*types.Struct)
	var notW, notR []string
	nf := 0
	for i := 0; i < st.NumFields(); i++ {
		f := st.Field(i)
		if !f.Exported() {
			continue
		}
		nf++
		if !written[f.Name()] {
			notW = append(notW, f.Name())
		}
		if !read[f.Name()] {
			notR = append(notR, f.Name())
		}
	}
	c.Check(len(notW) == 0 && len(notR) == 0 && nf > 0, "C12.1/coverage", "kauripb.Contribution", p.Pos(n.Obj().Pos()),
		"all "+itoa(nf)+" fields are written by SendContributionToParent and read by onContributionRecv", "not written: {"+join(notW)+"}; not read: {"+join(notR)+"}")
}

// c12OrderAndPresence: converters neither reorder repeated elements (signature bytes are
// concatenated in list order, so a reordering changes hashes and bytes-to-sign) nor make the
// presence of an optional part depend on anything but that part being present.
func c12OrderAndPresence(c *Ctx, toFns, fromFns []*ssa.Function) {
	p := c.P
	all := append(append([]*ssa.Function{}, toFns...), fromFns...)
	for _, fn := range all {
		// (1) no sorting / permutation anywhere below a converter
		var sorts []string
		seen := map[*ssa.Function]bool{}
		var visit func(f *ssa.Function, depth int)
		visit = func(f *ssa.Function, depth int) {
			if f == nil || seen[f] || depth > 4 {
				return
			}
			seen[f] = true
			if f.Blocks == nil {
				return
			}
			eachInstr(f, func(in ssa.Instruction) {
				if mc, ok := in.(*ssa.MakeClosure); ok {
					if cl, ok := mc.Fn.(*ssa.Function); ok {
						visit(cl, depth+1)
					}
				}
				ci, ok := in.(ssa.CallInstruction)
				if !ok {
					return
				}
				cal := ci.Common().StaticCallee()
				if cal == nil {
					return
				}
				name := cal.String()
				if strings.HasPrefix(name, "slices.Sort") || strings.HasPrefix(name, "sort.") || strings.HasPrefix(name, "slices.Reverse") || strings.HasPrefix(name, "math/rand") {
					sorts = append(sorts, name+" in "+shortName(f)+" ("+p.InstrPos(in)+")")
					return
				}
				if inModule(funcPkgPath(cal)) && !p.isGenerated(cal) {
					visit(cal, depth+1)
				}
			})
		}
		visit(fn, 0)
		c.Check(len(sorts) == 0, "C12.6/order", fn.Name()+": element order is preserved", p.FuncPos(fn),
			"no sorting, reversing or shuffling below this converter: repeated elements keep the sender's order (signature lists are hashed in list order)",
			"the converter reorders elements: "+join(sorts)+" -- a certificate's bytes, and with them block hashes and bytes-to-sign, change in transit")
	}
	// (2) presence: a store of an optional part depends only on that part being present
	for _, fn := range all {
		fl := NewFlow(p, fn)
		isTo := strings.HasSuffix(fn.Name(), "ToProto")
		var bad []string
		n := 0
		eachInstr(fn, func(in ssa.Instruction) {
			var facts FactSet
			switch x := in.(type) {
			case *ssa.Store:
				fa, ok := x.Addr.(*ssa.FieldAddr)
				if !ok {
					return
				}
				if isTo && !isPbMsg(fa.X.Type()) {
					return
				}
				if !isTo && !isDomainStruct(fa.X.Type()) {
					return
				}
				facts = fl.At(in)
			case *ssa.Call:
				// decoders deliver optional parts through setters (SetQC, SetTC, SetAggQC)
				cal := x.Call.StaticCallee()
				if isTo || cal == nil || !strings.HasPrefix(cal.Name(), "Set") || !isDomainPkg(funcPkgPath(cal)) {
					return
				}
				facts = fl.At(in)
			default:
				return
			}
			n++
			// what is delivered here (the stored value, the setter's argument)
			var delivered []string
			switch x := in.(type) {
			case *ssa.Store:
				delivered = append(delivered, fl.K.Key(x.Val))
			case *ssa.Call:
				for _, a := range x.Call.Args[1:] {
					delivered = append(delivered, fl.K.Key(a))
				}
			}
			for f := range facts {
				if f.Op == "after" {
					continue
				}
				if !presenceLike(f, isTo) {
					bad = append(bad, p.InstrPos(in)+": "+f.String())
				}
				// the polarity of the presence test: a part converted exactly when it is absent is a part lost in transit
				if f.Op == "==" && oneIsNil(f) && len(nonNil(f)) > 6 {
					for _, dk := range delivered {
						if strings.Contains(dk, nonNil(f)) {
							bad = append(bad, p.InstrPos(in)+": converted under "+f.String()+", that is, only when the part is absent")
						}
					}
				}
			}
			// and the other way round (a condition joined with || or negated leaves no must-fact at the store): every
			// path through the converter that skips this store / setter leaves the way to it on an edge that tests the
			// shape of the object (comma-ok flag, nil, signature variant, list bound, failed library decoding), never on
			// an edge that tests anything else
			reach := map[*ssa.BasicBlock]bool{in.Block(): true}
			for changed := true; changed; {
				changed = false
				for _, b := range fn.Blocks {
					if reach[b] {
						continue
					}
					for _, s := range b.Succs {
						if reach[s] {
							reach[b], changed = true, true
						}
					}
				}
			}
			seenB := map[*ssa.BasicBlock]bool{fn.Blocks[0]: true}
			work := []*ssa.BasicBlock{fn.Blocks[0]}
			if fn.Blocks[0] == in.Block() {
				work = nil
			}
			for len(work) > 0 {
				b := work[0]
				work = work[1:]
				if r, isRet := b.Instrs[len(b.Instrs)-1].(*ssa.Return); isRet {
					bad = append(bad, p.InstrPos(in)+": can be skipped on a path to "+p.Pos(r.Pos())+" that leaves the way to it on a test of something other than the part's presence")
					break
				}
				for _, s := range b.Succs {
					if seenB[s] || s == in.Block() {
						continue
					}
					if os.Getenv("HSVERIF_DEBUG") != "" && fn.Name() == "SyncInfoToProto" {
						fmt.Println("DEBUG presence", p.InstrPos(in), "edge", b.Index, "->", s.Index, "reach", reach[s])
					}
					if !reach[s] && reach[b] {
						// leaving the way to the store: only on a shape test
						shape := len(b.Succs) < 2
						if iff, isIf := b.Instrs[len(b.Instrs)-1].(*ssa.If); isIf && len(b.Succs) == 2 {
							// what this very test establishes (not what was known before it)
							var fs []Fact
							fl.decompose(iff.Cond, s == b.Succs[0], &fs)
							shape = len(fs) > 0
							for _, f := range fs {
								if f.Op != "after" && !presenceLike(f, isTo) {
									shape = false
								}
							}
						}
						if shape {
							continue
						}
					}
					seenB[s] = true
					work = append(work, s)
				}
			}
		})
		if n == 0 {
			continue
		}
		c.Check(len(bad) == 0, "C12.6/presence", fn.Name()+": optional parts are converted whenever present", p.FuncPos(fn),
			"every field store / setter call depends at most on the presence of the part it converts (and on the signature variant)",
			"a part is converted only under an additional condition, so some objects lose it in transit: "+join(bad))
	}
}

// presenceLike: facts a converter may legitimately branch on.
func presenceLike(f Fact, isTo bool) bool {
	simple := func(k string) bool {
		// exactly one accessor / getter / field step on the converted object p0
		k = strings.TrimSuffix(strings.TrimSuffix(k, "#1"), "#0")
		if strings.HasPrefix(k, "p0.") || strings.HasPrefix(k, "p0->") {
			return strings.Count(k, "->")+strings.Count(k[2:], ".hs") <= 1 || !strings.Contains(k[3:], "(")
		}
		if strings.HasSuffix(k, "(p0)") && strings.Count(k, "(") <= 2 {
			return true
		}
		return false
	}
	switch f.Op {
	case "true", "false":
		if strings.HasPrefix(f.L, "assert[") {
			return true // signature variant
		}
		if strings.HasPrefix(f.L, "v@") && strings.HasSuffix(f.L, "#0") {
			return true // range-over-map iteration flag
		}
		return simple(f.L)
	case "!=", "==":
		if f.L == "nil" || f.R == "nil" {
			k := nonNil(f)
			if k == "p0" || strings.HasPrefix(k, "alloc@") || strings.Contains(k, "err") {
				return true
			}
			// error of a restoring library call (BLS decompress)
			if strings.HasSuffix(k, "#1") && strings.Contains(k, "Restore") {
				return true
			}
			return simple(k)
		}
		return false
	case "<", "<=":
		// loop bounds over repeated fields
		return strings.Contains(f.L, "phi@") || strings.Contains(f.R, "phi@") || strings.Contains(f.L, "builtin len(") || strings.Contains(f.R, "builtin len(")
	}
	return false
}
