package main

import (
	"fmt"
	"os"
	"strings"

	"golang.org/x/tools/go/ssa"
)

// Key fragments (type-resolved names as produced by Keyer).
const (
	kBlockView   = "(*hs.Block).View("
	kBlockParent = "(*hs.Block).Parent("
	kBlockHash   = "(*hs.Block).Hash("
	kBlockQC     = "(*hs.Block).QuorumCert("
	kQCView      = "(hs.QuorumCert).View("
	kQCHash      = "(hs.QuorumCert).BlockHash("
	kTCView      = "(hs.TimeoutCert).View("
	kAggView     = "(hs.AggregateQC).View("
	kPropBlock   = "->hs.ProposeMsg.Block"
	kPropID      = "->hs.ProposeMsg.ID"
	kLastVoted   = "hs/protocol/consensus.Voter.lastVotedView"
	kQuorumSize  = "(*hs/core.RuntimeConfig).QuorumSize("
)

func init() { register("C03", checkC03) }

func checkC03(c *Ctx) {
	p := c.P
	c.Decided = "who may reach the block-signing primitive (only Voter.Vote, only after Voter.Verify on the same proposal); the six gates on every accepting path of Voter.Verify " +
		"(freshness, vote rule, certificate check, leader, parent link, higher view) with their comparison polarity; lastVotedView written only in Vote (after a successful signature, to the block's view) " +
		"and StopVoting (monotone); every path of OnLocalTimeout that signs a timeout stops voting for that view. OnValidPropose hands to the aggregator only the certificate of a vote that succeeded."
	c.NotDec = "semantics of the rulesets' VoteRule (C04) and of certificate verification (C02)."
	c.Expect("C03.1", 2)
	c.Expect("C03.5", 6)
	c.Expect("C03.6", 3)

	voterVote := p.Method("protocol/consensus", "Voter", "Vote")
	voterVerify := p.Method("protocol/consensus", "Voter", "Verify")
	onValid := p.Method("protocol/consensus", "Voter", "OnValidPropose")
	stopVoting := p.Method("protocol/consensus", "Voter", "StopVoting")
	propose := p.Method("protocol/consensus", "Proposer", "Propose")
	createPC := p.Method("security/cert", "Authority", "CreatePartialCert")

	// the vote watermark: the field the property names, or -- when the state was wrapped in a small type --
	// the location of the Voter that Vote sets to the view of the block it signed
	lv := p.Field("protocol/consensus", "Voter", "lastVotedView")
	lastVotedLoc := kLastVoted
	if lv == nil && voterVote != nil {
		rfl := NewFlow(p, voterVote)
		for _, d := range deepInstrs(rfl, func(in ssa.Instruction) bool {
			st, ok := in.(*ssa.Store)
			if !ok {
				return false
			}
			_, ok = st.Addr.(*ssa.FieldAddr)
			return ok
		}, 0) {
			st := d.Instr.(*ssa.Store)
			fa := st.Addr.(*ssa.FieldAddr)
			loc := strings.TrimPrefix(d.Key(st.Addr), "&")
			if d.Key(st.Val) == kBlockView+"p1)" && strings.HasPrefix(strings.TrimLeft(loc, "&"), "p0->hs/protocol/consensus.Voter.") {
				lv, lastVotedLoc = fieldVar(fa.X.Type(), fa.Field), loc
			}
		}
	}

	// C03.1 who may sign
	c.whoMayCall("C03.1", createPC, "Authority.CreatePartialCert", "(*hs/protocol/consensus.Voter).Vote")
	{
		base := p.Iface("security/crypto", "Base")
		impls := p.Implementations(base, false)
		if len(impls) < 4 {
			c.Unresolved("C03.1", "crypto.Base.Sign", "fewer than 4 crypto.Base implementations found")
		}
		allowed := []string{
			"(*hs/security/cert.Authority).CreatePartialCert",
			"(*hs/protocol/synchronizer.Simple).LocalTimeoutRule",
			"(*hs/protocol/synchronizer.Aggregate).LocalTimeoutRule",
			"(*hs/security/cert.Cache).Sign",
		}
		seen := map[string]bool{}
		var bad []string
		n := 0
		for _, t := range impls {
			fn := p.MethodOf(t, "Sign")
			if fn == nil {
				continue
			}
			for _, r := range p.refsTo(fn) {
				n++
				nm := shortName(declaredParent(r.In))
				if len(subset([]string{nm}, allowed)) > 0 && !seen[nm] {
					seen[nm] = true
					bad = append(bad, nm+" ("+p.Pos(r.Instr.Pos())+")")
				}
			}
		}
		c.Stat("call_sites", n)
		c.Check(len(bad) == 0, "C03.1", "crypto.Base.Sign", "security/crypto/base.go",
			"every call of a Base.Sign implementation ("+itoa(len(impls))+" implementations, "+itoa(n)+" sites incl. interface dispatch) is in {"+join(allowed)+"}",
			"signing primitive reachable from: "+join(bad))
	}

	// C03.2 who may vote
	c.whoMayCall("C03.2", voterVote, "Voter.Vote", "(*hs/protocol/consensus.Voter).OnValidPropose", "(*hs/protocol/consensus.Proposer).Propose")

	// C03.3 Propose: Vote(proposal.Block) only after Verify(proposal) == nil
	if propose != nil && voterVote != nil && voterVerify != nil {
		fl := NewFlow(p, propose)
		sites := deepSites(fl, func(cc *ssa.CallCommon) bool { return calleeIs(cc, voterVote) }, 0)
		if len(sites) == 0 {
			c.Unresolved("C03.3", "Proposer.Propose", "no Vote call")
		}
		for _, ds := range sites {
			s := ds.Site
			facts := ds.Facts
			arg := ds.Args[1]
			base := strings.TrimSuffix(arg, kPropBlock)
			ok := strings.HasSuffix(arg, kPropBlock) && facts.Has(func(f Fact) bool {
				return f.Op == "==" && f.L != f.R && oneIsNil(f) && strings.Contains(nonNil(f), "(*hs/protocol/consensus.Voter).Verify(") &&
					strings.Contains(nonNil(f), ", "+base+")")
			})
			c.Check(ok, "C03.3", "Proposer.Propose->Vote", p.Pos(s.Pos()),
				"Vote("+arg+") is reached only on paths where Voter.Verify of the same proposal returned nil",
				"Vote("+arg+") is reachable without a successful Voter.Verify on the same proposal; facts: "+join(facts.Sorted()))
		}
	} else {
		c.Unresolved("C03.3", "Proposer.Propose", "anchor missing")
	}

	// C03.4 OnValidPropose only from the ProposeMsg handler, after Verify(&proposal)==nil
	if onValid != nil {
		handlers := p.registeredHandlerBodies(namedType(p, "", "ProposeMsg"))
		var hnames []string
		var syncHandler *ssa.Function
		for _, hb := range handlers {
			hnames = append(hnames, shortName(hb.Fn))
			if funcPkgPath(hb.Fn) == modPath+"/protocol/synchronizer" {
				syncHandler = hb.Fn
			}
		}
		refs := p.refsTo(onValid)
		okWho := true
		// the call sites reached from the handler, directly or through private helpers of its package
		reached := map[ssa.Instruction]bool{}
		var sites []DeepSite
		if syncHandler != nil {
			sites = deepSites(NewFlow(p, syncHandler), func(cc *ssa.CallCommon) bool { return calleeIs(cc, onValid) }, 0)
			for _, ds := range sites {
				reached[ds.Site] = true
			}
		}
		for _, r := range refs {
			if (r.In != syncHandler && !reached[r.Instr]) || r.Kind == "value" {
				okWho = false
				c.Violated("C03.4", "Voter.OnValidPropose callers", p.Pos(r.Instr.Pos()), "OnValidPropose used outside the synchronizer's ProposeMsg handler: "+shortName(r.In))
			} else if r.In != syncHandler && !p.ownedByAny(r.In, []string{shortName(declaredParent(syncHandler))}) {
				okWho = false
				c.Violated("C03.4", "Voter.OnValidPropose callers", p.Pos(r.Instr.Pos()), "OnValidPropose is called in "+shortName(r.In)+", which is not used by the ProposeMsg handler alone")
			}
		}
		if syncHandler == nil {
			c.Unresolved("C03.4", "ProposeMsg handler", "no eventloop.Register[hotstuff.ProposeMsg] handler in protocol/synchronizer")
		} else {
			if okWho {
				c.Held("C03.4", "Voter.OnValidPropose callers", p.FuncPos(onValid), "only caller is the Register[ProposeMsg] handler "+shortName(syncHandler))
			}
			for _, ds := range sites {
				s := ds.Site
				facts := ds.Facts
				arg := ds.Args[1]
				ok := facts.Has(func(f Fact) bool {
					return f.Op == "==" && oneIsNil(f) && strings.Contains(nonNil(f), "(*hs/protocol/consensus.Voter).Verify(") &&
						strings.Contains(nonNil(f), ", "+arg+")")
				})
				c.Check(ok, "C03.4", "handler->OnValidPropose", p.Pos(s.Pos()),
					"OnValidPropose("+arg+") only after Voter.Verify("+arg+") == nil",
					"OnValidPropose reachable without successful Verify of the same proposal; facts: "+join(facts.Sorted()))
			}
		}
	} else {
		c.Unresolved("C03.4", "Voter.OnValidPropose", "anchor missing")
	}

	// C03.5 gates in Voter.Verify
	if voterVerify != nil {
		fl := NewFlow(p, voterVerify)
		exits := successExits(fl, 0)
		if len(exits) == 0 {
			c.Unresolved("C03.5", "Voter.Verify", "no accepting exit found")
		}
		blk := "p1" + kPropBlock
		bv := kBlockView + blk + ")"
		type gate struct {
			id, what string
			ok       func(FactSet, SuccessExit) bool
		}
		qcOf := kBlockQC + blk + ")"
		gates := []gate{
			{"G1", "freshness: lastVotedView < Block.View()", func(s FactSet, _ SuccessExit) bool {
				return hasCmp(s, "<", contains(lastVotedLoc), is(bv))
			}},
			{"G2", "VoteRule(view, proposal) returned true", func(s FactSet, _ SuccessExit) bool {
				return s.Has(func(f Fact) bool {
					return f.Op == "true" && strings.Contains(f.L, "VoteRuler).VoteRule(") && strings.Contains(f.L, "*p1")
				})
			}},
			{"G3", "VerifyAnyQC(proposal) returned nil", func(s FactSet, e SuccessExit) bool {
				isV := func(k string) bool {
					return strings.Contains(k, "(*hs/security/cert.Authority).VerifyAnyQC(") && strings.Contains(k, ", p1)")
				}
				if e.Via != nil && isV(fl.K.Key(e.Via)) {
					return true
				}
				return s.Has(func(f Fact) bool { return f.Op == "==" && oneIsNil(f) && isV(nonNil(f)) })
			}},
			{"G4", "proposal.ID == GetLeader(Block.View())", func(s FactSet, _ SuccessExit) bool {
				return hasCmp(s, "==", is("p1"+kPropID), func(k string) bool {
					return strings.Contains(k, "LeaderRotation).GetLeader(") && strings.Contains(k, ", "+bv+")")
				})
			}},
			{"G5", "parent link: Block.Parent() == Block.QuorumCert().BlockHash()", func(s FactSet, _ SuccessExit) bool {
				return hasCmp(s, "==", is(kBlockParent+blk+")"), is(kQCHash+qcOf+")"))
			}},
			{"G6", "view higher than the certified block's: QC.View() < Block.View()", func(s FactSet, _ SuccessExit) bool {
				if hasCmp(s, "<", is(kQCView+qcOf+")"), is(bv)) {
					return true
				}
				// or: view of the certified block (looked up by the QC's hash) < Block.View()
				return hasCmp(s, "<", func(k string) bool {
					return strings.HasPrefix(k, kBlockView) && strings.Contains(k, kQCHash+qcOf+")")
				}, is(bv))
			}},
		}
		for _, g := range gates {
			var missing []string
			for _, e := range exits {
				if !g.ok(e.Facts, e) {
					missing = append(missing, p.Pos(e.Ret.Pos()))
				}
			}
			ok := len(missing) == 0 && len(exits) > 0
			if !ok && (g.id == "G5" || g.id == "G6") {
				// the link checks may instead live in every ruleset's VoteRule
				if c03GateInAllVoteRules(c, g.id) {
					ok = true
				}
			}
			if os.Getenv("HSVERIF_DEBUG") != "" && !ok {
				for _, e := range exits {
					fmt.Println("DEBUG C03.5", g.id, p.Pos(e.Ret.Pos()), join(e.Facts.Sorted()))
				}
			}
			c.Check(ok, "C03.5/"+g.id, "Voter.Verify", p.FuncPos(voterVerify),
				"every accepting exit ("+itoa(len(exits))+") is dominated by the gate: "+g.what,
				"accepting exit(s) at "+join(missing)+" reachable without the gate: "+g.what)
		}
	} else {
		c.Unresolved("C03.5", "Voter.Verify", "anchor missing")
	}

	// C03.6 lastVotedView discipline
	ws := c.whoMayWrite("C03.6", lv, "Voter.lastVotedView", "(*hs/protocol/consensus.Voter).Vote", "(*hs/protocol/consensus.Voter).StopVoting")
	// the stores, in Vote / StopVoting or in the private helpers they call, with the facts in the method's terms
	judged := map[ssa.Instruction]bool{}
	for _, root := range []*ssa.Function{voterVote, stopVoting} {
		if root == nil || lv == nil {
			continue
		}
		rfl := NewFlow(p, root)
		for _, d := range deepInstrs(rfl, func(in ssa.Instruction) bool {
			st, ok := in.(*ssa.Store)
			if !ok {
				return false
			}
			fa, ok := st.Addr.(*ssa.FieldAddr)
			return ok && fieldVar(fa.X.Type(), fa.Field) == lv
		}, 0) {
			st := d.Instr.(*ssa.Store)
			judged[st] = true
			facts := d.Facts
			val := d.Key(st.Val)
			if root == voterVote {
				ok := val == kBlockView+"p1)" && facts.Has(func(f Fact) bool {
					return f.Op == "==" && oneIsNil(f) && strings.Contains(nonNil(f), "Authority).CreatePartialCert(") && strings.Contains(nonNil(f), ", p1)")
				})
				c.Check(ok, "C03.6", "Vote: lastVotedView := block.View() after successful signature", p.Pos(st.Pos()),
					"stored value is "+val+", dominated by CreatePartialCert(block) == nil",
					"store of "+val+" not dominated by a successful CreatePartialCert on the same block; facts: "+join(facts.Sorted()))
			} else {
				ok := val == "p1" && hasCmp(facts, "<", contains(lastVotedLoc), is("p1"))
				c.Check(ok, "C03.6", "StopVoting: monotone update", p.Pos(st.Pos()),
					"lastVotedView := view only under lastVotedView < view",
					"store of "+val+" not gated by lastVotedView < view; facts: "+join(facts.Sorted()))
			}
		}
	}
	for _, w := range ws {
		if _, isStore := w.Instr.(*ssa.Store); isStore && !w.Fresh && !judged[w.Instr] && (w.Fn == voterVote || w.Fn == stopVoting) {
			c.Undecided("C03.6", "lastVotedView: store", p.Pos(w.Instr.Pos()), "a store of the vote watermark that the rule could not judge")
		}
	}

	// C03.8 the gates compare the proposal with what its certificate claims (view, block): the certificate verifier
	// must bind those claims to the signed block (shared with C02.1 / C02.3)
	c.importFrom(checkC02, "C03.8", "C02.1", "C02.3", "C02.7")

	// C03.9 what OnValidPropose hands to the aggregator is the certificate of a vote that succeeded: after a refused vote
	// (already voted in this view) nothing is sent under this replica's name
	if onValid != nil && voterVote != nil {
		fo := NewFlow(p, onValid)
		n := 0
		for _, ds := range deepSites(fo, func(cc *ssa.CallCommon) bool { return cc.IsInvoke() && cc.Method.Name() == "Aggregate" }, 0) {
			n++
			voteKey := ""
			if na := len(ds.Args); na > 0 && strings.HasSuffix(ds.Args[na-1], "#0") {
				voteKey = strings.TrimSuffix(ds.Args[na-1], "#0")
			}
			ok := strings.HasPrefix(voteKey, shortName(voterVote)+"(") && errNilOf(ds.Facts, is(voteKey+"#1"))
			c.Check(ok, "C03.9", "OnValidPropose: only a successful vote is aggregated", p.Pos(ds.Site.Pos()),
				"aggregator.Aggregate(proposal, pc) with pc the result of Vote(block), only under Vote's error == nil",
				"Aggregate("+join(ds.Args)+") is reachable after a failed Vote, or with a certificate that is not Vote's result")
		}
		if n == 0 {
			c.Unresolved("C03.9", "OnValidPropose", "no Aggregate call")
		}
	}

	// C03.7 OnLocalTimeout: a signed timeout implies StopVoting(currentView) before leaving
	olt := p.Method("protocol/synchronizer", "Synchronizer", "OnLocalTimeout")
	if olt != nil && stopVoting != nil {
		// the timeout may be created in OnLocalTimeout or in a private helper of its package: the rule is
		// evaluated in the function that calls LocalTimeoutRule (leaving it counts as leaving)
		type ruleSite struct {
			host *ssa.Function
			call ssa.CallInstruction
		}
		var ruleCalls []ruleSite
		for _, hf := range helperClosure(p, olt, 2) {
			for _, rc := range callsIn(hf, false, func(cc *ssa.CallCommon) bool {
				return cc.IsInvoke() && cc.Method.Name() == "LocalTimeoutRule"
			}) {
				ruleCalls = append(ruleCalls, ruleSite{hf, rc})
			}
		}
		if len(ruleCalls) == 0 {
			c.Unresolved("C03.7", "OnLocalTimeout", "no LocalTimeoutRule call")
		}
		for _, rs := range ruleCalls {
			rc, host := rs.call, rs.host
			fl := NewFlow(p, host)
			viewArg := fl.K.Key(rc.Common().Args[0])
			// find the edge on which the error result is nil
			okStopDirect := func(in ssa.Instruction) bool {
				ci, ok := in.(ssa.CallInstruction)
				return ok && calleeIs(ci.Common(), stopVoting) && fl.K.Key(ci.Common().Args[1]) == viewArg
			}
			okStop := func(in ssa.Instruction) bool {
				if okStopDirect(in) {
					return true
				}
				// a private helper of the package that is handed the view and calls StopVoting on it on every path
				ci, ok := in.(ssa.CallInstruction)
				if !ok {
					return false
				}
				cal := ci.Common().StaticCallee()
				if cal == nil || cal.Blocks == nil || cal == host || funcPkgPath(cal) != funcPkgPath(host) {
					return false
				}
				for i, a := range ci.Common().Args {
					if fl.K.Key(a) != viewArg {
						continue
					}
					hk := NewKeyer(p, cal)
					want := "p" + itoa(i)
					if helperAlways(in, func(x ssa.Instruction) bool {
						c2, ok := x.(ssa.CallInstruction)
						return ok && x.Parent() == cal && calleeIs(c2.Common(), stopVoting) && hk.Key(c2.Common().Args[1]) == want
					}, 0) {
						return true
					}
				}
				return false
			}
			leaves := func(in ssa.Instruction) bool {
				if isReturn(in) {
					return true
				}
				// sending the timeout also counts as leaving: it must not precede StopVoting
				ci, ok := in.(ssa.CallInstruction)
				return ok && ci.Common().IsInvoke() && ci.Common().Method.Name() == "Timeout"
			}
			bad := ""
			found := false
			for _, b := range host.Blocks {
				for _, succ := range b.Succs {
					ef := fl.edgeFacts(b, succ)
					for _, f := range ef {
						if f.Op == "==" && oneIsNil(f) && strings.HasPrefix(nonNil(f), fl.K.Key(rc.Value())) {
							found = true
							if w := reachAvoidBlock(succ, leaves, okStop); w != nil {
								bad = p.Pos(w.Pos())
							}
						}
					}
				}
			}
			if !found {
				c.Undecided("C03.7", "OnLocalTimeout", p.Pos(rc.Pos()), "no branch on the error result of LocalTimeoutRule found")
				continue
			}
			c.Check(bad == "", "C03.7", "OnLocalTimeout", p.Pos(rc.Pos()),
				"after LocalTimeoutRule("+viewArg+") succeeds, every path calls StopVoting("+viewArg+") before sending the timeout or returning",
				"path from successful LocalTimeoutRule to "+bad+" without StopVoting on the same view")
		}
	} else {
		c.Unresolved("C03.7", "OnLocalTimeout", "anchor missing")
	}
}

func oneIsNil(f Fact) bool { return f.L == "nil" || f.R == "nil" }
func nonNil(f Fact) string {
	if f.L == "nil" {
		return f.R
	}
	return f.L
}

// c03GateInAllVoteRules: the parent-link / higher-view gate holds on every
// true-returning path of every production Ruleset's VoteRule.
func c03GateInAllVoteRules(c *Ctx, gid string) bool {
	p := c.P
	rs := p.Iface("protocol/consensus", "Ruleset")
	impls := p.Implementations(rs, false)
	if len(impls) == 0 {
		return false
	}
	for _, t := range impls {
		if t.Obj().Pkg().Path() == modPath+"/twins" {
			continue
		}
		fn := p.MethodOf(t, "VoteRule")
		if fn == nil {
			return false
		}
		fl := NewFlow(p, fn)
		blk := "p2.hs.ProposeMsg.Block"
		qcOf := kBlockQC + blk + ")"
		bv := kBlockView + blk + ")"
		for _, te := range trueEdges(fl) {
			var ok bool
			if gid == "G5" {
				ok = hasCmp(te, "==", is(kBlockParent+blk+")"), is(kQCHash+qcOf+")"))
			} else {
				ok = hasCmp(te, "<", is(kQCView+qcOf+")"), is(bv)) ||
					hasCmp(te, "==", is(bv), is("("+kQCView+qcOf+") + c:1)"))
			}
			if !ok {
				return false
			}
		}
	}
	return true
}

// trueEdges returns, for a bool-returning function, the fact sets of every way the
// function can return true: returns of the constant true, of a non-constant value
// (with the fact that it is true unknown), and phi edges carrying true.
func trueEdges(fl *Flow) []FactSet { return boolEdges(fl, true) }

// boolEdges: the fact sets under which the boolean function fl.Fn returns `truth`, one per way.
func boolEdges(fl *Flow, truth bool) []FactSet {
	var out []FactSet
	for _, r := range returnsOf(fl.Fn) {
		if !fl.Reachable(r.Block()) || len(r.Results) == 0 {
			continue
		}
		out = append(out, boolWays(fl, r.Results[0], fl.At(r), r.Block(), 0, truth)...)
	}
	return out
}

func trueWays(fl *Flow, v ssa.Value, at FactSet, blk *ssa.BasicBlock, depth int) []FactSet {
	return boolWays(fl, v, at, blk, depth, true)
}

func boolWays(fl *Flow, v ssa.Value, at FactSet, blk *ssa.BasicBlock, depth int, truth bool) []FactSet {
	if isBoolConst(v, truth) {
		return []FactSet{at}
	}
	if isBoolConst(v, !truth) {
		return nil
	}
	if ph, ok := v.(*ssa.Phi); ok && depth < 4 {
		var out []FactSet
		for i, e := range ph.Edges {
			pred := ph.Block().Preds[i]
			if !fl.Reachable(pred) {
				continue
			}
			out = append(out, boolWays(fl, e, fl.AtEdge(pred, ph.Block()), pred, depth+1, truth)...)
		}
		return out
	}
	// non-constant: `truth` iff the value's own condition holds that way
	s := at.clone()
	var fs []Fact
	fl.decompose(v, truth, &fs)
	for _, f := range fs {
		s[f] = true
	}
	return []FactSet{s}
}
