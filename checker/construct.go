package main

import (
	"go/types"

	"golang.org/x/tools/go/ssa"
)

// Emit is a place where a value of struct type T is converted to an interface
// (the way events are handed to EventLoop.AddEvent) or otherwise constructed.
type Emit struct {
	Fn    *ssa.Function
	Instr ssa.Instruction // the MakeInterface (or the Alloc when never boxed)
	Alloc *ssa.Alloc      // composite literal backing store, if any
}

// constructSites finds every composite literal / boxing of struct type T in production scope.
func (p *Prog) constructSites(T types.Type) []Emit {
	var out []Emit
	if T == nil {
		return nil
	}
	for _, fn := range p.ModFuncs {
		boxed := map[*ssa.Alloc]bool{}
		eachInstr(fn, func(in ssa.Instruction) {
			if mi, ok := in.(*ssa.MakeInterface); ok && types.Identical(mi.X.Type(), T) {
				var a *ssa.Alloc
				if u, ok := mi.X.(*ssa.UnOp); ok {
					a, _ = u.X.(*ssa.Alloc)
				}
				if a != nil {
					boxed[a] = true
				}
				out = append(out, Emit{fn, in, a})
			}
		})
		eachInstr(fn, func(in ssa.Instruction) {
			if a, ok := in.(*ssa.Alloc); ok && !boxed[a] {
				if pt, ok := a.Type().Underlying().(*types.Pointer); ok && types.Identical(pt.Elem(), T) && a.Comment == "complit" {
					out = append(out, Emit{fn, in, a})
				}
			}
		})
	}
	return out
}

// complitField returns the value stored into field name of the composite literal
// backed by alloc (nil if the field is not set, i.e. zero).
func complitField(a *ssa.Alloc, name string) ssa.Value {
	if a == nil {
		return nil
	}
	var val ssa.Value
	for _, ref := range *a.Referrers() {
		fa, ok := ref.(*ssa.FieldAddr)
		if !ok {
			continue
		}
		fv := fieldVar(fa.X.Type(), fa.Field)
		if fv == nil || fv.Name() != name {
			continue
		}
		for _, r2 := range *fa.Referrers() {
			if st, ok := r2.(*ssa.Store); ok && st.Addr == fa {
				val = st.Val
			}
		}
	}
	return val
}

// emitNames returns the sorted set of declared functions containing the sites.
func emitNames(es []Emit) []string {
	m := map[string]bool{}
	for _, e := range es {
		m[shortName(declaredParent(e.Fn))] = true
	}
	var out []string
	for k := range m {
		out = append(out, k)
	}
	sortStrings(out)
	return out
}
