package main

import (
	"go/token"
	"go/types"
	"strings"

	"golang.org/x/tools/go/ssa"
)

func init() { register("C14", checkC14) }

const (
	kEL    = "hs/core/eventloop.EventLoop."
	kQueue = "hs/core/eventloop.queue."
)

func checkC14(c *Ctx) {
	p := c.P
	c.Decided = "lock discipline of the queue and of the event loop's tables (race freedom of concurrent producers and the consumer by construction); handlers are never invoked with the event-loop lock held; " +
		"processEvent snapshots prioritised and ordinary handlers under one critical section, only live handlers of the matching mode, and runs every prioritised handler before any ordinary one; delayed events are released after the triggering event's handlers, " +
		"read and removed in one critical section and re-added in deferral order; every popped event reaches processEvent or startTicker; AddEvent runs the in-AddEvent handlers before queuing; " +
		"the value push reports as dropped is loaded from the slot that the same call overwrites."
	c.Decided += " The transition tables of queue.push/pop/len equal those of a reference ring buffer. Handler-table integrity: entries are written only by Register, a slot is occupied by a complete handler, and the release function clears its slot at most once per registration."
	c.NotDec = "FIFO order over whole histories of the ring buffer (decided only step-wise: the transition tables of push/pop/len equal those of a reference ring buffer, C14.7); scheduling fairness between goroutines."
	c.Expect("C14.1", 8)
	c.Expect("C14.2", 3)
	c.Expect("C14.8", 4)

	// C14.1 lock discipline
	c.checkGuard("C14.1", guards["queue"])
	c.checkGuard("C14.1", guards["EventLoop"])
	c14NoHandlerUnderLock(c)

	pe := p.Method("core/eventloop", "EventLoop", "processEvent")
	c14DistinctLists(c, pe)
	// the dispatch may have two entry points instead of a mode flag: processEvent(event) for queued events, which
	// releases the delayed events afterwards, and a private function of the loop that runs the handlers of one mode,
	// called by processEvent with `false` and by AddEvent with `true`
	var disp *ssa.Function
	dispMode, dispEvent := -1, -1
	if pe == nil {
		c.Unresolved("C14.2", "processEvent", "anchor missing")
	} else {
		if len(pe.Params) == 2 {
			kpe := NewKeyer(p, pe)
			for _, s := range callsIn(pe, false, func(cc *ssa.CallCommon) bool {
				cal := cc.StaticCallee()
				return cal != nil && cal.Blocks != nil && funcPkgPath(cal) == funcPkgPath(pe) && cal.Object() != nil && !cal.Object().Exported()
			}) {
				if _, isCall := s.(*ssa.Call); !isCall {
					continue
				}
				m, e := -1, -1
				for i, a := range s.Common().Args {
					if isBoolConst(a, false) {
						m = i
					}
					if kpe.Key(a) == "p1" {
						e = i
					}
				}
				if m >= 0 && e >= 0 {
					disp, dispMode, dispEvent = s.Common().StaticCallee(), m, e
				}
			}
		}
		if disp != nil {
			c14ProcessEventSplit(c, pe, disp, dispMode, dispEvent)
		} else {
			c14ProcessEvent(c, pe, "p2", true)
		}
	}
	c14Delayed(c)
	c14Popped(c)
	c14Push(c)
	c14QueueTables(c)
	c14Registration(c)

	// C14.6 AddEvent order
	if ae := p.Method("core/eventloop", "EventLoop", "AddEvent"); ae != nil {
		fl := NewFlow(p, ae)
		push := p.Method("core/eventloop", "queue", "push")
		n := 0
		for _, ds := range deepSites(fl, func(cc *ssa.CallCommon) bool { return calleeIs(cc, push) }, 0) {
			s := ds.Site
			n++
			facts := ds.Facts
			ranHandlers := afterOf(facts, func(k string) bool {
				return strings.HasPrefix(k, "(*hs/core/eventloop.EventLoop).processEvent(p0, p1, c:true)")
			})
			if !ranHandlers && disp != nil {
				// the in-AddEvent entry point: the handler-running function called with the event and mode `true`
				for _, hs := range callsIn(ae, false, func(cc *ssa.CallCommon) bool { return calleeIs(cc, disp) }) {
					a := hs.Common().Args
					if hc, isCall := hs.(*ssa.Call); isCall && dispMode < len(a) && dispEvent < len(a) && isBoolConst(a[dispMode], true) && fl.K.Key(a[dispEvent]) == "p1" {
						hk := fl.K.Key(hc)
						if afterOf(facts, is(hk)) {
							ranHandlers = true
						}
					}
				}
			}
			ok := ranHandlers &&
				ds.Args[1] == "p1" && notNilOf(facts, is("p1"))
			c.Check(ok, "C14.6", "AddEvent: in-AddEvent handlers run before the event is queued", p.Pos(s.Pos()),
				"push(event) is preceded on every path by processEvent(event, true); nil events are not queued", "push not preceded by processEvent(event, true); facts: "+join(facts.Sorted()))
		}
		if n == 0 {
			c.Unresolved("C14.6", "AddEvent", "no push call")
		}
	}
}

// c14NoHandlerUnderLock: in package eventloop no value of type EventHandler[...] is
// called while EventLoop.mut or queue.mut is held, and no blocking channel operation
// happens under those locks (select with default is non-blocking).
func c14NoHandlerUnderLock(c *Ctx) {
	p := c.P
	pkg := modPath + "/core/eventloop"
	var bad []string
	n := 0
	for _, fn := range p.ModFuncs {
		if funcPkgPath(fn) != pkg || fn.Parent() != nil {
			continue
		}
		var visit func(f *ssa.Function, init lockState)
		visit = func(f *ssa.Function, init lockState) {
			lf := lockFlow(f, init)
			eachInstr(f, func(in ssa.Instruction) {
				held := lf[in]
				hasLock := held[kEL+"mut"] != lockNone || held[kQueue+"mut"] != lockNone
				switch x := in.(type) {
				case *ssa.Call:
					if x.Call.StaticCallee() == nil && !x.Call.IsInvoke() {
						if _, isB := x.Call.Value.(*ssa.Builtin); !isB && strings.Contains(x.Call.Value.Type().String(), "EventHandler[") {
							n++
							if hasLock {
								bad = append(bad, "handler call at "+p.InstrPos(in))
							}
						}
					}
				case *ssa.Send:
					n++
					if hasLock {
						bad = append(bad, "blocking send at "+p.InstrPos(in))
					}
				case *ssa.UnOp:
					if x.Op.String() == "<-" {
						n++
						if hasLock {
							bad = append(bad, "blocking receive at "+p.InstrPos(in))
						}
					}
				case *ssa.Select:
					n++
					if x.Blocking && hasLock {
						bad = append(bad, "blocking select at "+p.InstrPos(in))
					}
				case *ssa.MakeClosure:
					if cl, ok := x.Fn.(*ssa.Function); ok {
						visit(cl, closureInit(lf, x))
					}
				}
			})
		}
		visit(fn, lockState{})
	}
	c.Check(len(bad) == 0 && n > 0, "C14.1", "eventloop: no handler call or blocking channel operation under a lock", "core/eventloop",
		itoa(n)+" handler calls / channel operations examined; none under EventLoop.mut or queue.mut", join(bad))
}

// c14ProcessEventSplit: processEvent(event) = defer dispatchDelayedEvents(TypeOf(event)); disp(.., event, false).
// The handler rules are judged in disp with its mode parameter; the release of delayed events in processEvent.
func c14ProcessEventSplit(c *Ctx, pe, disp *ssa.Function, mode, event int) {
	p := c.P
	c14ProcessEvent(c, disp, "p"+itoa(mode), false)
	dd := p.Method("core/eventloop", "EventLoop", "dispatchDelayedEvents")
	fl := NewFlow(p, pe)
	var def *ssa.Defer
	eachInstr(pe, func(in ssa.Instruction) {
		if d, ok := in.(*ssa.Defer); ok && calleeIs(&d.Call, dd) {
			def = d
		}
	})
	okDefer := def != nil && strings.HasPrefix(fl.K.Key(def.Call.Args[1]), "reflect.TypeOf(p1)")
	// the deferred release is registered before the handlers run, on every path, and the handler-running function itself
	// releases nothing (it also serves AddEvent, where delayed events must stay)
	okOrder := okDefer
	for _, s := range callsIn(pe, false, func(cc *ssa.CallCommon) bool { return calleeIs(cc, disp) }) {
		if !okDefer || !precedes(def, s) || !isBoolConst(s.Common().Args[mode], false) {
			okOrder = false
		}
	}
	inner := false
	for _, hf := range helperClosure(p, disp, 2) {
		if len(callsIn(hf, true, func(cc *ssa.CallCommon) bool { return calleeIs(cc, dd) })) > 0 {
			inner = true
		}
	}
	c.Check(okDefer && okOrder && !inner, "C14.2/delayed", "processEvent: delayed events released after the handlers, not in AddEvent mode", p.FuncPos(pe),
		"processEvent defers dispatchDelayedEvents(TypeOf(event)) before running the handlers in queue mode; the handler-running function shared with AddEvent releases nothing",
		"deferred release: "+boolStr(okDefer)+", before the handlers in queue mode: "+boolStr(okOrder)+", release inside the shared function: "+boolStr(inner))
}

func c14ProcessEvent(c *Ctx, pe *ssa.Function, modeParam string, withDelayed bool) {
	p := c.P
	fl := NewFlow(p, pe)
	lf := lockFlow(pe, lockState{})
	type hcall struct {
		call ssa.Instruction
		list ssa.Value
	}
	var calls []hcall
	eachInstr(pe, func(in ssa.Instruction) {
		call, ok := in.(*ssa.Call)
		if !ok || call.Call.StaticCallee() != nil || call.Call.IsInvoke() {
			return
		}
		if _, isB := call.Call.Value.(*ssa.Builtin); isB {
			return
		}
		if !strings.Contains(call.Call.Value.Type().String(), "EventHandler[") {
			return
		}
		// the called value is an element of a list
		if u, ok := call.Call.Value.(*ssa.UnOp); ok {
			if ia, ok := u.X.(*ssa.IndexAddr); ok {
				calls = append(calls, hcall{in, ia.X})
			}
		}
	})
	if len(calls) == 0 {
		// the loops may be a private helper of the package called once per list (`runAndRelease(list, event)`)
		runsParam := func(fn *ssa.Function) int {
			idx := -1
			eachInstr(fn, func(in ssa.Instruction) {
				call, ok := in.(*ssa.Call)
				if !ok || call.Call.StaticCallee() != nil || call.Call.IsInvoke() {
					return
				}
				if _, isB := call.Call.Value.(*ssa.Builtin); isB || !strings.Contains(call.Call.Value.Type().String(), "EventHandler[") {
					return
				}
				if u, ok := call.Call.Value.(*ssa.UnOp); ok {
					if ia, ok := u.X.(*ssa.IndexAddr); ok {
						if prm, ok := ia.X.(*ssa.Parameter); ok {
							for i, q := range fn.Params {
								if q == prm {
									idx = i
								}
							}
						}
					}
				}
			})
			return idx
		}
		eachInstr(pe, func(in ssa.Instruction) {
			call, ok := in.(*ssa.Call)
			if !ok || call.Call.StaticCallee() == nil || funcPkgPath(call.Call.StaticCallee()) != funcPkgPath(pe) || call.Call.StaticCallee().Blocks == nil {
				return
			}
			if i := runsParam(call.Call.StaticCallee()); i >= 0 && i < len(call.Call.Args) {
				calls = append(calls, hcall{in, call.Call.Args[i]})
			}
		})
	}
	if len(calls) != 2 {
		c.Undecided("C14.2", "processEvent", p.FuncPos(pe), "expected two handler-invocation loops (prioritised, ordinary), found "+itoa(len(calls)))
		return
	}
	// classify the lists by the facts at the appends that feed them
	flows := map[*ssa.Function]*Flow{pe: fl}
	lfs := map[*ssa.Function]map[ssa.Instruction]lockState{pe: lf}
	classify := func(list ssa.Value) (prio, ord, locked, live, mode bool, n int) {
		prio, ord, locked, live, mode = true, true, true, true, true
		// the lists may be built by a private helper of the package that returns them
		sliceEnterHelpers, sliceProg = funcPkgPath(pe), p
		defer func() { sliceEnterHelpers, sliceProg = "", nil }()
		backwardSlice(list, func(v ssa.Value) bool {
			call, ok := v.(*ssa.Call)
			if !ok {
				return false
			}
			b, ok := call.Call.Value.(*ssa.Builtin)
			if !ok || b.Name() != "append" {
				return false
			}
			n++
			owner := call.Parent()
			if flows[owner] == nil {
				flows[owner] = NewFlow(p, owner)
				lfs[owner] = lockFlow(owner, lockState{})
			}
			fl, lf := flows[owner], lfs[owner]
			// the mode parameter in the owner's terms: the parameter that receives processEvent's runningInAddEvent
			modeKey := modeParam
			if owner != pe {
				modeKey = ""
				for _, s := range callsIn(pe, false, func(cc *ssa.CallCommon) bool { return calleeIs(cc, owner) }) {
					for i, a := range s.Common().Args {
						if flows[pe].K.Key(a) == modeParam {
							modeKey = "p" + itoa(i)
						}
					}
				}
			}
			facts := fl.At(call)
			isPrio := trueOf(facts, func(k string) bool { return strings.HasSuffix(k, "handlerOpts.priority") })
			isOrd := falseOf(facts, func(k string) bool { return strings.HasSuffix(k, "handlerOpts.priority") })
			prio = prio && isPrio
			ord = ord && isOrd
			locked = locked && lf[call][kEL+"mut"] == lockW
			live = live && notNilOf(facts, func(k string) bool { return strings.HasSuffix(k, "handler.callback") })
			mode = mode && modeKey != "" && hasCmp(facts, "==", func(k string) bool { return strings.HasSuffix(k, "handlerOpts.runInAddEvent") }, is(modeKey))
			// the appended element is that handler's callback
			return false
		})
		return
	}
	p0, o0, l0, v0, m0, n0 := classify(calls[0].list)
	p1, o1, l1, v1, m1, n1 := classify(calls[1].list)
	var first, second hcall
	okClass := false
	switch {
	case p0 && !o0 && o1 && !p1:
		first, second, okClass = calls[0], calls[1], true
	case p1 && !o1 && o0 && !p0:
		first, second, okClass = calls[1], calls[0], true
	}
	c.Check(okClass && n0 > 0 && n1 > 0, "C14.2/partition", "processEvent: prioritised and ordinary handlers are separated", p.FuncPos(pe),
		"one list receives exactly the handlers with opts.priority, the other exactly those without", "could not classify the two handler lists by opts.priority")
	c.Check(l0 && l1 && v0 && v1 && m0 && m1, "C14.2/snapshot", "processEvent: snapshot of live handlers of the matching mode under the lock", p.FuncPos(pe),
		"every append to either list happens with EventLoop.mut held, for a handler with callback != nil and opts.runInAddEvent == runningInAddEvent",
		"appends under lock: "+boolStr(l0 && l1)+", callback != nil: "+boolStr(v0 && v1)+", mode matches: "+boolStr(m0 && m1))
	if okClass {
		dom := reachAvoid(first.call, func(in ssa.Instruction) bool { return in == second.call }, func(ssa.Instruction) bool { return false }) != nil
		back := reachAvoid(second.call, func(in ssa.Instruction) bool { return in == first.call }, func(ssa.Instruction) bool { return false })
		// every prioritised handler before any ordinary one: the ordinary loop starts only after the prioritised loop's exit
		c.Check(dom && back == nil, "C14.2/order", "processEvent: prioritised handlers run first", p.InstrPos(first.call),
			"the ordinary loop is reachable from the prioritised loop and no prioritised handler call is reachable from an ordinary one", "ordinary handlers may run before or between prioritised ones")
	}
	if !withDelayed {
		return
	}
	// delayed events are dispatched after the handlers (deferred) and only outside AddEvent
	dd := p.Method("core/eventloop", "EventLoop", "dispatchDelayedEvents")
	nDef := 0
	eachInstr(pe, func(in ssa.Instruction) {
		d, ok := in.(*ssa.Defer)
		if !ok || !calleeIs(&d.Call, dd) {
			return
		}
		nDef++
		facts := fl.At(in)
		ok = falseOf(facts, is("p2")) && strings.HasPrefix(fl.K.Key(d.Call.Args[1]), "reflect.TypeOf(p1)")
		c.Check(ok, "C14.2/delayed", "processEvent: delayed events released after the handlers, not in AddEvent mode", p.Pos(in.Pos()),
			"dispatchDelayedEvents(TypeOf(event)) is deferred (runs after both loops) only when runningInAddEvent is false", "facts: "+join(facts.Sorted()))
	})
	if nDef == 0 {
		// the gate may sit inside a deferred function literal: `defer func() { if !runningInAddEvent { dispatch… } }()`
		eachInstr(pe, func(in ssa.Instruction) {
			d, ok := in.(*ssa.Defer)
			if !ok {
				return
			}
			mc, ok := d.Call.Value.(*ssa.MakeClosure)
			if !ok {
				return
			}
			cl, _ := mc.Fn.(*ssa.Function)
			if cl == nil {
				return
			}
			cfl := NewFlow(p, cl)
			for _, s := range callsIn(cl, false, func(cc *ssa.CallCommon) bool { return calleeIs(cc, dd) }) {
				nDef++
				okGate, okArg := false, false
				for _, f := range closureFactsInOuter(fl, mc, cl, cfl.At(s)) {
					if f.Op == "false" && f.L == "p2" {
						okGate = true
					}
				}
				for _, f := range closureFactsInOuter(fl, mc, cl, FactSet{Fact{"true", cfl.K.Key(s.Common().Args[1]), ""}: true}) {
					if strings.HasPrefix(f.L, "reflect.TypeOf(p1)") {
						okArg = true
					}
				}
				c.Check(okGate && okArg, "C14.2/delayed", "processEvent: delayed events released after the handlers, not in AddEvent mode", p.Pos(in.Pos()),
					"the deferred function calls dispatchDelayedEvents(TypeOf(event)) only when runningInAddEvent is false", "gate: "+boolStr(okGate)+", type argument: "+boolStr(okArg))
			}
		})
	}
	if nDef == 0 {
		// or called explicitly after the second loop
		found := false
		for _, s := range callsIn(pe, false, func(cc *ssa.CallCommon) bool { return calleeIs(cc, dd) }) {
			if okClass && second.call.Block().Dominates(s.Block()) {
				found = true
			}
		}
		c.Check(found, "C14.2/delayed", "processEvent: delayed events released after the handlers", p.FuncPos(pe),
			"dispatchDelayedEvents is called after the ordinary loop", "dispatchDelayedEvents is not run after the handlers")
	}
}

func c14Delayed(c *Ctx) {
	p := c.P
	dd := p.Method("core/eventloop", "EventLoop", "dispatchDelayedEvents")
	if dd == nil {
		c.Unresolved("C14.3", "dispatchDelayedEvents", "anchor missing")
		return
	}
	ddRoot := dd
	// the read-and-remove may live in a private helper of the package that returns the removed list
	for _, hf := range helperClosure(p, ddRoot, 1) {
		has := false
		kk := NewKeyer(p, hf)
		eachInstr(hf, func(in ssa.Instruction) {
			if x, ok := in.(*ssa.Lookup); ok && strings.HasSuffix(kk.Key(x.X), kEL+"waitingEvents") {
				has = true
			}
		})
		if has {
			dd = hf
			break
		}
	}
	fl := NewFlow(p, dd)
	lf := lockFlow(dd, lockState{})
	var lookup *ssa.Lookup
	var del *ssa.Call
	eachInstr(dd, func(in ssa.Instruction) {
		switch x := in.(type) {
		case *ssa.Lookup:
			if strings.HasSuffix(fl.K.Key(x.X), kEL+"waitingEvents") {
				lookup = x
			}
		case *ssa.Call:
			if b, ok := x.Call.Value.(*ssa.Builtin); ok && b.Name() == "delete" && strings.HasSuffix(fl.K.Key(x.Call.Args[0]), kEL+"waitingEvents") {
				del = x
			}
		}
	})
	if lookup == nil || del == nil {
		c.Violated("C14.3", "dispatchDelayedEvents: read-and-remove", p.FuncPos(dd), "no lookup+delete of waitingEvents[t] found: deferred events would be delivered more than once or never")
		return
	}
	// same critical section: both under the lock and no Unlock on any path between them
	unlockBetween := reachAvoid(lookup, func(in ssa.Instruction) bool { return in == del }, func(in ssa.Instruction) bool {
		call, ok := in.(*ssa.Call)
		if !ok {
			return false
		}
		_, _, acq, ok := lockEffect(&call.Call)
		return ok && !acq
	})
	sameKey := fl.K.Key(lookup.Index) == fl.K.Key(del.Call.Args[1]) && fl.K.Key(lookup.Index) == "p1"
	ok := lf[lookup][kEL+"mut"] == lockW && lf[del][kEL+"mut"] == lockW && unlockBetween == del && sameKey
	c.Check(ok, "C14.3", "dispatchDelayedEvents: read-and-remove in one critical section", p.InstrPos(del),
		"waitingEvents[t] is read and deleted under one continuous hold of EventLoop.mut", "lookup/delete not in one critical section (lookup locked: "+boolStr(lf[lookup][kEL+"mut"] == lockW)+", delete locked: "+boolStr(lf[del][kEL+"mut"] == lockW)+")")
	// re-added in order, outside the lock: AddEvent(elem) for elements of the looked-up slice by ascending index
	ae := p.Method("core/eventloop", "EventLoop", "AddEvent")
	okLoop := false
	flR, lfR := fl, lf
	if dd != ddRoot {
		flR, lfR = NewFlow(p, ddRoot), lockFlow(ddRoot, lockState{})
	}
	for _, s := range callsIn(ddRoot, false, func(cc *ssa.CallCommon) bool { return calleeIs(cc, ae) }) {
		k := flR.K.Key(s.Common().Args[1])
		if strings.Contains(k, kEL+"waitingEvents[p1]") || strings.HasPrefix(k, "phi@") || strings.Contains(k, "#0[") || (dd != ddRoot && strings.Contains(k, shortName(dd)+"(")) {
			if lfR[s][kEL+"mut"] == lockNone {
				okLoop = true
			}
		}
	}
	c.Check(okLoop, "C14.3", "dispatchDelayedEvents: re-added in deferral order without the lock", p.FuncPos(dd),
		"the removed slice is ranged in index order and each element is passed to AddEvent with no lock held", "no lock-free AddEvent loop over the removed events")
	// DelayUntil appends (order of deferral preserved)
	du := p.Func("core/eventloop", "DelayUntil")
	if du != nil {
		okApp := false
		for _, fn := range p.ModFuncs {
			if fn.Origin() != du {
				continue
			}
			f2 := NewFlow(p, fn)
			// (in DelayUntil or in the non-generic method of the event loop it hands the type key to)
			for _, d := range deepInstrs(f2, func(in ssa.Instruction) bool { _, ok := in.(*ssa.MapUpdate); return ok }, 0) {
				mu := d.Instr.(*ssa.MapUpdate)
				if strings.HasSuffix(d.Flow.K.Key(mu.Map), kEL+"waitingEvents") && strings.HasPrefix(d.Flow.K.Key(mu.Value), "builtin append(") {
					okApp = true
				}
			}
			break
		}
		c.Check(okApp, "C14.3", "DelayUntil: appends to the waiting list", p.FuncPos(du), "waitingEvents[t] = append(waitingEvents[t], event)", "DelayUntil does not append to the waiting list")
	}
}

// c14Popped: in Run and Tick, an event popped successfully reaches processEvent or
// startTicker before the next pop or the function's return.
func c14Popped(c *Ctx) {
	p := c.P
	pop := p.Method("core/eventloop", "queue", "pop")
	pe := p.Method("core/eventloop", "EventLoop", "processEvent")
	st := p.Method("core/eventloop", "EventLoop", "startTicker")
	// dispatches: every path through fn hands its parameter #idx to processEvent, or starts a ticker
	var dispatches func(fn *ssa.Function, idx, depth int) bool
	dispatches = func(fn *ssa.Function, idx, depth int) bool {
		if fn == nil || fn.Blocks == nil || depth > 2 {
			return false
		}
		k := NewKeyer(p, fn)
		want := "p" + itoa(idx)
		hit := func(in ssa.Instruction) bool {
			ci, ok := in.(ssa.CallInstruction)
			if !ok {
				return false
			}
			if calleeIs(ci.Common(), st) {
				return true
			}
			if calleeIs(ci.Common(), pe) {
				ak := k.Key(ci.Common().Args[1])
				return ak == want || ak == "*&["+want+"]"
			}
			if cal := ci.Common().StaticCallee(); cal != nil && funcPkgPath(cal) == funcPkgPath(fn) && cal != fn {
				for i, a := range ci.Common().Args {
					if ak := k.Key(a); (ak == want || ak == "*&["+want+"]") && dispatches(cal, i, depth+1) {
						return true
					}
				}
			}
			return false
		}
		return reachAvoidFromPlain(fn.Blocks[0], 0, isReturn, hit, map[*ssa.BasicBlock]bool{fn.Blocks[0]: true}) == nil
	}
	type popFn struct {
		name string
		fn   *ssa.Function
	}
	var fns []popFn
	for _, name := range []string{"Run", "Tick"} {
		root := p.Method("core/eventloop", "EventLoop", name)
		if root == nil {
			c.Unresolved("C14.4", name, "anchor missing")
			continue
		}
		found := false
		// the function itself and the private helpers of the package it drains the queue in
		for _, hf := range helperClosure(p, root, 2) {
			if hf == pop || hf == pe || hf == st {
				continue
			}
			if len(callsIn(hf, false, func(cc *ssa.CallCommon) bool { return calleeIs(cc, pop) })) > 0 {
				nm := name
				if hf != root {
					nm = name + " (" + hf.Name() + ")"
				}
				fns = append(fns, popFn{nm, hf})
				found = true
			}
		}
		if !found {
			c.Unresolved("C14.4", name, "no pop call")
		}
	}
	for _, pf := range fns {
		name, fn := pf.name, pf.fn
		fl := NewFlow(p, fn)
		pops := callsIn(fn, false, func(cc *ssa.CallCommon) bool { return calleeIs(cc, pop) })
		for i, s := range pops {
			pk := fl.K.Key(s.Value())
			consumed := func(in ssa.Instruction) bool {
				ci, ok := in.(ssa.CallInstruction)
				if !ok {
					return false
				}
				if calleeIs(ci.Common(), pe) && fl.K.Key(ci.Common().Args[1]) == pk+"#0" {
					return true
				}
				if calleeIs(ci.Common(), st) {
					return true
				}
				// handed to a private helper of the package that dispatches it on every path
				if cal := ci.Common().StaticCallee(); cal != nil && cal != fn && funcPkgPath(cal) == funcPkgPath(fn) {
					for i, a := range ci.Common().Args {
						if fl.K.Key(a) == pk+"#0" && dispatches(cal, i, 0) {
							return true
						}
					}
				}
				return false
			}
			lost := func(in ssa.Instruction) bool {
				if isReturn(in) {
					return true
				}
				ci, ok := in.(ssa.CallInstruction)
				return ok && calleeIs(ci.Common(), pop)
			}
			// search from the pop, not following edges on which the pop reported "empty"
			w := c14Search(fl, s, lost, consumed, pk+"#1")
			c.Check(w == nil, "C14.4", name+": popped event #"+itoa(i+1)+" is dispatched", p.Pos(s.Pos()),
				"every path from a successful pop reaches processEvent(event) or startTicker before the next pop or return",
				"a popped event can be dropped: path to "+posOf(p, w)+" without dispatching it")
		}
	}
}

func posOf(p *Prog, in ssa.Instruction) string {
	if in == nil {
		return "-"
	}
	return p.InstrPos(in)
}

func c14Search(fl *Flow, from ssa.Instruction, target, avoid func(ssa.Instruction) bool, okKey string) ssa.Instruction {
	b := from.Block()
	idx := 0
	for i, in := range b.Instrs {
		if in == from {
			idx = i + 1
		}
	}
	seen := map[*ssa.BasicBlock]bool{}
	var rec func(b *ssa.BasicBlock, start int) ssa.Instruction
	rec = func(b *ssa.BasicBlock, start int) ssa.Instruction {
		for i := start; i < len(b.Instrs); i++ {
			in := b.Instrs[i]
			if avoid(in) {
				return nil
			}
			if target(in) {
				return in
			}
		}
		for _, s := range b.Succs {
			skip := false
			for _, f := range fl.edgeFacts(b, s) {
				if f.Op == "false" && f.L == okKey {
					skip = true
				}
			}
			if skip || seen[s] {
				continue
			}
			seen[s] = true
			if r := rec(s, 0); r != nil {
				return r
			}
		}
		return nil
	}
	return rec(b, idx)
}

// c14Push: the overwritten-slot rule.
func c14Push(c *Ctx) {
	p := c.P
	push := p.Method("core/eventloop", "queue", "push")
	if push == nil {
		c.Unresolved("C14.5", "queue.push", "anchor missing")
		return
	}
	fl := NewFlow(p, push)
	// the slot written with the new entry
	var slotIdx string
	eachInstr(push, func(in ssa.Instruction) {
		st, ok := in.(*ssa.Store)
		if !ok {
			return
		}
		ia, ok := st.Addr.(*ssa.IndexAddr)
		if !ok || !strings.HasSuffix(fl.K.Key(ia.X), kQueue+"entries") {
			return
		}
		if fl.K.Key(st.Val) == "p1" {
			slotIdx = fl.K.Key(ia.Index)
		}
	})
	if slotIdx == "" {
		c.Unresolved("C14.5", "queue.push", "store of the new entry into entries[...] not found")
		return
	}
	// every non-nil value returned as dropped
	n := 0
	var bad []string
	for _, r := range returnsOf(push) {
		if !fl.Reachable(r.Block()) {
			continue
		}
		for _, lf := range leaves(fl, retValue(r, 0), r) {
			if isNilConst(lf.Val) {
				continue
			}
			n++
			u, ok := lf.Val.(*ssa.UnOp)
			var ia *ssa.IndexAddr
			if ok {
				ia, _ = u.X.(*ssa.IndexAddr)
			}
			if ia == nil || !strings.HasSuffix(fl.K.Key(ia.X), kQueue+"entries") {
				bad = append(bad, "dropped value "+lf.KeyIn(fl)+" is not a load from entries")
				continue
			}
			idx := fl.K.Key(ia.Index)
			facts := fl.At(u)
			if hf := u.Parent(); hf != nil && hf != push {
				// the dropped entry is taken by a private helper of the queue (`dropped, _ = q.takeHead()`): the slot it
				// reads, in push's terms at the call, provided the helper has not moved the index before reading it
				idx = "\x00"
				hk := NewKeyer(p, hf)
				for _, cs := range callsIn(push, false, func(cc *ssa.CallCommon) bool { return calleeIs(cc, hf) }) {
					if len(cs.Common().Args) == 0 || len(hf.Params) == 0 {
						continue
					}
					written := false
					if idxLoad, isLoad := ia.Index.(*ssa.UnOp); isLoad {
						if ifa, isFA := idxLoad.X.(*ssa.FieldAddr); isFA {
							fname := fieldName(ifa.X.Type(), ifa.Field)
							isStoreToIdx := func(in ssa.Instruction) bool {
								st, ok := in.(*ssa.Store)
								if !ok {
									return false
								}
								sfa, ok := st.Addr.(*ssa.FieldAddr)
								return ok && fieldName(sfa.X.Type(), sfa.Field) == fname
							}
							// a store to the index field on a path from the helper's entry to the load
							eachInstr(hf, func(in ssa.Instruction) {
								if isStoreToIdx(in) && (precedes(in, idxLoad) || reachAvoidFromPlain(in.Block(), 0, func(x ssa.Instruction) bool { return x == ssa.Instruction(idxLoad) }, func(ssa.Instruction) bool { return false }, map[*ssa.BasicBlock]bool{}) != nil && in.Block() != idxLoad.Block()) {
									written = true
								}
							})
						} else {
							written = true
						}
					} else {
						written = true
					}
					if !written {
						idx = strings.ReplaceAll(hk.Key(ia.Index), "p0->", fl.K.Key(cs.Common().Args[0])+"->")
						facts = fl.At(cs)
					}
				}
			}
			if idx == slotIdx || facts[eqFact(idx, slotIdx)] {
				continue
			}
			bad = append(bad, "dropped value is entries["+idx+"] loaded at "+p.InstrPos(u)+" while the call overwrites entries["+slotIdx+"]; no fact "+idx+" == "+slotIdx+" holds at the load")
		}
	}
	c.Check(len(bad) == 0 && n > 0, "C14.5", "queue.push: reported dropped event is the overwritten one", p.FuncPos(push),
		"the "+itoa(n)+" non-nil value(s) returned as dropped are loaded from the slot index that provably equals the index the new entry is written to",
		join(bad))
}

// c14QueueTables: the ring buffer's pop and len equal their specification as decision tables
// (loop-free functions; atoms: empty, head == tail, head reached the end, tail < head), and push
// writes the new entry at tail+1 (wrapped), makes it the tail, advances the head by one (wrapped) exactly
// on overflow and sets it on the first push.
func c14QueueTables(c *Ctx) {
	p := c.P
	ab := func(s string) string {
		s = strings.ReplaceAll(canon(s), "p0->hs/core/eventloop.queue.", "")
		return strings.ReplaceAll(s, "builtin len(entries)", "cap")
	}
	// ---- pop ----
	if pop := p.Method("core/eventloop", "queue", "pop"); pop != nil {
		// pop may be the locking wrapper of a private method of the queue that does the work
		// (`Lock; defer Unlock; return q.takeHead()`): the table is that method's
		if inner := c14TailForwarded(p, pop); inner != nil {
			pop = inner
		}
		fl := NewFlow(p, pop)
		abbrevFn = ab
		paths, err := enumPaths(fl, 100)
		abbrevFn = func(x string) string { return x }
		if err != nil {
			c.Undecided("C14.7", "queue.pop", p.FuncPos(pop), err.Error())
		} else {
			// the wrap test: written on the incremented field (head++; if head == cap) or on the value
			// about to be stored (if head+1 == cap), e.g. in a helper that computes the next index
			wrapAtom := "cap == head"
			for _, d := range paths {
				for _, l := range d.Lits {
					if l.Atom == "(head + c:1) == cap" {
						wrapAtom = l.Atom
					}
				}
			}
			atoms := []string{"c:-1 == head", "head == tail", wrapAtom}
			n, diff := compareTable(paths, atoms, func(v func(string) bool) outcome {
				o := outcome{"nil", map[string]string{}}
				if v("c:-1 == head") {
					return o
				}
				o.Result = "entries[head]"
				if v("head == tail") {
					o.Stores[kQueue+"head"] = "c:-1"
					o.Stores[kQueue+"tail"] = "c:-1"
				} else if v(wrapAtom) {
					o.Stores[kQueue+"head"] = "c:0"
				} else {
					o.Stores[kQueue+"head"] = "(head + c:1)"
				}
				return o
			})
			// second result: ok flag
			okFlag := true
			for _, d := range paths {
				if len(d.Results) == 2 {
					want := d.Result != "nil"
					if !isBoolConst(d.Results[1], want) {
						okFlag = false
					}
				}
			}
			// the entry is read before the head moves
			readFirst := true
			var load ssa.Instruction
			eachInstr(pop, func(in ssa.Instruction) {
				if u, ok := in.(*ssa.UnOp); ok {
					if ia, ok := u.X.(*ssa.IndexAddr); ok && strings.HasSuffix(fl.K.Key(ia.X), kQueue+"entries") {
						load = in
					}
				}
			})
			eachInstr(pop, func(in ssa.Instruction) {
				if st, ok := in.(*ssa.Store); ok {
					if fa, ok := st.Addr.(*ssa.FieldAddr); ok && fieldName(fa.X.Type(), fa.Field) == kQueue+"head" {
						if load == nil || !precedes(load, in) {
							readFirst = false
						}
					}
				}
			})
			c.Check(diff == "" && okFlag && readFirst, "C14.7", "queue.pop: transition table of a ring buffer", p.FuncPos(pop),
				itoa(len(paths))+" paths, "+itoa(n)+" valuations: empty -> (nil,false); otherwise (entries[head],true), read before the head moves; last element -> head=tail=-1; else head advances by one, wrapping to 0 at the end",
				"pop differs from the ring-buffer specification: "+diff+" ok-flag consistent: "+boolStr(okFlag)+", entry read before head update: "+boolStr(readFirst))
		}
	} else {
		c.Unresolved("C14.7", "queue.pop", "anchor missing")
	}
	// ---- len ----
	if ln := p.Method("core/eventloop", "queue", "len"); ln != nil {
		fl := NewFlow(p, ln)
		abbrevFn = ab
		paths, err := enumPaths(fl, 100)
		abbrevFn = func(x string) string { return x }
		if err != nil {
			c.Undecided("C14.7", "queue.len", p.FuncPos(ln), err.Error())
		} else {
			sym := func(v ssa.Value) string { return ab(canon(fl.K.Key(v))) }
			ok := len(paths) > 0
			var detail []string
			// an ordering test written on a difference of the two indices (`n := tail-head+1; if n <= 0`) is the
			// wrap test in another spelling: X op Y with X-Y = ±(tail-head)+c bounds d = tail-head, and
			// d <= -1 is tail < head
			type alias struct{ flip bool }
			aliases := map[string]alias{}
			eachInstr(ln, func(in ssa.Instruction) {
				bo, isBo := in.(*ssa.BinOp)
				if !isBo {
					return
				}
				switch bo.Op {
				case token.LSS, token.LEQ, token.GTR, token.GEQ:
				default:
					return
				}
				diff := polyOf(bo.X, sym).add(polyOf(bo.Y, sym), -1)
				a, cst := diff["tail"], diff[""]
				n := 2
				if cst != 0 {
					n = 3
				}
				if (a != 1 && a != -1) || diff["head"] != -a || len(diff) != n {
					return
				}
				// X op Y  <=>  a*d + cst op 0; as an upper or lower bound on d
				upper, bound := false, int64(0) // upper: d <= bound; lower: d >= bound
				switch {
				case a == 1 && bo.Op == token.LSS:
					upper, bound = true, -cst-1
				case a == 1 && bo.Op == token.LEQ:
					upper, bound = true, -cst
				case a == 1 && bo.Op == token.GTR:
					upper, bound = false, -cst+1
				case a == 1 && bo.Op == token.GEQ:
					upper, bound = false, -cst
				case a == -1 && bo.Op == token.LSS: // -d + cst < 0  <=>  d >= cst+1
					upper, bound = false, cst+1
				case a == -1 && bo.Op == token.LEQ:
					upper, bound = false, cst
				case a == -1 && bo.Op == token.GTR: // -d + cst > 0 <=> d <= cst-1
					upper, bound = true, cst-1
				case a == -1 && bo.Op == token.GEQ:
					upper, bound = true, cst
				}
				var condIsWrapped bool
				switch {
				case upper && bound == -1:
					condIsWrapped = true
				case !upper && bound == 0:
					condIsWrapped = false
				default:
					return
				}
				var fs []Fact
				abbrevFn = ab
				fl.decompose(bo, true, &fs)
				if len(fs) == 1 {
					if l, isLit := litOf(fs[0]); isLit {
						// the literal (atom, val) holds when the condition holds
						aliases[l.Atom] = alias{flip: l.Val != condIsWrapped}
					}
				}
				abbrevFn = func(x string) string { return x }
			})
			for _, d := range paths {
				val := map[string]bool{}
				for _, l := range d.Lits {
					val[l.Atom] = l.Val
					if al, isAl := aliases[l.Atom]; isAl {
						val["tail < head"] = l.Val != al.flip
					}
				}
				var want poly
				switch {
				case val["c:-1 == head"]:
					want = polyConst(0)
				case !val["tail < head"]:
					want = polySym("tail").add(polySym("head"), -1).add(polyConst(1), 1)
				default:
					want = polySym("cap").add(polySym("head"), -1).add(polySym("tail"), 1).add(polyConst(1), 1)
				}
				if _, has := val["c:-1 == head"]; !has {
					ok = false
					detail = append(detail, "a path does not test for the empty queue")
					continue
				}
				if _, has := val["tail < head"]; !has && !val["c:-1 == head"] {
					ok = false
					detail = append(detail, "a path for the non-empty queue does not test whether the occupied part wraps (tail < head)")
					continue
				}
				got := polyOf(d.Results[0], sym)
				if !got.eq(want) {
					ok = false
					detail = append(detail, "returns "+got.String()+", want "+want.String())
				}
			}
			c.Check(ok, "C14.7", "queue.len: number of pending entries", p.FuncPos(ln),
				"0 when empty; tail-head+1 when head <= tail; cap-head+tail+1 when wrapped", join(detail))
		}
	} else {
		c.Unresolved("C14.7", "queue.len", "anchor missing")
	}
	// ---- push ----
	push := p.Method("core/eventloop", "queue", "push")
	if push == nil {
		c.Unresolved("C14.7", "queue.push", "anchor missing")
		return
	}
	fl := NewFlow(p, push)
	var posV ssa.Value
	var bad []string
	nStoreEntry, nStoreTail := 0, 0
	eachInstr(push, func(in ssa.Instruction) {
		st, ok := in.(*ssa.Store)
		if !ok {
			return
		}
		if ia, ok := st.Addr.(*ssa.IndexAddr); ok && strings.HasSuffix(fl.K.Key(ia.X), kQueue+"entries") && fl.K.Key(st.Val) == "p1" {
			nStoreEntry++
			posV = ia.Index
		}
	})
	// nextOf: v is "the index after base": base+1, or 0 exactly when base+1 == cap. Written as a phi
	// over the wrap test, or as a call of a pure helper of the package that computes exactly that.
	nextOf := func(v ssa.Value, base string) string {
		isCapCmp := func(fs FactSet, op string) bool {
			return hasCmp(fs, op, func(k string) bool { return ab(k) == "("+base+" + c:1)" }, func(k string) bool { return strings.HasPrefix(ab(k), "cap") })
		}
		switch x := v.(type) {
		case *ssa.Phi:
			for i, e := range x.Edges {
				ek := ab(fl.K.Key(e))
				ef := fl.AtEdge(x.Block().Preds[i], x.Block())
				switch {
				case ek == "c:0" && isCapCmp(ef, "=="):
				case ek == "("+base+" + c:1)" && isCapCmp(ef, "!="):
				default:
					return "index may be " + ek + " (wrap test ==:" + boolStr(isCapCmp(ef, "==")) + " !=:" + boolStr(isCapCmp(ef, "!=")) + ")"
				}
			}
			return ""
		case *ssa.Call:
			alts, ok := helperValues(fl, x, func(y ssa.Value) ssa.Value { return y })
			if !ok || len(alts) != 2 {
				return "index is " + ab(fl.K.Key(v)) + ", not recognised as the next index"
			}
			for _, a := range alts {
				fs := FactSet{}
				for _, f := range a.facts {
					fs[f] = true
				}
				switch {
				case ab(a.result) == "c:0" && isCapCmp(fs, "=="):
				case ab(a.result) == "("+base+" + c:1)" && isCapCmp(fs, "!="):
				default:
					return "helper may return " + ab(a.result)
				}
			}
			return ""
		}
		return "index is " + ab(fl.K.Key(v)) + ", not recognised as the next index"
	}
	if posV == nil || nStoreEntry != 1 {
		c.Undecided("C14.7", "queue.push", p.FuncPos(push), "the slot written with the new entry is not a single store")
		return
	}
	pk := fl.K.Key(posV)
	// pos = tail+1, or 0 exactly when tail+1 == cap
	if r := nextOf(posV, "tail"); r != "" {
		bad = append(bad, "slot "+r)
	}
	eachInstr(push, func(in ssa.Instruction) {
		st, ok := in.(*ssa.Store)
		if !ok {
			return
		}
		fa, ok := st.Addr.(*ssa.FieldAddr)
		if !ok {
			return
		}
		val := ab(fl.K.Key(st.Val))
		facts := fl.At(in)
		switch fieldName(fa.X.Type(), fa.Field) {
		case kQueue + "tail":
			nStoreTail++
			if fl.K.Key(st.Val) != pk {
				bad = append(bad, "tail := "+val+", want the slot index")
			}
		case kQueue + "head":
			switch {
			case fl.K.Key(st.Val) == pk:
				// first push: only when the queue was empty
				if !hasCmp(facts, "==", func(k string) bool { return ab(k) == "head" }, is("c:-1")) {
					bad = append(bad, "head := slot index not gated by head == -1")
				}
			case val == "(head + c:1)":
				if !hasCmp(facts, "==", is(pk), func(k string) bool { return ab(k) == "head" }) {
					bad = append(bad, "head advanced although the new slot is not the head (no overflow)")
				}
			case val == "c:0":
				if !hasCmp(facts, "==", func(k string) bool { return ab(k) == "head" }, func(k string) bool { return strings.HasPrefix(ab(k), "cap") }) {
					bad = append(bad, "head wrapped to 0 without head == cap")
				}
			default:
				// head := next(head) in one step
				if _, isCall := st.Val.(*ssa.Call); isCall && nextOf(st.Val, "head") == "" {
					if !hasCmp(facts, "==", is(pk), func(k string) bool { return ab(k) == "head" }) {
						bad = append(bad, "head advanced although the new slot is not the head (no overflow)")
					}
					break
				}
				bad = append(bad, "unexpected head := "+val)
			}
		}
	})
	c.Check(len(bad) == 0 && nStoreTail == 1, "C14.7", "queue.push: slot, tail and head updates of a ring buffer", p.FuncPos(push),
		"the entry goes to tail+1 (0 when that is the end), which becomes the tail; the head advances by one (wrapping) only when the slot is the head (overflow) and is set on the first push",
		join(bad))
}

// c14Registration (C14.8): integrity of the handler table. A slot is occupied only by a
// complete handler (callback and options); the release function clears only its own
// registration, i.e. a repeated call cannot clear a slot that was re-occupied in between;
// nothing else writes the table.
func c14Registration(c *Ctx) {
	p := c.P
	reg := p.Func("core/eventloop", "Register")
	if reg == nil {
		c.Unresolved("C14.8", "Register", "anchor missing")
		return
	}
	isTable := func(k string) bool { return strings.Contains(k, kEL+"handlers[") }
	// all writes to elements of EventLoop.handlers in the module
	type tw struct {
		fn    *ssa.Function
		in    ssa.Instruction
		field string // "" = whole element
		val   ssa.Value
	}
	var writes []tw
	for _, fn := range p.ModFuncs {
		if strings.HasSuffix(p.FuncPos(fn), "_test.go") {
			continue
		}
		k := NewKeyer(p, fn)
		eachInstr(fn, func(in ssa.Instruction) {
			switch x := in.(type) {
			case *ssa.Store:
				switch a := x.Addr.(type) {
				case *ssa.IndexAddr:
					if isTable(k.Key(a.X)+"[") || c14IsTableValue(k, a.X, 0) {
						writes = append(writes, tw{fn, in, "", x.Val})
					}
				case *ssa.FieldAddr:
					if ia, ok := a.X.(*ssa.IndexAddr); ok && isTable(k.Key(ia.X)+"[") {
						writes = append(writes, tw{fn, in, fieldVar(a.X.Type(), a.Field).Name(), x.Val})
					}
				}
			case *ssa.MapUpdate:
				if strings.HasSuffix(k.Key(x.Map), kEL+"handlers") {
					writes = append(writes, tw{fn, in, "map", x.Value})
				}
			}
		})
	}
	inRegister := func(fn *ssa.Function) bool {
		for f := fn; f != nil; f = f.Parent() {
			if f == reg || f.Origin() == reg {
				return true
			}
		}
		// a private helper that only Register calls (the slot search extracted into a method)
		return fn.Parent() == nil && fn != reg && p.ownedByAny(fn, []string{shortName(reg)})
	}
	// a release written as a method of a small registration type counts as Register's own if values of that type are
	// created only in Register (the method value is what Register returns)
	isReleaseMethod := func(fn *ssa.Function) bool {
		if fn.Signature.Recv() == nil || fn.Parent() != nil || funcPkgPath(fn) != funcPkgPath(reg) {
			return false
		}
		nt := namedOf(fn.Signature.Recv().Type())
		if nt == nil {
			return false
		}
		sites := p.constructSites(nt)
		if len(sites) == 0 {
			return false
		}
		for _, e := range sites {
			if !inRegister(e.Fn) {
				return false
			}
		}
		return true
	}
	var foreign []string
	nOcc, nRel := 0, 0
	for _, w := range writes {
		if !inRegister(w.fn) && !isReleaseMethod(w.fn) {
			foreign = append(foreign, p.InstrPos(w.in)+" in "+w.fn.String())
			continue
		}
		if w.fn.Origin() != nil && w.fn.Origin() != w.fn || (w.fn.Parent() != nil && w.fn.Parent().Origin() != nil && w.fn.Parent().Origin() != w.fn.Parent()) {
			continue // instantiation of the generic body: the body itself is analysed
		}
		switch {
		case (w.fn == reg || (w.fn.Parent() == nil && inRegister(w.fn))) && (w.field == "" || w.field == "map"):
			nOcc++
			// the stored value is the complete handler built from callback and options
			ok := false
			switch w.field {
			case "":
				ok = w.val.Type().String() == modPath+"/core/eventloop.handler"
			case "map":
				if call, isCall := w.val.(*ssa.Call); isCall {
					if b, isB := call.Call.Value.(*ssa.Builtin); isB && b.Name() == "append" {
						ok = true
					}
				}
			}
			c.Check(ok, "C14.8/occupy", "Register: a slot is occupied by the complete handler", p.InstrPos(w.in),
				"the handler value (callback and options) is stored as a whole / appended", "the table entry is not written with a complete handler value")
		case w.fn == reg || (w.fn.Parent() == nil && inRegister(w.fn)):
			nOcc++
			c.Violated("C14.8/occupy", "Register: a slot is occupied by the complete handler", p.InstrPos(w.in),
				"only field "+w.field+" of a re-used slot is written: the new handler runs with the options (priority, in-AddEvent mode) of the slot's previous occupant")
		default:
			// a closure of Register: the release function
			nRel++
			okVal := w.field == "callback" && isNilConst(w.val)
			once := c14ReleasedOnce(p, w.fn, w.in)
			c.Check(okVal && once == "", "C14.8/release", "Register: the release function clears its own registration only", p.InstrPos(w.in),
				"callback := nil, reached at most once per registration (guard flag set in the same critical section, or sync.Once)",
				map[bool]string{true: once, false: "the release function writes " + w.field + " with a value other than nil"}[okVal])
		}
	}
	c.Check(len(foreign) == 0, "C14.8/writers", "EventLoop.handlers entries are written only by Register and its release function", "core/eventloop",
		itoa(len(writes))+" writes, all inside Register", "written outside Register: "+join(foreign))
	if nOcc < 2 || nRel < 1 {
		c.Unresolved("C14.8", "Register", "expected the append, the slot re-use store and the release store; found "+itoa(nOcc)+" occupying and "+itoa(nRel)+" releasing writes")
	}
}

// c14ReleasedOnce decides that the clearing store `in` of closure fn runs at most once per
// registration. Accepted idioms: (1) a captured bool that is false at creation, tested
// before the store (the store is unreachable once it is true) and set to true on every
// path from the test to the store or the return; (2) fn is only ever passed to
// (*sync.Once).Do. It returns "" or the reason.
func c14ReleasedOnce(p *Prog, fn *ssa.Function, in ssa.Instruction) string {
	// idiom 2
	if par := fn.Parent(); par != nil {
		onlyOnce, used := true, false
		eachInstr(par, func(x ssa.Instruction) {
			mc, ok := x.(*ssa.MakeClosure)
			if !ok || mc.Fn != fn || mc.Referrers() == nil {
				return
			}
			for _, r := range *mc.Referrers() {
				used = true
				call, ok := r.(ssa.CallInstruction)
				if !ok || call.Common().StaticCallee() == nil || call.Common().StaticCallee().String() != "(*sync.Once).Do" {
					onlyOnce = false
				}
			}
		})
		if used && onlyOnce && par.Parent() != nil {
			return ""
		}
	}
	fl := NewFlow(p, fn)
	for _, b := range fn.Blocks {
		iff, ok := b.Instrs[len(b.Instrs)-1].(*ssa.If)
		if !ok {
			continue
		}
		cond, neg := iff.Cond, false
		if u, ok := cond.(*ssa.UnOp); ok && u.Op == token.NOT {
			cond, neg = u.X, true
		}
		ld, ok := cond.(*ssa.UnOp)
		if !ok || ld.Op != token.MUL {
			continue
		}
		fv, isFV := ld.X.(*ssa.FreeVar)
		// or a bool field of the receiver of a method of a small registration type
		var flagField *ssa.FieldAddr
		if !isFV {
			fa, isFA := ld.X.(*ssa.FieldAddr)
			if !isFA || len(fn.Params) == 0 || fa.X != ssa.Value(fn.Params[0]) || fn.Signature.Recv() == nil {
				continue
			}
			flagField = fa
		}
		setSucc, clearSucc := b.Succs[0], b.Succs[1] // flag set -> Succs[0]
		if neg {
			setSucc, clearSucc = clearSucc, setSucc
		}
		isStore := func(x ssa.Instruction) bool { return x == in }
		setsFlag := func(x ssa.Instruction) bool {
			st, ok := x.(*ssa.Store)
			if !ok || !isBoolConst(st.Val, true) {
				return false
			}
			if flagField != nil {
				fa, isFA := st.Addr.(*ssa.FieldAddr)
				return isFA && fa.X == flagField.X && fa.Field == flagField.Field
			}
			return st.Addr == fv
		}
		// (a) with the flag set the store is unreachable
		if w := cfgSearch(fl, nil, setSucc, isStore, nil, nil); w != nil {
			continue
		}
		// (b) the store is reachable only through the flag test
		if !b.Dominates(in.Block()) {
			continue
		}
		// (c) from the clear edge, every path to the store's completion sets the flag: no path reaches a return without setting it
		isRet := func(x ssa.Instruction) bool { _, ok := x.(*ssa.Return); return ok }
		if w := cfgSearch(fl, nil, clearSucc, isRet, setsFlag, nil); w != nil {
			return "the guard flag is not set on the path to " + p.InstrPos(w) + ": a second call clears the slot again"
		}
		if flagField != nil {
			// (d') the field starts false (every construction of the type leaves it unset or false) and only this method writes it
			fvar := fieldVar(flagField.X.Type(), flagField.Field)
			for _, w := range p.fieldWrites(fvar) {
				if w.Fresh {
					if st, isSt := w.Instr.(*ssa.Store); isSt && !isBoolConst(st.Val, false) {
						return "a registration is created with the guard flag already set at " + p.InstrPos(w.Instr)
					}
					continue
				}
				if declaredParent(w.Fn) != fn {
					return "the guard flag is written outside the release method at " + p.InstrPos(w.Instr)
				}
			}
			return ""
		}
		// (d) the flag starts false and only this closure touches it
		par := fn.Parent()
		var cell ssa.Value
		eachInstr(par, func(x ssa.Instruction) {
			if mc, ok := x.(*ssa.MakeClosure); ok && mc.Fn == fn {
				for i, fvv := range fn.FreeVars {
					if fvv == fv && i < len(mc.Bindings) {
						cell = mc.Bindings[i]
					}
				}
			}
		})
		al, ok := cell.(*ssa.Alloc)
		if !ok || al.Referrers() == nil {
			return "the guard flag is not a local of the registration"
		}
		for _, r := range *al.Referrers() {
			switch x := r.(type) {
			case *ssa.Store:
				if x.Addr != al || !isBoolConst(x.Val, false) {
					return "the guard flag is written outside the release function at " + p.InstrPos(x)
				}
			case *ssa.MakeClosure:
				if x.Fn != fn {
					return "the guard flag is shared with another closure"
				}
			case *ssa.DebugRef:
			default:
				return "the guard flag escapes at " + p.InstrPos(r)
			}
		}
		return ""
	}
	return "the slot is cleared on every call: a repeated call (TimeoutContext releases the view-change handler from its timeout handler and again from the caller's cancel) clears a slot that Register has re-used for another handler"
}

// c14TailForwarded: every return of fn hands back, unchanged and in order, the results of one and the same call of a
// private method of fn's receiver type on the same receiver, and fn does nothing else to the queue's fields.
func c14TailForwarded(p *Prog, fn *ssa.Function) *ssa.Function {
	var call *ssa.Call
	for _, r := range returnsOf(fn) {
		for i, res := range r.Results {
			v := res
			if u, ok := v.(*ssa.UnOp); ok { // named results spilled by the defer
				if a, ok := u.X.(*ssa.Alloc); ok {
					var vals []ssa.Value
					storedInto(a, func(sv ssa.Value) bool { vals = append(vals, sv); return false })
					if len(vals) == 1 {
						v = vals[0]
					}
				}
			}
			ex, ok := v.(*ssa.Extract)
			if !ok || ex.Index != i {
				return nil
			}
			c2, ok := ex.Tuple.(*ssa.Call)
			if !ok || (call != nil && c2 != call) {
				return nil
			}
			call = c2
		}
	}
	if call == nil {
		return nil
	}
	cal := call.Call.StaticCallee()
	if cal == nil || cal.Blocks == nil || cal.Object() == nil || cal.Object().Exported() || funcPkgPath(cal) != funcPkgPath(fn) ||
		len(call.Call.Args) != 1 || len(fn.Params) == 0 || call.Call.Args[0] != ssa.Value(fn.Params[0]) {
		return nil
	}
	touches := false
	eachInstr(fn, func(in ssa.Instruction) {
		if fa, ok := in.(*ssa.FieldAddr); ok && fa.X == ssa.Value(fn.Params[0]) {
			if name := fieldVar(fa.X.Type(), fa.Field).Name(); name != "mut" {
				touches = true
			}
		}
	})
	if touches {
		return nil
	}
	return cal
}

// c14IsTableValue: v is a handler list read from EventLoop.handlers under a local name: the looked-up list,
// that list grown by append, or a join of such (`slots := el.handlers[t]; if i == -1 { slots = append(slots, handler{}) }`).
func c14IsTableValue(k *Keyer, v ssa.Value, depth int) bool {
	if depth > 4 {
		return false
	}
	switch x := v.(type) {
	case *ssa.Phi:
		for _, e := range x.Edges {
			if !c14IsTableValue(k, e, depth+1) {
				return false
			}
		}
		return len(x.Edges) > 0
	case *ssa.Call:
		if b, ok := x.Call.Value.(*ssa.Builtin); ok && b.Name() == "append" {
			return c14IsTableValue(k, x.Call.Args[0], depth+1)
		}
	}
	key := k.Key(v)
	return strings.Contains(key, kEL+"handlers[") && !strings.Contains(key, "]#1")
}

// c14DistinctLists (C14.9): the snapshot lists that the dispatch fills by append (prioritised and ordinary handlers) do not
// share storage: every list that is grown independently (its own chain of append results and loop phis) roots in an
// allocation of its own (a pool Get, a make, nil). Two lists cut from one buffer overwrite each other as soon as the first
// outgrows its part: a handler is then run twice and another not at all, once enough handlers are registered.
func c14DistinctLists(c *Ctx, pe *ssa.Function) {
	p := c.P
	if pe == nil {
		return
	}
	n := 0
	var bad []string
	for _, fn := range helperClosure(p, pe, 1) {
		if funcPkgPath(fn) != funcPkgPath(pe) {
			continue
		}
		// union-find over values of one accumulator
		parent := map[ssa.Value]ssa.Value{}
		var find func(v ssa.Value) ssa.Value
		find = func(v ssa.Value) ssa.Value {
			if parent[v] == nil || parent[v] == v {
				parent[v] = v
				return v
			}
			r := find(parent[v])
			parent[v] = r
			return r
		}
		union := func(a, b ssa.Value) { parent[find(a)] = find(b) }
		isHandlerList := func(t types.Type) bool {
			sl, ok := t.Underlying().(*types.Slice)
			if !ok {
				return false
			}
			_, isFunc := sl.Elem().Underlying().(*types.Signature)
			return isFunc
		}
		var appends []*ssa.Call
		eachInstr(fn, func(in ssa.Instruction) {
			switch x := in.(type) {
			case *ssa.Call:
				if b, ok := x.Call.Value.(*ssa.Builtin); ok && b.Name() == "append" && isHandlerList(x.Type()) {
					appends = append(appends, x)
					union(x, x.Call.Args[0])
				}
			case *ssa.Phi:
				if isHandlerList(x.Type()) {
					for _, e := range x.Edges {
						union(x, e)
					}
				}
			}
		})
		if len(appends) < 2 {
			continue
		}
		// roots of a component: members that are not appends or phis; a re-slice is followed to what it slices
		rootsOf := map[ssa.Value]map[ssa.Value]bool{}
		for v := range parent {
			switch v.(type) {
			case *ssa.Phi:
				continue
			case *ssa.Call:
				if b, ok := v.(*ssa.Call).Call.Value.(*ssa.Builtin); ok && b.Name() == "append" {
					continue
				}
			}
			r := v
			for {
				sl, ok := r.(*ssa.Slice)
				if !ok {
					break
				}
				r = sl.X
			}
			if cst, ok := r.(*ssa.Const); ok && cst.IsNil() {
				continue
			}
			comp := find(v)
			if rootsOf[comp] == nil {
				rootsOf[comp] = map[ssa.Value]bool{}
			}
			rootsOf[comp][r] = true
		}
		comps := map[ssa.Value]bool{}
		for _, a := range appends {
			comps[find(a)] = true
		}
		n += len(comps)
		seenRoot := map[ssa.Value]ssa.Value{}
		for comp := range comps {
			for r := range rootsOf[comp] {
				// a re-slice of a member of the same list stays in the list
				if parent[r] != nil && find(r) == comp {
					if _, isSlice := r.(*ssa.Slice); isSlice {
						continue
					}
				}
				if other, ok := seenRoot[r]; ok && other != comp {
					bad = append(bad, "two lists filled by append in "+shortName(fn)+" are cut from the same buffer ("+r.Name()+" = "+r.String()+")")
				}
				seenRoot[r] = comp
			}
		}
	}
	if n == 0 {
		c.Exempt("C14.9", "dispatch: the handler snapshot lists have storage of their own", p.FuncPos(pe), "the dispatch does not fill more than one list by append on this tree")
		return
	}
	sortStrings(bad)
	c.Check(len(bad) == 0, "C14.9", "dispatch: the handler snapshot lists have storage of their own", p.FuncPos(pe),
		itoa(n)+" lists filled by append, each rooted in an allocation of its own", join(bad)+": when the first list outgrows its part of the buffer it overwrites the other (a handler runs twice, another not at all)")
}
