package main

// A4 LOCK: guarded-by discipline. A forward must-lockset per function (join =
// intersection) over the SSA CFG; locks are identified by (owning struct type, mutex
// field). Every access to a guarded field needs the lock (writes need it exclusively);
// "callers must hold the lock" helpers get a requires-lock summary that becomes an
// obligation at each of their call sites.

import (
	"fmt"
	"go/types"
	"os"
	"sort"
	"strings"

	"golang.org/x/tools/go/ssa"
)

type guardSpec struct {
	rel, typ string   // package (module-relative) and struct type
	mutex    string   // mutex field name
	fields   []string // guarded fields
	helpers  []string // methods documented as "callers must hold the lock"
	optional []string // guarded fields that need not exist (introduced by a repair)
	// exemptions: function short name -> reason (one named construct, one reason)
	exempt map[string]string
}

type lockMode int

const (
	lockNone lockMode = iota
	lockR
	lockW
)

type lockState map[string]lockMode // lock id -> mode

func (s lockState) clone() lockState {
	o := lockState{}
	for k, v := range s {
		o[k] = v
	}
	return o
}

func meetLocks(a, b lockState) lockState {
	o := lockState{}
	for k, v := range a {
		if w, ok := b[k]; ok {
			if w < v {
				v = w
			}
			if v != lockNone {
				o[k] = v
			}
		}
	}
	return o
}

func eqLocks(a, b lockState) bool {
	if len(a) != len(b) {
		return false
	}
	for k, v := range a {
		if b[k] != v {
			return false
		}
	}
	return true
}

// mutexID returns "pkg.T.field" if addr is &x.field where field is a sync.Mutex/RWMutex.
func mutexID(addr ssa.Value) string {
	fa, ok := addr.(*ssa.FieldAddr)
	if !ok {
		return ""
	}
	return fieldName(fa.X.Type(), fa.Field)
}

func lockEffect(c *ssa.CallCommon) (id string, mode lockMode, acquire bool, ok bool) {
	callee := c.StaticCallee()
	if callee == nil || len(c.Args) == 0 {
		return
	}
	switch callee.String() {
	case "(*sync.Mutex).Lock", "(*sync.RWMutex).Lock":
		return mutexID(c.Args[0]), lockW, true, true
	case "(*sync.RWMutex).RLock":
		return mutexID(c.Args[0]), lockR, true, true
	case "(*sync.Mutex).Unlock", "(*sync.RWMutex).Unlock", "(*sync.RWMutex).RUnlock":
		return mutexID(c.Args[0]), lockNone, false, true
	}
	return
}

// lockFlow computes the lockset before every instruction of fn, starting from init.
func lockFlow(fn *ssa.Function, init lockState) map[ssa.Instruction]lockState {
	res := map[ssa.Instruction]lockState{}
	if len(fn.Blocks) == 0 {
		return res
	}
	in := map[*ssa.BasicBlock]lockState{fn.Blocks[0]: init.clone()}
	work := []*ssa.BasicBlock{fn.Blocks[0]}
	for len(work) > 0 {
		b := work[0]
		work = work[1:]
		s := in[b].clone()
		for _, instr := range b.Instrs {
			res[instr] = s.clone()
			if call, ok := instr.(*ssa.Call); ok {
				if id, mode, acq, ok := lockEffect(&call.Call); ok && id != "" {
					if acq {
						s[id] = mode
					} else {
						delete(s, id)
					}
				}
			}
			// deferred unlocks keep the lock until the function returns
		}
		for _, succ := range b.Succs {
			old, seen := in[succ]
			var nw lockState
			if !seen {
				nw = s.clone()
			} else {
				nw = meetLocks(old, s)
			}
			if !seen || !eqLocks(nw, old) {
				in[succ] = nw
				work = append(work, succ)
			}
		}
	}
	return res
}

type guardedAccess struct {
	fn    *ssa.Function
	instr ssa.Instruction
	field string
	write bool
	fresh bool
}

// guardedAccesses lists accesses to the guarded fields in fn.
func guardedAccesses(fn *ssa.Function, guarded map[*types.Var]string) []guardedAccess {
	var out []guardedAccess
	eachInstr(fn, func(in ssa.Instruction) {
		fa, ok := in.(*ssa.FieldAddr)
		if !ok {
			return
		}
		name, ok := guarded[fieldVar(fa.X.Type(), fa.Field)]
		if !ok {
			return
		}
		fresh := rootAlloc(fa) != nil
		for _, r := range *fa.Referrers() {
			switch x := r.(type) {
			case *ssa.Store:
				if x.Addr == fa {
					out = append(out, guardedAccess{fn, r, name, true, fresh})
				}
			case *ssa.UnOp:
				// a load; classify by what is done with the loaded value
				write := false
				if x.Referrers() != nil {
					for _, r2 := range *x.Referrers() {
						switch y := r2.(type) {
						case *ssa.MapUpdate:
							if y.Map == x {
								write = true
							}
						case *ssa.Call:
							if b, ok := y.Call.Value.(*ssa.Builtin); ok && b.Name() == "delete" && len(y.Call.Args) > 0 && y.Call.Args[0] == x {
								write = true
							}
						case *ssa.IndexAddr:
							for _, r3 := range *y.Referrers() {
								if st, ok := r3.(*ssa.Store); ok && st.Addr == y {
									write = true
								}
							}
						}
					}
				}
				out = append(out, guardedAccess{fn, r, name, write, fresh})
			default:
				// address taken (e.g. &s.list passed to a method): treat as write
				if _, isCall := r.(ssa.CallInstruction); isCall {
					out = append(out, guardedAccess{fn, r, name, true, fresh})
				}
			}
		}
	})
	return out
}

// closureInit determines the lockset a closure starts with: the lockset at its
// creation site when it is deferred or passed directly as a synchronous callback
// argument; empty when it is started with `go`, stored, or returned.
func closureInit(parentLocks map[ssa.Instruction]lockState, mc *ssa.MakeClosure) lockState {
	refs := mc.Referrers()
	if refs == nil {
		return lockState{}
	}
	for _, r := range *refs {
		switch x := r.(type) {
		case *ssa.Defer:
			if x.Call.Value == mc {
				// runs at exit: what is held at the registration point and still held at every return
				// (a deferred Unlock registered earlier runs later; an explicit Unlock on the way does not)
				st := parentLocks[x].clone()
				for _, r := range returnsAfter(x) {
					st = meetLocks(st, parentLocks[r])
				}
				return st
			}
		case *ssa.Call:
			for _, a := range x.Call.Args {
				if a == mc {
					return parentLocks[x].clone()
				}
			}
			if x.Call.Value == mc {
				return parentLocks[x].clone()
			}
		case *ssa.ChangeType, *ssa.MakeInterface:
			// converted then (probably) passed on: be conservative
		}
	}
	return lockState{}
}

// checkGuard evaluates the guarded-by discipline of one struct.
func (c *Ctx) checkGuard(rule string, g guardSpec) {
	p := c.P
	n := p.Named(g.rel, g.typ)
	if n == nil {
		c.Unresolved(rule, g.typ, "type not found")
		return
	}
	mu := p.Field(g.rel, g.typ, g.mutex)
	if mu == nil || !strings.Contains(mu.Type().String(), "sync.") {
		c.Unresolved(rule, g.typ+"."+g.mutex, "mutex field not found")
		return
	}
	guarded := map[*types.Var]string{}
	for _, f := range g.fields {
		fv := p.Field(g.rel, g.typ, f)
		if fv == nil {
			c.Unresolved(rule, g.typ+"."+f, "guarded field not found")
			continue
		}
		guarded[fv] = f
	}
	for _, f := range g.optional {
		if fv := p.Field(g.rel, g.typ, f); fv != nil {
			guarded[fv] = f
		}
	}
	lockID := fieldName(n, fieldIndex(n, g.mutex))
	helper := map[string]bool{}
	for _, h := range g.helpers {
		helper[h] = true
	}

	// per function: locksets (closures inherit as described)
	locks := map[*ssa.Function]map[ssa.Instruction]lockState{}
	var compute func(fn *ssa.Function, init lockState)
	compute = func(fn *ssa.Function, init lockState) {
		lf := lockFlow(fn, init)
		locks[fn] = lf
		eachInstr(fn, func(in ssa.Instruction) {
			if mc, ok := in.(*ssa.MakeClosure); ok {
				if cl, ok := mc.Fn.(*ssa.Function); ok {
					compute(cl, closureInit(lf, mc))
				}
			}
		})
	}
	for _, fn := range p.ModFuncs {
		if fn.Parent() == nil {
			compute(fn, lockState{})
		}
	}
	// Inferred "callers must hold the lock" helpers: an unexported method of the guarded type (or
	// an unexported function of its package) all of whose uses are plain synchronous calls made
	// with the lock held starts with that lock. This is what "extract the critical section's body
	// into a helper" produces; the documented helpers of the table are the same thing by name.
	inferred := map[*ssa.Function]lockMode{}
	pkgPath := ""
	if n.Obj().Pkg() != nil {
		pkgPath = n.Obj().Pkg().Path()
	}
	for round := 0; round < 3; round++ {
		changed := false
		for _, fn := range p.ModFuncs {
			if fn.Parent() != nil || fn.Object() == nil || fn.Object().Exported() || fn.Blocks == nil || funcPkgPath(fn) != pkgPath {
				continue
			}
			if len(guardedAccessesDeep(fn, guarded)) == 0 {
				// no guarded access of its own: still a candidate if it calls a helper that requires the lock
				// (a documented one, or one inferred in an earlier round)
				callsHelper := false
				for _, f := range append([]*ssa.Function{fn}, Closures(fn)...) {
					eachInstr(f, func(in ssa.Instruction) {
						ci, ok := in.(ssa.CallInstruction)
						if !ok {
							return
						}
						cal := ci.Common().StaticCallee()
						if cal == nil {
							return
						}
						if inferred[cal] != lockNone {
							callsHelper = true
						}
						if cal.Signature.Recv() != nil && helper[cal.Name()] && types.Identical(derefT(cal.Signature.Recv().Type()), n) {
							callsHelper = true
						}
					})
				}
				if !callsHelper {
					continue
				}
			}
			refs := p.refsToInPlace(fn)
			if len(refs) == 0 {
				continue
			}
			entry := lockW
			for _, r := range refs {
				if uses := synchronousUses(r.Instr); r.Kind == "value" && len(uses) > 0 {
					// a method value handed to a function that only calls it: it runs during that call
					mode := lockW
					for _, u := range uses {
						m := lockNone
						if lf := locks[r.In]; lf != nil {
							m = lf[u][lockID]
						}
						if m < mode {
							mode = m
						}
					}
					if mode < entry {
						entry = mode
					}
					continue
				} else if r.Kind != "call" {
					entry = lockNone
					break
				}
				if _, isGo := r.Instr.(*ssa.Go); isGo {
					entry = lockNone
					break
				}
				mode := lockNone
				if lf := locks[r.In]; lf != nil {
					// a deferred helper runs at exit before the deferred unlocks registered earlier (LIFO), i.e. with
					// the lockset of its registration point, exactly like a deferred closure (closureInit)
					mode = lf[r.Instr][lockID]
					if _, isDefer := r.Instr.(*ssa.Defer); isDefer {
						for _, ret := range returnsAfter(r.Instr) {
							if m := lf[ret][lockID]; m < mode {
								mode = m
							}
						}
					}
				}
				if mode < entry {
					entry = mode
				}
			}
			if os.Getenv("HSVERIF_DEBUG") != "" {
				fmt.Println("DEBUG inferred", shortName(fn), "entry", entry, "refs", len(refs))
				for _, r := range refs {
					m := lockNone
					if lf := locks[r.In]; lf != nil {
						m = lf[r.Instr][lockID]
					}
					fmt.Println("   ref", shortName(r.In), r.Kind, m, locks[r.In] != nil)
				}
			}
			if entry != inferred[fn] {
				inferred[fn] = entry
				changed = true
				init := lockState{}
				if entry != lockNone {
					init[lockID] = entry
				}
				compute(fn, init)
			}
		}
		if !changed {
			break
		}
	}

	type agg struct {
		n, bad int
		first  string
	}
	per := map[string]*agg{}
	requires := map[*ssa.Function]bool{}
	names := []string{}
	for _, fn := range p.ModFuncs {
		lf := locks[fn]
		if lf == nil {
			continue
		}
		accs := guardedAccesses(fn, guarded)
		if len(accs) == 0 {
			continue
		}
		name := shortName(fn)
		top := declaredParent(fn)
		isHelper := top.Signature.Recv() != nil && helper[top.Name()] && types.Identical(derefT(top.Signature.Recv().Type()), n)
		a := &agg{}
		for _, ac := range accs {
			if ac.fresh {
				continue
			}
			a.n++
			mode := lf[ac.instr][lockID]
			need := lockR
			if ac.write {
				need = lockW
			}
			if mode >= need {
				continue
			}
			if isHelper {
				requires[top] = true
				continue
			}
			a.bad++
			if a.first == "" {
				kind := "read"
				if ac.write {
					kind = "write"
				}
				held := "not held"
				if mode == lockR {
					held = "held only for reading"
				}
				a.first = kind + " of " + g.typ + "." + ac.field + " at " + p.InstrPos(ac.instr) + " with " + g.mutex + " " + held
			}
		}
		if a.n == 0 {
			continue
		}
		per[name] = a
		names = append(names, name)
		c.Stat("guarded_accesses", a.n)
	}
	sort.Strings(names)
	for _, name := range names {
		a := per[name]
		if reason, ok := g.exempt[name]; ok {
			c.Exempt(rule, g.typ+": "+name, "-", reason)
			continue
		}
		if a.bad > 0 {
			// unreachable functions are reported as exempt: they become violations once something calls them
			fn := funcByShortName(p, name)
			if fn != nil && len(p.refsTo(declaredParent(fn))) == 0 && declaredParent(fn) == fn && !isInterfaceImpl(p, fn) {
				c.Exempt(rule, g.typ+": "+name, p.FuncPos(fn), "unguarded access in a function without any production caller ("+a.first+")")
				continue
			}
			c.Violated(rule, g.typ+": "+name, a.first[strings.LastIndex(a.first, " at ")+4:strings.LastIndex(a.first, " with ")], a.first)
		} else {
			c.Held(rule, g.typ+": "+name, "-", "all "+itoa(a.n)+" accesses to guarded fields hold "+g.typ+"."+g.mutex+" (writes exclusively)")
		}
	}
	// requires-lock helpers: every call site must hold the lock (or be a helper itself)
	for _, h := range g.helpers {
		fn := p.MethodOf(n, h)
		if fn == nil {
			// the documented helper no longer exists (inlined into its caller): nothing to require
			c.Exempt(rule, g.typ+"."+h+" (callers must hold "+g.mutex+")", "-", "the helper does not exist on this tree (its body is checked where it was inlined)")
			continue
		}
		var bad []string
		refs := p.refsTo(fn)
		for _, r := range refs {
			lf := locks[r.In]
			mode := lockNone
			if lf != nil {
				mode = lf[r.Instr][lockID]
			}
			top := declaredParent(r.In)
			callerIsHelper := top.Signature.Recv() != nil && helper[top.Name()] && types.Identical(derefT(top.Signature.Recv().Type()), n)
			if mode < lockR && !callerIsHelper {
				bad = append(bad, shortName(r.In)+" ("+p.InstrPos(r.Instr)+")")
			}
			if r.Kind == "value" && mode < lockR && !callerIsHelper {
				bad = append(bad, "escapes as a value in "+shortName(r.In))
			}
		}
		c.Check(len(bad) == 0, rule, g.typ+"."+h+" (callers must hold "+g.mutex+")", p.FuncPos(fn),
			"all "+itoa(len(refs))+" uses hold "+g.typ+"."+g.mutex, "called without the lock from: "+join(bad))
	}
	// every acquisition is released: no path from a Lock/RLock of this mutex to a return of the same function misses
	// the matching unlock (explicit, deferred, or in a deferred function literal). A critical section that is left
	// with the lock held blocks every later user of the guarded state.
	{
		nAcq := 0
		var leaks []string
		releases := func(in ssa.Instruction) bool {
			switch x := in.(type) {
			case *ssa.Call:
				id, _, acq, ok := lockEffect(&x.Call)
				return ok && !acq && id == lockID
			case *ssa.Defer:
				if id, _, acq, ok := lockEffect(&x.Call); ok && !acq && id == lockID {
					return true
				}
				if mc, ok := x.Call.Value.(*ssa.MakeClosure); ok {
					if cl, ok := mc.Fn.(*ssa.Function); ok {
						rel := false
						eachInstr(cl, func(y ssa.Instruction) {
							if c2, ok := y.(*ssa.Call); ok {
								if id, _, acq, ok := lockEffect(&c2.Call); ok && !acq && strings.HasSuffix(id, "."+g.mutex) {
									rel = true
								}
							}
						})
						return rel
					}
				}
			}
			return false
		}
		for _, fn := range p.ModFuncs {
			if funcPkgPath(fn) != pkgPath || fn.Blocks == nil || strings.HasSuffix(p.FuncPos(fn), "_test.go") {
				continue
			}
			eachInstr(fn, func(in ssa.Instruction) {
				call, ok := in.(*ssa.Call)
				if !ok {
					return
				}
				id, _, acq, ok := lockEffect(&call.Call)
				if !ok || !acq || id != lockID {
					return
				}
				nAcq++
				// a helper that runs with the lock held (documented or inferred) and lets go of it for a while hands it
				// back to its caller: re-acquiring before returning is its contract, not a leak
				if inferred[declaredParent(fn)] != lockNone || (fn.Signature.Recv() != nil && helper[fn.Name()]) {
					return
				}
				// acquired while this very function already holds it on every path here: sync mutexes are not re-entrant
				if lf, ok := locks[fn]; ok && lf[in][lockID] != lockNone {
					leaks = append(leaks, shortName(fn)+" ("+p.InstrPos(in)+": acquired while already held, which blocks forever)")
				}
				// a deferred release registered before the acquisition covers it as well
				covered := false
				eachInstr(fn, func(y ssa.Instruction) {
					if d, ok := y.(*ssa.Defer); ok && releases(d) && precedes(d, in) {
						covered = true
					}
				})
				if covered {
					return
				}
				if w := reachAvoidFromPlain(in.Block(), indexIn(in)+1, isReturn, releases, map[*ssa.BasicBlock]bool{}); w != nil {
					leaks = append(leaks, shortName(fn)+" ("+p.InstrPos(in)+" to the return at "+p.InstrPos(w)+")")
				}
			})
		}
		if nAcq > 0 {
			c.Check(len(leaks) == 0, rule, g.typ+"."+g.mutex+": every acquisition is released", p.Pos(mu.Pos()),
				"all "+itoa(nAcq)+" Lock/RLock calls are followed on every path to a return by the matching unlock (explicit or deferred)",
				"a return is reachable with the lock still held: "+join(leaks))
		}
	}
}

// indexIn: the position of in within its block.
func indexIn(in ssa.Instruction) int {
	for i, x := range in.Block().Instrs {
		if x == in {
			return i
		}
	}
	return -1
}

func fieldIndex(n *types.Named, name string) int {
	st, _ := n.Underlying().(*types.Struct)
	if st == nil {
		return -1
	}
	for i := 0; i < st.NumFields(); i++ {
		if st.Field(i).Name() == name {
			return i
		}
	}
	return -1
}

func funcByShortName(p *Prog, name string) *ssa.Function {
	for _, fn := range p.ModFuncs {
		if shortName(fn) == name {
			return fn
		}
	}
	return nil
}

// isInterfaceImpl: a method that may be called through an interface (conservatively:
// any exported method of a type that implements some module interface with that method).
func isInterfaceImpl(p *Prog, fn *ssa.Function) bool {
	if fn.Signature.Recv() == nil {
		return false
	}
	rt := fn.Signature.Recv().Type()
	for path, pk := range p.All {
		if !inModule(path) {
			continue
		}
		sc := pk.Types.Scope()
		for _, nm := range sc.Names() {
			tn, ok := sc.Lookup(nm).(*types.TypeName)
			if !ok {
				continue
			}
			it, ok := tn.Type().Underlying().(*types.Interface)
			if !ok || it.NumMethods() == 0 {
				continue
			}
			if !types.Implements(rt, it) && !types.Implements(types.NewPointer(derefT(rt)), it) {
				continue
			}
			for i := 0; i < it.NumMethods(); i++ {
				if it.Method(i).Name() == fn.Name() {
					return true
				}
			}
		}
	}
	return false
}

// guardedAccessesDeep: guarded accesses of fn and of its closures.
func guardedAccessesDeep(fn *ssa.Function, guarded map[*types.Var]string) []guardedAccess {
	out := guardedAccesses(fn, guarded)
	for _, a := range fn.AnonFuncs {
		out = append(out, guardedAccessesDeep(a, guarded)...)
	}
	return out
}

// returnsAfter lists the returns reachable from instruction in (those at which a defer registered by in runs).
func returnsAfter(in ssa.Instruction) []*ssa.Return {
	var out []*ssa.Return
	seen := map[*ssa.BasicBlock]bool{}
	var walk func(b *ssa.BasicBlock)
	walk = func(b *ssa.BasicBlock) {
		if seen[b] {
			return
		}
		seen[b] = true
		if r, ok := b.Instrs[len(b.Instrs)-1].(*ssa.Return); ok {
			out = append(out, r)
		}
		for _, s := range b.Succs {
			walk(s)
		}
	}
	walk(in.Block())
	return out
}

// passedToSynchronousCaller: the instruction is a plain call of a module function with a body that
// receives a function value (a method value or literal created for this call) as an argument and
// does nothing with that parameter but call it: the function value runs during the call, with
// whatever locks the caller holds.
// synchronousUses: in creates a function value (MakeClosure) or is the call receiving one; the
// result lists the calls during which the value runs, nil if any use is something else.
func synchronousUses(in ssa.Instruction) []ssa.Instruction {
	if mc, ok := in.(*ssa.MakeClosure); ok {
		var out []ssa.Instruction
		if refs := mc.Referrers(); refs != nil {
			for _, r := range *refs {
				if _, isDbg := r.(*ssa.DebugRef); isDbg {
					continue
				}
				if !passedToSynchronousCaller(r) {
					return nil
				}
				out = append(out, r)
			}
		}
		return out
	}
	if passedToSynchronousCaller(in) {
		return []ssa.Instruction{in}
	}
	return nil
}

func passedToSynchronousCaller(in ssa.Instruction) bool {
	call, ok := in.(*ssa.Call)
	if !ok {
		return false
	}
	cal := call.Call.StaticCallee()
	if cal == nil || cal.Blocks == nil || !inModule(funcPkgPath(cal)) {
		return false
	}
	found := false
	for j, a := range call.Call.Args {
		if _, isMC := a.(*ssa.MakeClosure); !isMC {
			continue
		}
		if j >= len(cal.Params) {
			return false
		}
		refs := cal.Params[j].Referrers()
		if refs == nil {
			continue
		}
		for _, r := range *refs {
			if _, isDbg := r.(*ssa.DebugRef); isDbg {
				continue
			}
			c2, ok := r.(*ssa.Call)
			if !ok || c2.Call.Value != ssa.Value(cal.Params[j]) {
				return false
			}
		}
		found = true
	}
	return found
}
