package main

// Obligations, verdicts, evidence files, known-findings handling.

import (
	"encoding/json"
	"fmt"
	"os"
	"path/filepath"
	"reflect"
	"sort"
	"strings"
	"time"
)

type Verdict string

const (
	Held       Verdict = "HELD"
	Violated   Verdict = "VIOLATED"
	Undecided  Verdict = "UNDECIDED"
	Unresolved Verdict = "ANCHOR-UNRESOLVED"
	Exempt     Verdict = "EXEMPT"
)

// Obligation is one rule instance on one resolved construct.
type Obligation struct {
	Property   string  `json:"property"`
	Rule       string  `json:"rule"`     // e.g. C03.5/G1
	Instance   string  `json:"instance"` // rule-specific key of the construct (never a line number)
	Construct  string  `json:"construct"`
	Verdict    Verdict `json:"verdict"`
	Detail     string  `json:"detail,omitempty"`
	Nontrivial bool    `json:"nontrivial"` // verdict needed a CFG/dataflow/call-graph computation
}

func (o Obligation) Key() string { return o.Property + "|" + o.Rule + "|" + o.Instance }

// Ctx is the per-property evaluation context.
type Ctx struct {
	P        *Prog
	Prop     string
	Tier     string
	Obs      []Obligation
	Stats    map[string]int
	Notes    []string
	Extra    map[string]any // additional coverage keys (e.g. the sensitivity runs of the thorough tier)
	Assume   []string
	Decided  string // what the check decides
	NotDec   string // what it does not decide
	expected map[string]int
}

func NewCtx(p *Prog, prop, tier string) *Ctx {
	return &Ctx{P: p, Prop: prop, Tier: tier, Stats: map[string]int{}, expected: map[string]int{}}
}

func (c *Ctx) add(rule, inst, construct string, v Verdict, detail string, nontrivial bool) {
	c.Obs = append(c.Obs, Obligation{Property: c.Prop, Rule: rule, Instance: inst, Construct: construct,
		Verdict: v, Detail: detail, Nontrivial: nontrivial})
}

func (c *Ctx) Held(rule, inst, construct, detail string) {
	c.add(rule, inst, construct, Held, detail, true)
}
func (c *Ctx) Violated(rule, inst, construct, detail string) {
	c.add(rule, inst, construct, Violated, detail, true)
}
func (c *Ctx) Undecided(rule, inst, construct, detail string) {
	c.add(rule, inst, construct, Undecided, detail, true)
}
func (c *Ctx) Unresolved(rule, inst, detail string) {
	c.add(rule, inst, "?", Unresolved, detail, false)
}
func (c *Ctx) Exempt(rule, inst, construct, reason string) {
	c.add(rule, inst, construct, Exempt, reason, false)
}

// Check records HELD or VIOLATED depending on ok.
func (c *Ctx) Check(ok bool, rule, inst, construct, held, violated string) bool {
	if ok {
		c.Held(rule, inst, construct, held)
	} else {
		c.Violated(rule, inst, construct, violated)
	}
	return ok
}

// importFrom evaluates another property's rules on the same program and adopts the
// obligations whose rule id has one of the given prefixes, relabelled under rule.
var importStack []uintptr

func (c *Ctx) importFrom(check func(*Ctx), rule string, prefixes ...string) {
	id := reflect.ValueOf(check).Pointer()
	for _, x := range importStack {
		if x == id {
			panic("import cycle between property checks at rule " + rule)
		}
	}
	importStack = append(importStack, id)
	defer func() { importStack = importStack[:len(importStack)-1] }()
	sub := NewCtx(c.P, c.Prop, c.Tier)
	check(sub)
	n := 0
	for _, o := range sub.Obs {
		for _, pre := range prefixes {
			if o.Rule == pre || strings.HasPrefix(o.Rule, pre+"/") {
				o.Property = c.Prop
				o.Instance = o.Rule + " " + o.Instance
				o.Rule = rule
				c.Obs = append(c.Obs, o)
				n++
				break
			}
		}
	}
	if n == 0 {
		c.Unresolved(rule, strings.Join(prefixes, ","), "no obligations imported")
	}
}

// Expect declares the minimum number of instances of a rule (prefix match on the rule
// id) confirmed by hand on the reference tree; fewer instances fail the check, so a
// rule cannot pass vacuously.
func (c *Ctx) Expect(rulePrefix string, n int) { c.expected[rulePrefix] = n }

func (c *Ctx) Stat(k string, n int) { c.Stats[k] += n }

func (c *Ctx) finishExpectations() {
	keys := make([]string, 0, len(c.expected))
	for k := range c.expected {
		keys = append(keys, k)
	}
	sort.Strings(keys)
	for _, k := range keys {
		n := 0
		for _, o := range c.Obs {
			if (o.Rule == k || strings.HasPrefix(o.Rule, k+"/") || strings.HasPrefix(o.Rule, k+".")) && o.Verdict != Unresolved {
				n++
			}
		}
		if n < c.expected[k] {
			c.add(k, "instance-count", "-", Unresolved,
				fmt.Sprintf("rule matched %d instances, at least %d were confirmed by hand on the reference tree", n, c.expected[k]), false)
		}
	}
}

// ---- known findings ----

type Finding struct {
	Property string `json:"property"`
	Rule     string `json:"rule"`
	Instance string `json:"instance"`
	Status   string `json:"status"` // "known" | "fixed"
	Commit   string `json:"commit,omitempty"`
	What     string `json:"what"`
}

type FindingsFile struct {
	Comment  string    `json:"_comment,omitempty"`
	Findings []Finding `json:"findings"`
}

func loadFindings(path string) (map[string]Finding, error) {
	out := map[string]Finding{}
	b, err := os.ReadFile(path)
	if err != nil {
		if os.IsNotExist(err) {
			return out, nil
		}
		return nil, err
	}
	var ff FindingsFile
	if err := json.Unmarshal(b, &ff); err != nil {
		return nil, fmt.Errorf("%s: %w", path, err)
	}
	for _, f := range ff.Findings {
		if f.Status == "known" {
			out[f.Property+"|"+f.Rule+"|"+f.Instance] = f
		}
	}
	return out, nil
}

// ---- evidence ----

type evidence struct {
	PropertyID  string         `json:"property_id"`
	Tier        string         `json:"tier"`
	Seed        int            `json:"seed"`
	Level       string         `json:"level"`
	Coverage    map[string]any `json:"coverage"`
	Assumptions []string       `json:"assumptions"`
	WallS       float64        `json:"wall_s"`
	Violations  int            `json:"violations"`
}

// Finish writes evidence and replay files, prints the report and returns the exit code.
func (c *Ctx) Finish(root string, start time.Time, seed int, configs []string) int {
	c.finishExpectations()
	known, err := loadFindings(filepath.Join(root, "known_findings.json"))
	if err != nil {
		fmt.Printf("ERROR reading known findings: %v\n", err)
		return 2
	}
	sort.SliceStable(c.Obs, func(i, j int) bool {
		if c.Obs[i].Rule != c.Obs[j].Rule {
			return ruleLess(c.Obs[i].Rule, c.Obs[j].Rule)
		}
		return c.Obs[i].Instance < c.Obs[j].Instance
	})
	replayDir := filepath.Join(root, "evidence", "replay")
	_ = os.MkdirAll(replayDir, 0o755)
	old, _ := filepath.Glob(filepath.Join(replayDir, c.Prop+"-*.json"))
	for _, f := range old {
		_ = os.Remove(f)
	}
	var discharged, nontrivial, failing, knownHits int
	distinct := map[string]bool{}
	samples := []any{}
	for _, o := range c.Obs {
		if o.Nontrivial {
			if !distinct[o.Key()] {
				distinct[o.Key()] = true
				nontrivial++
			}
		}
		samples = append(samples, o)
		switch o.Verdict {
		case Held, Exempt:
			discharged++
		default:
			if f, ok := known[o.Key()]; ok && o.Verdict == Violated {
				knownHits++
				fmt.Printf("KNOWN-FINDING: property=%s %s [%s %s at %s]\n", c.Prop, f.What, o.Rule, o.Instance, o.Construct)
				continue
			}
			failing++
			rp := filepath.Join(replayDir, fmt.Sprintf("%s-%d.json", c.Prop, failing))
			b, _ := json.MarshalIndent(o, "", " ")
			_ = os.WriteFile(rp, b, 0o644)
			fmt.Printf("%s %s %s at %s: %s\n", o.Verdict, o.Rule, o.Instance, o.Construct, o.Detail)
			fmt.Printf("VIOLATION property=%s replay=%s\n", c.Prop, rp)
		}
	}
	wall := time.Since(start).Seconds()
	cov := map[string]any{
		"explanation": "Static analysis of /repo's current source (go/packages + go/ssa, nothing executed). Decided: " + c.Decided +
			" NOT decided: " + c.NotDec,
		"obligations":         len(c.Obs),
		"discharged":          discharged,
		"evaluations":         len(c.Obs),
		"distinct_nontrivial": nontrivial,
		"rule": "one obligation = one repository-specific rule instantiated on one type-resolved construct (function, call site, field, CFG edge); " +
			"non-trivial = its verdict required a CFG / dataflow / call-graph computation (table exemptions and anchor failures are not counted); distinct by rule+instance key",
		"samples":        samples,
		"known_findings": knownHits,
		"configs":        configs,
		"stats":          c.Stats,
		"notes":          c.Notes,
		"exhaustive":     false,
		"checker_cmd":    "bin/hsverif check " + c.Prop + " " + c.Tier,
		"trusted_base":   []string{"go/packages, go/types, go/ssa (golang.org/x/tools v0.50.0, go1.26.8)", "anchor, guarded-by, exemption and reference tables compiled into /verif/checker"},
	}
	for k, v := range c.Extra {
		cov[k] = v
	}
	ev := evidence{PropertyID: c.Prop, Tier: c.Tier, Seed: seed, Level: "other", Coverage: cov,
		Assumptions: append([]string{"the analysed source is what `go list ./...` reports for /repo's working tree (default build tags)"}, c.Assume...),
		WallS:       wall, Violations: failing}
	b, _ := json.MarshalIndent(ev, "", " ")
	_ = os.MkdirAll(filepath.Join(root, "evidence"), 0o755)
	if err := os.WriteFile(filepath.Join(root, "evidence", c.Prop+".json"), b, 0o644); err != nil {
		fmt.Printf("ERROR writing evidence: %v\n", err)
		return 2
	}
	fmt.Printf("%s %s: %d obligations, %d discharged, %d known findings, %d failing (%.1fs)\n",
		c.Prop, c.Tier, len(c.Obs), discharged, knownHits, failing, wall)
	if failing > 0 {
		return 1
	}
	return 0
}

// ruleLess orders rule ids like C03.5/G1 numerically.
func ruleLess(a, b string) bool {
	pa, pb := splitRule(a), splitRule(b)
	for i := 0; i < len(pa) && i < len(pb); i++ {
		if pa[i] != pb[i] {
			var x, y int
			if _, e1 := fmt.Sscanf(pa[i], "%d", &x); e1 == nil {
				if _, e2 := fmt.Sscanf(pb[i], "%d", &y); e2 == nil && x != y {
					return x < y
				}
			}
			return pa[i] < pb[i]
		}
	}
	return len(pa) < len(pb)
}

func splitRule(s string) []string {
	return strings.FieldsFunc(s, func(r rune) bool { return r == '.' || r == '/' })
}
