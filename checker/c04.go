package main

import (
	"regexp"
	"strings"

	"golang.org/x/tools/go/ssa"
)

func init() { register("C04", checkC04) }

// abbreviations common to the three rulesets
func baseAbbrev(s string) string {
	r := strings.NewReplacer(
		"(*hs.Block).View(", "V(",
		"(*hs.Block).Hash(", "H(",
		"(*hs.Block).Parent(", "P(",
		"(*hs.Block).QuorumCert(", "QC(",
		"(hs.QuorumCert).BlockHash(", "h(",
		"(hs.QuorumCert).View(", "qv(",
		"(*hs/security/blockchain.Blockchain).Get(", "Get(",
		"(*hs/security/blockchain.Blockchain).Extends(", "Extends(",
	)
	return r.Replace(s)
}

func applyDefs(s string, defs [][2]string) string {
	for _, d := range defs {
		s = strings.ReplaceAll(s, d[0], d[1])
	}
	return s
}

type ruleSpec struct {
	typ, method string
	abbrev      func(string) string
	atoms       []string
	ref         func(val func(string) bool) outcome
	describe    string
}

func checkC04(c *Ctx) {
	p := c.P
	c.Decided = "for VoteRule and CommitRule of the chained, fast and simplified HotStuff rulesets: the decision table extracted from all acyclic paths of the code (which ancestor, if any, is returned for commit; which block becomes locked; whether to vote) equals, as a Boolean function over the look-up, hash-link and view-comparison atoms, the table transcribed from the published rules; " +
		"the Byzantine wrapper rulesets override only ProposeRule; the lock variables are written only by CommitRule; ChainLength constants."
	c.NotDec = "exactness of Blockchain.Extends (a loop over arbitrary forests; an opaque atom here, see C13); that the published rules are themselves safe; that a QC's view label is its block's view (C02.3)."
	c.Assume = append(c.Assume, "within one evaluation of a rule, two look-ups of the same hash return the same block (the block store is content-addressed, C13)")
	c.Expect("C04.1", 6)
	// the "extends" atom of the tables: Blockchain.Extends descends by parent hash while the view is higher and answers
	// by hash equality (the structural part of C13.6; its exactness on arbitrary forests stays undecided)
	c.importFrom(checkC13, "C04.6", "C13.6")

	// C04.7 the rules see every block, in whatever order blocks reach the store: TryCommit consults CommitRule for the block
	// it is given on every path (a block that is already in the store -- fetched from a peer before its proposal arrived --
	// has not been through the rule: skipping it leaves the lock and the commit one block behind the published rules)
	if tc := p.Method("protocol/consensus", "Committer", "TryCommit"); tc == nil {
		c.Unresolved("C04.7", "Committer.TryCommit", "anchor missing")
	} else {
		fl := NewFlow(p, tc)
		isRule := func(in ssa.Instruction) bool {
			call, ok := in.(*ssa.Call)
			if !ok || call.Call.Method == nil || call.Call.Method.Name() != "CommitRule" || len(call.Call.Args) != 1 {
				return false
			}
			return fl.K.Key(call.Call.Args[0]) == "p1"
		}
		nilBlock := func(fs []Fact) bool {
			for _, f := range fs {
				if f.Op == "==" && oneIsNil(f) && nonNil(f) == "p1" {
					return true
				}
			}
			return false
		}
		w := cfgSearch(fl, nil, tc.Blocks[0], isReturn, isRule, nilBlock)
		c.Check(w == nil, "C04.7", "TryCommit: the commit rule is consulted for every block presented", p.FuncPos(tc),
			"every path through TryCommit calls ruler.CommitRule(block)",
			"TryCommit can return at "+posOf(p, w)+" without consulting CommitRule for the block: for some order of arrival (store first, proposal later) the lock and the committed ancestor are not those of the published rules")
	}

	specs := []ruleSpec{chainedCommit(), chainedVote(), fastCommit(), fastVote(), simpleCommit(), simpleVote()}
	for _, s := range specs {
		fn := p.Method("protocol/rules", s.typ, s.method)
		inst := s.typ + "." + s.method
		if fn == nil {
			c.Unresolved("C04.1", inst, "anchor missing")
			continue
		}
		fl := NewFlow(p, fn)
		abbrevFn = s.abbrev
		paths, err := enumPaths(fl, 400)
		abbrevFn = func(x string) string { return x }
		if err != nil {
			c.Undecided("C04.1", inst, p.FuncPos(fn), "decision table could not be extracted: "+err.Error())
			continue
		}
		c.Stat("cfg_paths", len(paths))
		n, diff := compareTable(paths, s.atoms, s.ref)
		if strings.HasPrefix(diff, "too many") || strings.HasPrefix(diff, "non-deterministic") {
			c.Undecided("C04.1", inst, p.FuncPos(fn), diff)
			continue
		}
		c.Check(diff == "", "C04.1", inst, p.FuncPos(fn),
			itoa(len(paths))+" acyclic paths; decision equals the published rule on all "+itoa(n)+" valuations of its atoms: "+s.describe,
			"decision differs from the published rule ("+s.describe+"): "+diff)
	}
	c04Helpers(c)
}

// ---------------- chained HotStuff ----------------

const kCHS = "QCREF(QC("

// qcRefRe: a call of the QC look-up helper, as a method of the ruleset or as a function of the package taking the block chain
var qcRefRe = regexp.MustCompile(`(?:\(\*hs/protocol/rules\.\w+\)\.qcRef\(p0, |hs/protocol/rules\.qcRef\([^,()]*, )`)

func normQcRef(s string) string { return qcRefRe.ReplaceAllString(s, "QCREF(") }

func chainedAbbrev(s string) string {
	s = normQcRef(baseAbbrev(s))
	s = strings.ReplaceAll(s, "p0->hs/protocol/rules.ChainedHotStuff.bLock", "lock")
	s = strings.ReplaceAll(s, "p0->hs/protocol/rules.ChainedHotStuff.blockchain", "BC")
	// nested qcRef calls, outermost first
	b1 := kCHS + "p1))"
	b2 := kCHS + b1 + "#0))"
	b3 := kCHS + b2 + "#0))"
	return applyDefs(s, [][2]string{{b3 + "#0", "b3"}, {b3 + "#1", "ok3"}, {b2 + "#0", "b2"}, {b2 + "#1", "ok2"}, {b1 + "#0", "b1"}, {b1 + "#1", "ok1"}})
}

func chainedCommit() ruleSpec {
	atoms := []string{"ok1", "ok2", "ok3", "V(lock) < V(b2)", "H(b2) == P(b1)", "(V(b2) + c:1) == V(b1)", "H(b3) == P(b2)", "(V(b3) + c:1) == V(b2)"}
	return ruleSpec{"ChainedHotStuff", "CommitRule", chainedAbbrev, atoms, func(v func(string) bool) outcome {
		o := outcome{"nil", map[string]string{}}
		if !v("ok1") || !v("ok2") {
			return o
		}
		if v("V(lock) < V(b2)") {
			o.Stores["hs/protocol/rules.ChainedHotStuff.bLock"] = "b2"
		}
		if !v("ok3") {
			return o
		}
		if v("H(b2) == P(b1)") && v("(V(b2) + c:1) == V(b1)") && v("H(b3) == P(b2)") && v("(V(b3) + c:1) == V(b2)") {
			o.Result = "b3"
		}
		return o
	}, "with b1,b2,b3 the blocks certified by the QCs of block,b1,b2: lock := b2 iff V(b2) > V(lock); commit b3 iff b1.parent = b2, V(b1) = V(b2)+1, b2.parent = b3, V(b2) = V(b3)+1 (three-chain of directly linked consecutive views)"}
}

func chainedVote() ruleSpec {
	ab := func(s string) string {
		s = baseAbbrev(s)
		s = strings.ReplaceAll(s, "p0->hs/protocol/rules.ChainedHotStuff.bLock", "lock")
		s = strings.ReplaceAll(s, "p0->hs/protocol/rules.ChainedHotStuff.blockchain", "BC")
		s = strings.ReplaceAll(s, "p2.hs.ProposeMsg.Block", "blk")
		q := "Get(BC, h(QC(blk)))"
		return applyDefs(s, [][2]string{{q + "#0", "qcb"}, {q + "#1", "okq"}})
	}
	atoms := []string{"okq", "V(lock) < V(qcb)", "Extends(BC, blk, lock)"}
	return ruleSpec{"ChainedHotStuff", "VoteRule", ab, atoms, func(v func(string) bool) outcome {
		if (v("okq") && v("V(lock) < V(qcb)")) || v("Extends(BC, blk, lock)") {
			return outcome{"true", map[string]string{}}
		}
		return outcome{"false", map[string]string{}}
	}, "vote iff the block certified by the proposal's QC is known and has a higher view than the locked block (liveness rule) or the proposed block extends the locked block (safety rule)"}
}

// ---------------- Fast-HotStuff ----------------

const kFHS = "QCREF(QC("

func fastCommit() ruleSpec {
	ab := func(s string) string {
		s = normQcRef(baseAbbrev(s))
		par := kFHS + "p1))"
		gp := kFHS + par + "#0))"
		return applyDefs(s, [][2]string{{gp + "#0", "gp"}, {gp + "#1", "okgp"}, {par + "#0", "par"}, {par + "#1", "okpar"}})
	}
	atoms := []string{"okpar", "okgp", "H(par) == P(p1)", "(V(par) + c:1) == V(p1)", "H(gp) == P(par)", "(V(gp) + c:1) == V(par)"}
	return ruleSpec{"FastHotStuff", "CommitRule", ab, atoms, func(v func(string) bool) outcome {
		o := outcome{"nil", map[string]string{}}
		if v("okpar") && v("okgp") && v("H(par) == P(p1)") && v("(V(par) + c:1) == V(p1)") && v("H(gp) == P(par)") && v("(V(gp) + c:1) == V(par)") {
			o.Result = "gp"
		}
		return o
	}, "with par, gp the blocks certified by the QCs of block, par: commit gp iff block.parent = par, V(block) = V(par)+1, par.parent = gp, V(par) = V(gp)+1 (two-chain)"}
}

func fastVote() ruleSpec {
	ab := func(s string) string {
		s = baseAbbrev(s)
		s = strings.ReplaceAll(s, "p0->hs/protocol/rules.FastHotStuff.blockchain", "BC")
		s = strings.ReplaceAll(s, "p2.hs.ProposeMsg.Block", "blk")
		s = strings.ReplaceAll(s, "p2.hs.ProposeMsg.AggregateQC", "agg")
		q := "Get(BC, h(QC(blk)))"
		s = applyDefs(s, [][2]string{{q + "#0", "hqcb"}, {q + "#1", "okh"}})
		return s
	}
	atoms := []string{"agg == nil", "okh", "Extends(BC, blk, hqcb)", "V(blk) < p1", "(qv(QC(blk)) + c:1) == V(blk)"}
	return ruleSpec{"FastHotStuff", "VoteRule", ab, atoms, func(v func(string) bool) outcome {
		t := outcome{"true", map[string]string{}}
		f := outcome{"false", map[string]string{}}
		if !v("agg == nil") {
			if v("okh") && v("Extends(BC, blk, hqcb)") {
				return t
			}
			return f
		}
		if !v("V(blk) < p1") && v("(qv(QC(blk)) + c:1) == V(blk)") {
			return t
		}
		return f
	}, "with an aggregate QC: vote iff the high-QC block is known and the proposed block extends it; without: vote iff V(block) >= current view and V(block) = QC.view + 1"}
}

// ---------------- simplified HotStuff ----------------

func simpleAbbrev(s string) string {
	s = baseAbbrev(s)
	s = strings.ReplaceAll(s, "p0->hs/protocol/rules.SimpleHotStuff.locked", "lock")
	s = strings.ReplaceAll(s, "p0->hs/protocol/rules.SimpleHotStuff.blockchain", "BC")
	return s
}

func simpleCommit() ruleSpec {
	ab := func(s string) string {
		s = simpleAbbrev(s)
		pp := "Get(BC, h(QC(p1)))"
		gp := "Get(BC, h(QC(" + pp + "#0)))"
		ggp := "Get(BC, h(QC(" + gp + "#0)))"
		return applyDefs(s, [][2]string{{ggp + "#0", "ggp"}, {ggp + "#1", "okggp"}, {gp + "#0", "gp"}, {gp + "#1", "okgp"}, {pp + "#0", "par"}, {pp + "#1", "okpar"}})
	}
	atoms := []string{"okpar", "okgp", "okggp", "V(lock) < V(gp)", "(V(ggp) + c:2) == V(par)"}
	return ruleSpec{"SimpleHotStuff", "CommitRule", ab, atoms, func(v func(string) bool) outcome {
		o := outcome{"nil", map[string]string{}}
		if !v("okpar") || !v("okgp") {
			return o
		}
		if v("V(lock) < V(gp)") {
			o.Stores["hs/protocol/rules.SimpleHotStuff.locked"] = "gp"
		}
		if v("okggp") && v("(V(ggp) + c:2) == V(par)") {
			o.Result = "ggp"
		}
		return o
	}, "with par, gp, ggp certified by the QCs of block, par, gp: lock := gp iff V(gp) > V(locked); commit ggp iff V(ggp) + 2 = V(par)"}
}

func simpleVote() ruleSpec {
	ab := func(s string) string {
		s = simpleAbbrev(s)
		s = strings.ReplaceAll(s, "p2.hs.ProposeMsg.Block", "blk")
		q := "Get(BC, h(QC(blk)))"
		return applyDefs(s, [][2]string{{q + "#0", "par"}, {q + "#1", "okpar"}})
	}
	atoms := []string{"V(blk) < p1", "okpar", "V(par) < V(lock)"}
	return ruleSpec{"SimpleHotStuff", "VoteRule", ab, atoms, func(v func(string) bool) outcome {
		if !v("V(blk) < p1") && v("okpar") && !v("V(par) < V(lock)") {
			return outcome{"true", map[string]string{}}
		}
		return outcome{"false", map[string]string{}}
	}, "vote iff V(block) >= current view, the block certified by its QC is known, and that block's view is not below the locked block's"}
}

// c04Helpers: qcRef, ChainLength, who writes the lock, what the Byzantine wrappers override.
func c04Helpers(c *Ctx) {
	p := c.P
	for _, t := range []string{"ChainedHotStuff", "FastHotStuff"} {
		fn := p.Method("protocol/rules", t, "qcRef")
		if fn == nil {
			fn = p.Func("protocol/rules", "qcRef") // shared by the rulesets as a function of the package
		}
		if fn == nil {
			c.Unresolved("C04.2", t+".qcRef", "anchor missing")
			continue
		}
		fl := NewFlow(p, fn)
		ok := true
		n := 0
		for _, r := range returnsOf(fn) {
			if !fl.Reachable(r.Block()) {
				continue
			}
			n++
			k0 := fl.K.Key(retValue(r, 0))
			if k0 == "nil" {
				continue // (nil, false): no block
			}
			if !(strings.HasPrefix(k0, kBCGet) && strings.Contains(k0, ", "+kQCHash+"p1))") && strings.HasSuffix(k0, "#0")) {
				ok = false
			}
			if k1 := fl.K.Key(retValue(r, 1)); k1 != strings.TrimSuffix(k0, "#0")+"#1" {
				ok = false
			}
		}
		c.Check(ok && n > 0, "C04.2", t+".qcRef: the block a QC certifies is the one stored under the QC's hash", p.FuncPos(fn),
			"returns blockchain.Get(qc.BlockHash()) or (nil, false)", "qcRef returns something other than the look-up of the QC's block hash")
	}
	for _, x := range []struct {
		t string
		n int64
	}{{"ChainedHotStuff", 3}, {"FastHotStuff", 2}, {"SimpleHotStuff", 3}} {
		fn := p.Method("protocol/rules", x.t, "ChainLength")
		if fn == nil {
			c.Unresolved("C04.3", x.t+".ChainLength", "anchor missing")
			continue
		}
		ok := false
		for _, r := range returnsOf(fn) {
			if cst, isC := r.Results[0].(*ssa.Const); isC {
				if v, isInt := constInt(cst); isInt && v.IsInt() && v.Num().Int64() == x.n {
					ok = true
				}
			}
		}
		c.Check(ok, "C04.3", x.t+".ChainLength = "+itoa(int(x.n)), p.FuncPos(fn), "the commit-chain length constant matches the rule", "unexpected chain length")
	}
	c.whoMayWrite("C04.4", p.Field("protocol/rules", "ChainedHotStuff", "bLock"), "ChainedHotStuff.bLock", "(*hs/protocol/rules.ChainedHotStuff).CommitRule")
	c.whoMayWrite("C04.4", p.Field("protocol/rules", "SimpleHotStuff", "locked"), "SimpleHotStuff.locked", "(*hs/protocol/rules.SimpleHotStuff).CommitRule")
	// Byzantine wrappers embed a Ruleset and override only ProposeRule
	rs := p.Iface("protocol/consensus", "Ruleset")
	for _, t := range p.Implementations(rs, false) {
		path := t.Obj().Pkg().Path()
		switch {
		case path == modPath+"/protocol/rules":
			continue
		case path == modPath+"/twins":
			c.Exempt("C04.5", t.Obj().Name(), p.Pos(t.Obj().Pos()), "test fixture of the twins package: a deliberately unsafe ruleset used to check that the twins tester finds violations")
			continue
		}
		var own []string
		for i := 0; i < t.NumMethods(); i++ {
			switch t.Method(i).Name() {
			case "VoteRule", "CommitRule", "ChainLength":
				own = append(own, t.Method(i).Name())
			}
		}
		c.Check(len(own) == 0, "C04.5", shorten(t.String())+": inherits VoteRule/CommitRule", p.Pos(t.Obj().Pos()),
			"the wrapper overrides only the proposing side; voting and committing are the wrapped ruleset's", "wrapper redefines "+join(own))
	}
}
