package main

// A3 WHO: who may call / reference a function, resolved over the type-checked SSA
// program: static calls, interface dispatch (receiver type implements the interface
// the call is made through), generic instantiations, bound-method values and function
// values escaping into variables (reported as "value reference").

import (
	"go/token"
	"go/types"
	"sort"
	"strings"

	"golang.org/x/tools/go/ssa"
)

// Ref is a use of a function.
type Ref struct {
	In    *ssa.Function
	Instr ssa.Instruction
	Kind  string // call | invoke | value
}

func sameFunc(f, target *ssa.Function) bool {
	if f == nil || target == nil {
		return false
	}
	if f == target {
		return true
	}
	if o := f.Origin(); o != nil && o == target {
		return true
	}
	if f.Synthetic != "" && f.Object() != nil && target.Object() != nil && f.Object() == target.Object() {
		return true // bound method wrapper / thunk of the same method
	}
	return false
}

// refsTo lists every production-scope use of target.
func (p *Prog) refsTo(target *ssa.Function) []Ref {
	return p.refsTo1(target, map[*ssa.Function]bool{}, true)
}

// refsToInPlace is refsTo, except that a use inside an instantiation of a generic function stays
// attributed to that instantiation (it has a body of its own, with its own lock regions) instead of
// being passed on to the instantiation's users.
func (p *Prog) refsToInPlace(target *ssa.Function) []Ref {
	return p.refsTo1(target, map[*ssa.Function]bool{}, false)
}

func (p *Prog) refsTo1(target *ssa.Function, visited map[*ssa.Function]bool, throughInstances bool) []Ref {
	var out []Ref
	if visited[target] {
		return nil
	}
	visited[target] = true
	var recvT types.Type
	if target.Signature.Recv() != nil {
		recvT = target.Signature.Recv().Type()
	}
	for _, fn := range p.ModFuncs {
		eachInstr(fn, func(in ssa.Instruction) {
			if ci, ok := in.(ssa.CallInstruction); ok {
				c := ci.Common()
				if c.IsInvoke() {
					if recvT != nil && c.Method.Name() == target.Name() {
						if iface, ok := c.Value.Type().Underlying().(*types.Interface); ok {
							if types.Implements(recvT, iface) || types.Implements(types.NewPointer(derefT(recvT)), iface) {
								out = append(out, Ref{fn, in, "invoke"})
							}
						}
					}
				} else if sameFunc(c.StaticCallee(), target) {
					out = append(out, Ref{fn, in, "call"})
					return
				}
			}
			for _, op := range in.Operands(nil) {
				if op == nil || *op == nil {
					continue
				}
				var f *ssa.Function
				switch v := (*op).(type) {
				case *ssa.Function:
					f = v
				case *ssa.MakeClosure:
					f, _ = v.Fn.(*ssa.Function)
				}
				if f != nil && sameFunc(f, target) {
					if ci, ok := in.(ssa.CallInstruction); ok && ci.Common().Value == *op && !ci.Common().IsInvoke() {
						continue // already counted as call
					}
					out = append(out, Ref{fn, in, "value"})
				}
			}
		})
	}
	// uses inside synthetic wrappers (promoted-method wrappers, bound-method thunks) are
	// attributed to the users of the wrapper
	var res []Ref
	for _, r := range out {
		if r.In.Synthetic != "" && r.In.Parent() == nil && r.In.Pkg == nil && (throughInstances || r.In.Origin() == nil) || isWrapper(r.In) {
			res = append(res, p.refsTo1(r.In, visited, throughInstances)...)
			continue
		}
		res = append(res, r)
	}
	out = res
	sort.Slice(out, func(i, j int) bool {
		if out[i].In.String() != out[j].In.String() {
			return out[i].In.String() < out[j].In.String()
		}
		return out[i].Instr.Pos() < out[j].Instr.Pos()
	})
	return out
}

func isWrapper(fn *ssa.Function) bool {
	return strings.HasPrefix(fn.Synthetic, "wrapper") || strings.HasPrefix(fn.Synthetic, "bound") || strings.HasPrefix(fn.Synthetic, "thunk")
}

func derefT(t types.Type) types.Type {
	if p, ok := t.Underlying().(*types.Pointer); ok {
		return p.Elem()
	}
	return t
}

// refNames returns the sorted set of declared functions containing the refs.
func refNames(rs []Ref) []string {
	m := map[string]bool{}
	for _, r := range rs {
		m[shortName(declaredParent(r.In))] = true
	}
	var out []string
	for k := range m {
		out = append(out, k)
	}
	sort.Strings(out)
	return out
}

// whoMayCall checks that every use of target lies in one of the allowed declared
// functions and records one obligation.
func (c *Ctx) whoMayCall(rule string, target *ssa.Function, what string, allowed ...string) []Ref {
	if target == nil {
		c.Unresolved(rule, what, "function not found")
		return nil
	}
	refs := c.P.refsTo(target)
	names := refNames(refs)
	// a private helper that runs only on behalf of an allowed function counts as that function
	// (the rules that examine the call sites look into such helpers too: deepSites/deepInstrs)
	for _, r := range refs {
		if nm := shortName(declaredParent(r.In)); len(subset([]string{nm}, allowed)) > 0 && r.Kind == "call" && c.P.ownedByAny(r.In, allowed) {
			allowed = append(allowed, nm)
		}
	}
	extra := subset(names, allowed)
	c.Stat("call_sites", len(refs))
	if len(extra) > 0 {
		var where string
		for _, r := range refs {
			if len(subset([]string{shortName(declaredParent(r.In))}, allowed)) > 0 {
				where = c.P.Pos(r.Instr.Pos())
				break
			}
		}
		c.Violated(rule, what, where, "used outside the allowed set {"+join(allowed)+"}: "+join(extra))
	} else {
		c.Held(rule, what, c.P.FuncPos(target), "all "+itoa(len(refs))+" uses are in {"+join(names)+"}")
	}
	if c.Tier == "thorough" {
		// cross-check with the whole-program VTA call graph (calls through method values,
		// closures stored in fields, generated stubs): its callers must be in the allowed set too
		vn := callerNames(c.P.callersOf(c.P.VTA(), target))
		vextra := subset(vn, allowed)
		c.Stat("vta_cross_checks", 1)
		c.Check(len(vextra) == 0, rule+"/vta", what, c.P.FuncPos(target),
			"whole-program VTA call graph agrees: callers {"+join(vn)+"}", "VTA call graph finds callers outside the allowed set: "+join(vextra))
	}
	return refs
}

// whoMayWrite checks the set of declared functions writing a field (writes to an
// object allocated in the same function, i.e. constructors, are reported separately).
func (c *Ctx) whoMayWrite(rule string, fv *types.Var, what string, allowed ...string) []FieldWrite {
	if fv == nil {
		c.Unresolved(rule, what, "field not found")
		return nil
	}
	ws := c.P.fieldWrites(fv)
	names := writerNames(ws, false)
	var fns []*ssa.Function
	for _, w := range ws {
		fns = append(fns, declaredParent(w.Fn))
	}
	allowed = c.P.withOwnedHelpers(allowed, fns)
	extra := subset(names, allowed)
	c.Stat("field_writes", len(ws))
	if len(extra) > 0 {
		var where string
		for _, w := range ws {
			if !w.Fresh && len(subset([]string{shortName(declaredParent(w.Fn))}, allowed)) > 0 {
				where = c.P.Pos(w.Instr.Pos())
				break
			}
		}
		c.Violated(rule, what, where, "field written outside the allowed set {"+join(allowed)+"}: "+join(extra))
	} else {
		c.Held(rule, what, c.P.Pos(fv.Pos()), "non-constructor writers: {"+join(names)+"}; constructors: {"+join(subset(writerNames(ws, true), names))+"}")
	}
	return ws
}

func itoa(n int) string {
	return sortItoa(n)
}

func sortItoa(n int) string {
	if n == 0 {
		return "0"
	}
	neg := n < 0
	if neg {
		n = -n
	}
	var b []byte
	for n > 0 {
		b = append([]byte{byte('0' + n%10)}, b...)
		n /= 10
	}
	if neg {
		b = append([]byte{'-'}, b...)
	}
	return string(b)
}

// registeredHandlers finds the handler functions passed to eventloop.Register[T] for
// the event type T (by type identity of the instantiation's type argument).
func (p *Prog) registeredHandlers(T types.Type) []*ssa.Function {
	reg := p.Func("core/eventloop", "Register")
	var out []*ssa.Function
	if reg == nil || T == nil {
		return nil
	}
	for _, fn := range p.ModFuncs {
		eachInstr(fn, func(in ssa.Instruction) {
			ci, ok := in.(ssa.CallInstruction)
			if !ok {
				return
			}
			callee := ci.Common().StaticCallee()
			if callee == nil || callee.Origin() != reg {
				return
			}
			ta := callee.TypeArgs()
			if len(ta) != 1 || !types.Identical(ta[0], T) {
				return
			}
			if len(ci.Common().Args) < 2 {
				return
			}
			if h := funcOfValue(ci.Common().Args[1]); h != nil {
				out = append(out, h)
			}
		})
	}
	return out
}

// funcOfValue resolves a function-typed SSA value to the function it denotes.
func funcOfValue(v ssa.Value) *ssa.Function {
	for {
		switch x := v.(type) {
		case *ssa.Function:
			return x
		case *ssa.MakeClosure:
			f, _ := x.Fn.(*ssa.Function)
			return f
		case *ssa.ChangeType:
			v = x.X
		case *ssa.Convert:
			v = x.X
		case *ssa.MakeInterface:
			v = x.X
		case *ssa.Call:
			// a constructor of the module that returns one function literal: `inView(view)` -> its closure
			if cl := closureReturnedBy(x); cl != nil {
				return cl
			}
			return nil
		case *ssa.UnOp:
			// a local variable holding the function (`matches := inView(view)`)
			if a, ok := x.X.(*ssa.Alloc); ok && x.Op == token.MUL {
				var vals []ssa.Value
				storedInto(a, func(sv ssa.Value) bool { vals = append(vals, sv); return false })
				if len(vals) == 1 {
					v = vals[0]
					continue
				}
			}
			return nil
		default:
			return nil
		}
	}
}

// closureReturnedBy: call is a static call of a module function all of whose returns deliver a
// closure of one and the same function literal (a predicate constructor); returns that literal.
func closureReturnedBy(call *ssa.Call) *ssa.Function {
	mc := makeClosureReturnedBy(call)
	if mc == nil {
		return nil
	}
	f, _ := mc.Fn.(*ssa.Function)
	return f
}

func makeClosureReturnedBy(call *ssa.Call) *ssa.MakeClosure {
	cal := call.Call.StaticCallee()
	if cal == nil || cal.Blocks == nil || !inModule(funcPkgPath(cal)) || cal.Signature.Results().Len() != 1 {
		return nil
	}
	var out *ssa.MakeClosure
	for _, r := range returnsOf(cal) {
		v := r.Results[0]
		if ct, ok := v.(*ssa.ChangeType); ok {
			v = ct.X
		}
		mc, ok := v.(*ssa.MakeClosure)
		if !ok || (out != nil && out.Fn != mc.Fn) {
			return nil
		}
		out = mc
	}
	return out
}

// resolveClosure finds the function literal behind a function value used in fl.Fn and the keys,
// in fl.Fn's terms, of what its free variables are bound to ("name" for a by-value capture,
// "*name" for the content of a captured variable). It looks through local variables and through
// constructors of the module that return one literal (whose own parameters are replaced by the
// arguments of the constructor call).
func resolveClosure(fl *Flow, v ssa.Value) (*ssa.Function, map[string]string) {
	for i := 0; i < 4; i++ {
		switch x := v.(type) {
		case *ssa.ChangeType:
			v = x.X
			continue
		case *ssa.UnOp:
			if a, ok := x.X.(*ssa.Alloc); ok && x.Op == token.MUL {
				var vals []ssa.Value
				storedInto(a, func(sv ssa.Value) bool { vals = append(vals, sv); return false })
				if len(vals) == 1 {
					v = vals[0]
					continue
				}
			}
			return nil, nil
		case *ssa.MakeClosure:
			cl, _ := x.Fn.(*ssa.Function)
			if cl == nil {
				return nil, nil
			}
			env := map[string]string{}
			for j, fv := range cl.FreeVars {
				if j >= len(x.Bindings) {
					continue
				}
				k := fl.K.Key(x.Bindings[j])
				env[fv.Name()] = k
				if strings.HasPrefix(k, "&[") && strings.HasSuffix(k, "]") {
					env["*"+fv.Name()] = k[2 : len(k)-1]
				}
			}
			return cl, env
		case *ssa.Call:
			mc := makeClosureReturnedBy(x)
			if mc == nil {
				return nil, nil
			}
			cons := x.Call.StaticCallee()
			cfl := NewFlow(fl.P, cons)
			cl, env := resolveClosure(cfl, mc)
			if cl == nil {
				return nil, nil
			}
			args := make([]string, len(x.Call.Args))
			for j, a := range x.Call.Args {
				args[j] = fl.K.Key(a)
			}
			for name, k := range env {
				env[name] = paramRe.ReplaceAllStringFunc(k, func(m string) string {
					n := 0
					for _, ch := range m[1:] {
						n = n*10 + int(ch-'0')
					}
					if n < len(args) {
						return args[n]
					}
					return m
				})
			}
			return cl, env
		}
		break
	}
	return nil, nil
}

// reachAvoid searches the CFG at instruction granularity, starting just after `from`,
// for an instruction satisfying target without passing one satisfying avoid.
// It returns the first such target found (nil if none): a witness that the "avoid"
// instruction does not lie on every path.
func reachAvoid(from ssa.Instruction, target, avoid func(ssa.Instruction) bool) ssa.Instruction {
	b := from.Block()
	idx := -1
	for i, in := range b.Instrs {
		if in == from {
			idx = i
		}
	}
	return reachAvoidFrom(b, idx+1, target, avoid, map[*ssa.BasicBlock]bool{})
}

func reachAvoidFrom(b *ssa.BasicBlock, start int, target, avoid func(ssa.Instruction) bool, seen map[*ssa.BasicBlock]bool) ssa.Instruction {
	for i := start; i < len(b.Instrs); i++ {
		in := b.Instrs[i]
		if avoid(in) || helperAlways(in, avoid, 0) {
			return nil
		}
		if target(in) {
			return in
		}
	}
	for _, s := range b.Succs {
		if seen[s] || deadEdge(b, s) {
			continue
		}
		seen[s] = true
		if r := reachAvoidFrom(s, 0, target, avoid, seen); r != nil {
			return r
		}
	}
	return nil
}

// reachAvoidEdge is reachAvoid starting at the beginning of block `to`.
func reachAvoidBlock(to *ssa.BasicBlock, target, avoid func(ssa.Instruction) bool) ssa.Instruction {
	return reachAvoidFrom(to, 0, target, avoid, map[*ssa.BasicBlock]bool{to: true})
}

func isReturn(in ssa.Instruction) bool { _, ok := in.(*ssa.Return); return ok }

// deadEdge: b ends in a branch on a constant (`if false && cond`, `if true || cond`: go/ssa keeps both successors) and s
// is the successor that is never taken.
func deadEdge(b, s *ssa.BasicBlock) bool {
	if len(b.Instrs) == 0 || len(b.Succs) != 2 || b.Succs[0] == b.Succs[1] {
		return false
	}
	iff, ok := b.Instrs[len(b.Instrs)-1].(*ssa.If)
	if !ok {
		return false
	}
	switch {
	case isBoolConst(iff.Cond, true):
		return s == b.Succs[1]
	case isBoolConst(iff.Cond, false):
		return s == b.Succs[0]
	}
	return false
}

func isCallTo(fn *ssa.Function) func(ssa.Instruction) bool {
	return func(in ssa.Instruction) bool {
		ci, ok := in.(ssa.CallInstruction)
		return ok && calleeIs(ci.Common(), fn)
	}
}

// cfgSearch explores the CFG at instruction granularity starting just after `from`
// (or at the start of block `startBlock` when from is nil). It does not continue past an
// instruction satisfying avoid, nor along a CFG edge whose edge facts satisfy blocked.
// It returns the first instruction satisfying target, i.e. a witness path exists.
func cfgSearch(fl *Flow, from ssa.Instruction, startBlock *ssa.BasicBlock, target, avoid func(ssa.Instruction) bool, blocked func([]Fact) bool) ssa.Instruction {
	b := startBlock
	idx := 0
	if from != nil {
		b = from.Block()
		for i, in := range b.Instrs {
			if in == from {
				idx = i + 1
			}
		}
	}
	seen := map[*ssa.BasicBlock]bool{}
	var rec func(b *ssa.BasicBlock, start int) ssa.Instruction
	rec = func(b *ssa.BasicBlock, start int) ssa.Instruction {
		for i := start; i < len(b.Instrs); i++ {
			in := b.Instrs[i]
			if avoid != nil && (avoid(in) || helperAlways(in, avoid, 0) || helperAlwaysOrBlocked(fl.P, in, avoid, blocked, 0)) {
				return nil
			}
			if target(in) {
				return in
			}
		}
		for _, s := range b.Succs {
			if deadEdge(b, s) {
				continue
			}
			if blocked != nil && edgeBlocked(fl, b, s, blocked, 0) {
				continue
			}
			if seen[s] {
				continue
			}
			seen[s] = true
			if r := rec(s, 0); r != nil {
				return r
			}
		}
		return nil
	}
	return rec(b, idx)
}

// precedes reports that instruction a is executed before b on every path reaching b
// (same block earlier, or a's block strictly dominates b's block).
func precedes(a, b ssa.Instruction) bool {
	if a.Block() == b.Block() {
		for _, in := range a.Block().Instrs {
			if in == a {
				return true
			}
			if in == b {
				return false
			}
		}
		return false
	}
	return a.Block().Dominates(b.Block())
}

// helperAlways: in is a static call of a function of the caller's own package (a helper the
// statements may have been extracted into) and every path through that helper passes an
// instruction satisfying pred. A must-pass-through rule is then satisfied by the call.
func helperAlways(in ssa.Instruction, pred func(ssa.Instruction) bool, depth int) bool {
	ci, ok := in.(ssa.CallInstruction)
	if !ok || depth > 2 {
		return false
	}
	if _, isGo := in.(*ssa.Go); isGo {
		return false
	}
	if _, isDefer := in.(*ssa.Defer); isDefer {
		return false
	}
	cal := ci.Common().StaticCallee()
	if cal == nil || cal.Blocks == nil || cal.Synthetic != "" || in.Parent() == nil || cal == in.Parent() || funcPkgPath(cal) != funcPkgPath(in.Parent()) {
		return false
	}
	inner := func(x ssa.Instruction) bool { return pred(x) || helperAlways(x, pred, depth+1) }
	return reachAvoidFromPlain(cal.Blocks[0], 0, isReturn, inner, map[*ssa.BasicBlock]bool{cal.Blocks[0]: true}) == nil
}

// helperAlwaysOrBlocked: in is a static call of a helper of the caller's package, and every path through the helper
// either passes an instruction satisfying pred or leaves on an edge closed by blocked (judged on the helper's own
// edge facts: `func (c) signalIfFull() { if c.hasFullBatch() { c.signalReady() } }` satisfies "signal, unless not full").
func helperAlwaysOrBlocked(p *Prog, in ssa.Instruction, pred func(ssa.Instruction) bool, blocked func([]Fact) bool, depth int) bool {
	ci, ok := in.(ssa.CallInstruction)
	if !ok || blocked == nil || depth > 1 {
		return false
	}
	if _, isGo := in.(*ssa.Go); isGo {
		return false
	}
	cal := ci.Common().StaticCallee()
	if cal == nil || cal.Blocks == nil || cal.Synthetic != "" || cal == in.Parent() || funcPkgPath(cal) != funcPkgPath(in.Parent()) {
		return false
	}
	hfl := NewFlow(p, cal)
	return cfgSearchPlain(hfl, cal.Blocks[0], isReturn, func(x ssa.Instruction) bool {
		return pred(x) || helperAlways(x, pred, depth+1)
	}, blocked) == nil
}

// feasiblePathAvoiding reports whether some path from the function's entry to target crosses no edge closed by
// `closed`, where a path may not take contradictory outcomes of one and the same SSA condition value (the same boolean
// tested by two ifs: `ok := …; if ok && bad { return err }; if ok { return nil }`). A small path-sensitive search.
func feasiblePathAvoiding(fl *Flow, target ssa.Instruction, closed func([]Fact) bool) bool {
	type state struct {
		b   *ssa.BasicBlock
		key string
	}
	seen := map[state]bool{}
	steps := 0
	var rec func(b *ssa.BasicBlock, asg map[ssa.Value]bool) bool
	rec = func(b *ssa.BasicBlock, asg map[ssa.Value]bool) bool {
		steps++
		if steps > 20000 {
			return true // give up: treat as open (the rule then reports instead of passing silently)
		}
		keys := make([]string, 0, len(asg))
		for v, t := range asg {
			keys = append(keys, v.Name()+map[bool]string{true: "+", false: "-"}[t])
		}
		sort.Strings(keys)
		st := state{b, strings.Join(keys, ",")}
		if seen[st] {
			return false
		}
		seen[st] = true
		if b == target.Block() {
			return true
		}
		iff, isIf := b.Instrs[len(b.Instrs)-1].(*ssa.If)
		for i, s := range b.Succs {
			next := asg
			if isIf && len(b.Succs) == 2 {
				cond, truth := iff.Cond, i == 0
				for {
					u, ok := cond.(*ssa.UnOp)
					if !ok || u.Op != token.NOT {
						break
					}
					cond, truth = u.X, !truth
				}
				if prev, known := asg[cond]; known && prev != truth {
					continue // contradicts an earlier test of the same value
				}
				if _, known := asg[cond]; !known {
					next = make(map[ssa.Value]bool, len(asg)+1)
					for k, v := range asg {
						next[k] = v
					}
					next[cond] = truth
				}
				var fs []Fact
				fl.decompose(iff.Cond, i == 0, &fs)
				if closed(fs) {
					continue
				}
			}
			if rec(s, next) {
				return true
			}
		}
		return false
	}
	if len(fl.Fn.Blocks) == 0 {
		return false
	}
	return rec(fl.Fn.Blocks[0], map[ssa.Value]bool{})
}

// cfgSearchPlain: cfgSearch from the start of a block without the helper expansions (used by them).
func cfgSearchPlain(fl *Flow, b *ssa.BasicBlock, target, avoid func(ssa.Instruction) bool, blocked func([]Fact) bool) ssa.Instruction {
	seen := map[*ssa.BasicBlock]bool{}
	var rec func(b *ssa.BasicBlock) ssa.Instruction
	rec = func(b *ssa.BasicBlock) ssa.Instruction {
		for _, in := range b.Instrs {
			if avoid(in) {
				return nil
			}
			if target(in) {
				return in
			}
		}
		for _, s := range b.Succs {
			if seen[s] || blocked(fl.edgeFacts(b, s)) {
				continue
			}
			seen[s] = true
			if r := rec(s); r != nil {
				return r
			}
		}
		return nil
	}
	return rec(b)
}

// reachAvoidFromPlain is reachAvoidFrom without helper expansion (used by helperAlways itself).
func reachAvoidFromPlain(b *ssa.BasicBlock, start int, target, avoid func(ssa.Instruction) bool, seen map[*ssa.BasicBlock]bool) ssa.Instruction {
	for i := start; i < len(b.Instrs); i++ {
		in := b.Instrs[i]
		if avoid(in) {
			return nil
		}
		if target(in) {
			return in
		}
	}
	for _, s := range b.Succs {
		if seen[s] || deadEdge(b, s) {
			continue
		}
		seen[s] = true
		if r := reachAvoidFromPlain(s, 0, target, avoid, seen); r != nil {
			return r
		}
	}
	return nil
}

// edgeBlocked decides whether the CFG edge b -> s is closed for a path search: its own edge
// facts satisfy blocked, or the edge is taken on a verdict of a boolean helper of the same
// package and, inside the helper, every path that delivers this verdict crosses a blocked
// edge (facts re-expressed in the caller's terms).
func edgeBlocked(fl *Flow, b, s *ssa.BasicBlock, blocked func([]Fact) bool, depth int) bool {
	if deadEdge(b, s) || blocked(fl.edgeFacts(b, s)) {
		return true
	}
	if depth > 2 || len(b.Instrs) == 0 {
		return false
	}
	iff, ok := b.Instrs[len(b.Instrs)-1].(*ssa.If)
	if !ok || len(b.Succs) != 2 || b.Succs[0] == b.Succs[1] {
		return false
	}
	cond, truth := iff.Cond, s == b.Succs[0]
	for {
		u, ok := cond.(*ssa.UnOp)
		if !ok || u.Op != token.NOT {
			break
		}
		cond, truth = u.X, !truth
	}
	// the verdict of an error-returning helper: `helper(..) != nil` / `== nil`; truth then means "returned nil"
	errVerdict, errIdx := false, 0
	if bo, isBin := cond.(*ssa.BinOp); isBin && (bo.Op == token.NEQ || bo.Op == token.EQL) {
		var other ssa.Value
		if isNilConst(bo.Y) {
			other = bo.X
		} else if isNilConst(bo.X) {
			other = bo.Y
		}
		errT := types.Universe.Lookup("error").Type()
		if c2, isCall := other.(*ssa.Call); isCall && types.Identical(c2.Type(), errT) {
			cond, errVerdict = c2, true
			if bo.Op == token.NEQ {
				truth = !truth
			}
		} else if ex, isEx := other.(*ssa.Extract); isEx && types.Identical(ex.Type(), errT) {
			// the error of a (value, error) helper
			if c2, isCall := ex.Tuple.(*ssa.Call); isCall && ex.Index == c2.Type().(*types.Tuple).Len()-1 {
				cond, errVerdict, errIdx = c2, true, ex.Index
				if bo.Op == token.NEQ {
					truth = !truth
				}
			}
		}
	}
	// the verdict of a (value, ok) helper: the last result, a boolean
	boolIdx := 0
	if ex, isEx := cond.(*ssa.Extract); isEx && !errVerdict && types.Identical(ex.Type(), types.Typ[types.Bool]) {
		if c2, isCall := ex.Tuple.(*ssa.Call); isCall && ex.Index == c2.Type().(*types.Tuple).Len()-1 {
			cond, boolIdx = c2, ex.Index
		}
	}
	call, ok := cond.(*ssa.Call)
	if !ok {
		return false
	}
	cal := call.Call.StaticCallee()
	if cal == nil || cal == fl.Fn || cal.Blocks == nil || cal.Synthetic != "" || funcPkgPath(cal) != funcPkgPath(fl.Fn) {
		return false
	}
	res := cal.Signature.Results()
	if errVerdict {
		if errIdx != res.Len()-1 {
			return false
		}
	} else if boolIdx != res.Len()-1 || !types.Identical(res.At(boolIdx).Type(), types.Typ[types.Bool]) {
		return false
	} else {
		errIdx = boolIdx
	}
	cfl := NewFlow(fl.P, cal)
	args := make([]string, len(call.Call.Args))
	for i, a := range call.Call.Args {
		args[i] = fl.K.Key(a)
	}
	tag := "@~" + cal.Name() + ":b${1}i${2}"
	subst := func(k string) string {
		k = localIDRe.ReplaceAllString(k, tag)
		return paramRe.ReplaceAllStringFunc(k, func(m string) string {
			i := 0
			for _, ch := range m[1:] {
				i = i*10 + int(ch-'0')
			}
			if i < len(args) {
				return args[i]
			}
			return m
		})
	}
	inCaller := func(fs []Fact) bool {
		out := make([]Fact, 0, len(fs))
		for _, f := range fs {
			g := Fact{f.Op, subst(f.L), ""}
			if f.R != "" {
				g.R = subst(f.R)
			}
			if (g.Op == "==" || g.Op == "!=") && g.L > g.R {
				g.L, g.R = g.R, g.L
			}
			out = append(out, g)
		}
		return blocked(out)
	}
	// is there an open path in the helper to a return delivering `truth`?
	seen := map[*ssa.BasicBlock]bool{cal.Blocks[0]: true}
	var open func(x *ssa.BasicBlock) bool
	open = func(x *ssa.BasicBlock) bool {
		if r, ok := x.Instrs[len(x.Instrs)-1].(*ssa.Return); ok {
			v := retValue(r, errIdx)
			if errVerdict {
				switch {
				case isNilConst(v):
					return truth
				case knownNonNilError(v) || cfl.At(r)[neqFact(cfl.K.Key(v), "nil")]:
					return !truth // (also: the helper has just tested it to be non-nil)
				case truth:
					// `return f(..)`: nil iff f returned nil
					fs := []Fact{eqFact(cfl.K.Key(v), "nil")}
					fs = append(fs, cfl.summaryFacts(v, "nil")...)
					return !inCaller(fs)
				default:
					return true
				}
			}
			switch {
			case isBoolConst(v, truth):
				return true
			case isBoolConst(v, !truth):
				return false
			default:
				var fs []Fact
				cfl.decompose(v, truth, &fs)
				return !inCaller(fs)
			}
		}
		for _, y := range x.Succs {
			if seen[y] || edgeBlocked(cfl, x, y, inCaller, depth+1) {
				continue
			}
			seen[y] = true
			if open(y) {
				return true
			}
		}
		return false
	}
	return !open(cal.Blocks[0])
}

// openPathTo searches for a CFG path from the entry of fl.Fn to the block of target that crosses
// no edge closed by `closes` (edge facts, or the verdict of a helper all of whose paths to that
// verdict cross a closed edge: edgeBlocked). It returns "" if every path is closed.
func openPathTo(fl *Flow, target ssa.Instruction, closes func([]Fact) bool) string {
	fn := fl.Fn
	seen := map[*ssa.BasicBlock]bool{fn.Blocks[0]: true}
	work := []*ssa.BasicBlock{fn.Blocks[0]}
	for len(work) > 0 {
		b := work[0]
		work = work[1:]
		if b == target.Block() {
			return "reaches " + fl.P.Pos(target.Pos())
		}
		for _, s := range b.Succs {
			if !seen[s] && !edgeBlocked(fl, b, s, closes, 0) {
				seen[s] = true
				work = append(work, s)
			}
		}
	}
	return ""
}

// withOwnedHelpers extends an allowed set of declared functions by their private helpers: an
// unexported function (among cands) all of whose uses in the module are static calls made from
// allowed functions (or from helpers already admitted). Moving a part of an allowed function
// into such a helper leaves the set of ways to reach the guarded operation unchanged.
func (p *Prog) withOwnedHelpers(allowed []string, cands []*ssa.Function) []string {
	al := map[string]bool{}
	for _, a := range allowed {
		al[a] = true
	}
	out := append([]string{}, allowed...)
	for changed := true; changed; {
		changed = false
		for _, fn := range cands {
			nm := shortName(fn)
			if fn == nil || al[nm] || fn.Object() == nil || fn.Object().Exported() {
				continue
			}
			refs := p.refsTo(fn)
			ok := len(refs) > 0
			for _, r := range refs {
				if r.Kind != "call" || !al[shortName(declaredParent(r.In))] {
					ok = false
				}
				if _, isGo := r.Instr.(*ssa.Go); isGo {
					ok = false
				}
			}
			if ok {
				al[nm] = true
				out = append(out, nm)
				changed = true
			}
		}
	}
	return out
}

// HandlerBody is the function that holds the logic of a registered event handler, and the key of
// the event inside it. Register(el, func(m T) { ... }) registers the logic itself (event = p0);
// Register(el, s.onT) registers a bound method (event = p1); a one-line closure that forwards its
// parameter to a function of its package registers that function.
type HandlerBody struct {
	Fn    *ssa.Function
	EvKey string
	Reg   *ssa.Function // the value given to Register
}

func (p *Prog) registeredHandlerBodies(T types.Type) []HandlerBody {
	var out []HandlerBody
	for _, h := range p.registeredHandlers(T) {
		hb := HandlerBody{Fn: h, EvKey: "p0", Reg: h}
		// what does h forward to?
		forwardTo := func(f *ssa.Function, evParam int) (*ssa.Function, int) {
			if f.Blocks == nil {
				return nil, 0
			}
			var call ssa.CallInstruction
			n := 0
			eachInstr(f, func(in ssa.Instruction) {
				switch x := in.(type) {
				case ssa.CallInstruction:
					n++
					call = x
				case *ssa.Store, *ssa.If, *ssa.MapUpdate, *ssa.Send:
					n += 10
				}
			})
			if n != 1 || call == nil || len(f.Blocks) != 1 {
				return nil, 0
			}
			cal := call.Common().StaticCallee()
			if cal == nil || cal.Blocks == nil || funcPkgPath(cal) != funcPkgPath(declaredParent(f)) && f.Synthetic == "" {
				return nil, 0
			}
			k := NewKeyer(p, f)
			want := "p" + itoa(evParam)
			for i, a := range call.Common().Args {
				ak := k.Key(a)
				if ak == want || ak == "*&["+want+"]" {
					return cal, i
				}
			}
			return nil, 0
		}
		ev := 0
		if strings.Contains(h.Synthetic, "bound method wrapper") {
			// the wrapper's parameters are the method's parameters without the receiver
			if cal, i := forwardTo(h, 0); cal != nil {
				hb.Fn, hb.EvKey = cal, "p"+itoa(i)
				ev = i
			}
		}
		for depth := 0; depth < 2; depth++ {
			cal, i := forwardTo(hb.Fn, ev)
			if cal == nil || cal == hb.Fn {
				break
			}
			// forward only when the event parameter has the event's type there too
			if i >= len(cal.Params) || !types.Identical(cal.Params[i].Type(), T) {
				break
			}
			hb.Fn, hb.EvKey, ev = cal, "p"+itoa(i), i
		}
		out = append(out, hb)
	}
	return out
}
