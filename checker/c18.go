package main

import (
	"go/types"
	"strings"

	"golang.org/x/tools/go/ssa"
)

func init() { register("C18", checkC18) }

const kGen = "hs/twins.Generator."

func checkC18(c *Ctx) {
	p := c.P
	c.Decided = "the scenario generator and shuffle are free of nondeterminism sources (only a seeded source; no map-order dependence in what they output); a scenario that has been built from the current odometer state is always returned (end-of-stream is signalled only on a path that built none); " +
		"the announced remaining count is decremented exactly once per returned scenario, under the lock; the executor's verdict is unsafe exactly when some position has more than one distinct block hash among non-twin replicas, counting by block hash, and the returned commit count is the loop index; " +
		"leaders are taken from configured (non-twin) node ids; node sets are sorted before JSON encoding. The odometer's carry loop covers every digit down to index 0, and the end of the enumeration is recorded exactly when digit 0 wraps."
	c.Decided += " The shuffle callback is a pure swap; scenarios are decoded from JSON into fresh values only."
	c.NotDec = "that the number of scenarios equals L^V and that no scenario repeats (combinatorics of the odometer and of the partition enumeration)."
	c.Expect("C18.1", 3)

	gen := p.Method("twins", "Generator", "NextScenario")
	ng := p.Func("twins", "NewGenerator")
	gps := p.Func("twins", "genPartitionScenarios")
	sh := p.Method("twins", "Generator", "Shuffle")
	cc := p.Func("twins", "checkCommits")
	if cc == nil {
		// the verdict function may be a method of the emulated network: found by what it returns ((safe bool, commits int))
		// among the functions ExecuteScenario calls
		if es := p.Func("twins", "ExecuteScenario"); es != nil {
			for _, hf := range helperClosure(p, es, 1) {
				res := hf.Signature.Results()
				if hf != es && funcPkgPath(hf) == modPath+"/twins" && res.Len() == 2 && types.Identical(res.At(0).Type(), types.Typ[types.Bool]) && types.Identical(res.At(1).Type(), types.Typ[types.Int]) {
					cc = hf
				}
			}
		}
	}
	if gen == nil || ng == nil || gps == nil || sh == nil || cc == nil {
		c.Unresolved("C18.1", "twins", "anchor missing")
		return
	}
	// C18.12 every combination kept in a list owns its storage: where the generator's enumeration helpers keep the result of an
	// append as an element of a list of combinations, and the same base slice is extended more than once (the append sits in a
	// loop that does not redefine the base), the base must be a fresh allocation; otherwise combinations extending one
	// prefix share an array and all show the last extension (repeated scenarios, others never generated)
	{
		nEl := 0
		var bad []string
		for _, hf := range helperClosure(p, ng, 4) {
			if funcPkgPath(hf) != modPath+"/twins" {
				continue
			}
			closure := []*ssa.Function{hf}
			eachInstr(hf, func(in ssa.Instruction) {
				call, isCall := in.(*ssa.Call)
				if !isCall {
					return
				}
				b, isB := call.Call.Value.(*ssa.Builtin)
				if !isB || b.Name() != "append" || len(call.Call.Args) != 2 {
					return
				}
				st, isSlice := call.Type().Underlying().(*types.Slice)
				if !isSlice {
					return
				}
				if _, elemIsSlice := st.Elem().Underlying().(*types.Slice); !elemIsSlice {
					return
				}
				storedInto(sliceBase(call.Call.Args[1]), func(e ssa.Value) bool {
					inner, ok := e.(*ssa.Call)
					if !ok {
						return true
					}
					ib, ok := inner.Call.Value.(*ssa.Builtin)
					if !ok || ib.Name() != "append" {
						return true
					}
					nEl++
					base := inner.Call.Args[0]
					why := notFreshSlice(base, hf, hf, closure, map[ssa.Value]bool{}, 0)
					if why == "" {
						return true
					}
					// is the same base extended repeatedly? (a cycle through the append that avoids the base's definition)
					var defBlock *ssa.BasicBlock
					if bi, ok := base.(ssa.Instruction); ok {
						defBlock = bi.Block()
					}
					repeated := false
					seenB := map[*ssa.BasicBlock]bool{}
					work := append([]*ssa.BasicBlock{}, inner.Block().Succs...)
					for len(work) > 0 {
						bb := work[len(work)-1]
						work = work[:len(work)-1]
						if seenB[bb] || bb == defBlock {
							continue
						}
						seenB[bb] = true
						if bb == inner.Block() {
							repeated = true
							break
						}
						work = append(work, bb.Succs...)
					}
					if repeated {
						bad = append(bad, p.InstrPos(inner)+" in "+shortName(hf)+": extends "+why+" once per iteration")
					}
					return true
				})
			})
		}
		c.Check(len(bad) == 0, "C18.12", "enumeration helpers: every combination kept in a list owns its storage", p.FuncPos(gps),
			itoa(nEl)+" appended combinations examined: none extends a shared slice repeatedly", join(bad)+": combinations that extend the same prefix share one backing array, so all of them end with the last extension (scenarios repeat and others are never generated)")
	}
	// C18.1 determinism
	for _, fn := range []*ssa.Function{ng, gps, gen, sh} {
		es := p.scanEffects(fn, loggerCut)
		c.Check(len(es.nondet) == 0, "C18.1", shortName(fn)+": deterministic", p.FuncPos(fn),
			"no map-order dependence, wall clock, unseeded randomness, channel or goroutine in the "+itoa(es.funcs)+" module functions reachable from it", join(es.nondet))
	}
	{
		k := NewKeyer(p, sh)
		ok := false
		eachInstr(sh, func(in ssa.Instruction) {
			if call, isCall := in.(*ssa.Call); isCall && call.Call.StaticCallee() != nil && call.Call.StaticCallee().String() == "math/rand.New" {
				if strings.HasPrefix(k.Key(call.Call.Args[0]), "math/rand.NewSource(p1)") {
					ok = true
				}
			}
		})
		c.Check(ok, "C18.1", "Shuffle: randomness comes from rand.New(rand.NewSource(seed)) only", p.FuncPos(sh), "same seed, same order", "shuffle source is not seeded from the seed parameter")
	}

	// the list of (leader, partitions) combinations: the field whose length is given to (*rand.Rand).Shuffle
	listField := kGen + "leadersPartitions"
	// C18.6 Shuffle only permutes: the callback given to rand.Shuffle swaps leadersPartitions[i] and [j] and does nothing else
	{
		okSwap := false
		detail := "no swap callback found"
		{
			ks := NewKeyer(p, sh)
			eachInstr(sh, func(in ssa.Instruction) {
				call, ok := in.(*ssa.Call)
				if !ok || call.Call.StaticCallee() == nil || call.Call.StaticCallee().String() != "(*math/rand.Rand).Shuffle" || len(call.Call.Args) < 3 {
					return
				}
				nk := ks.Key(call.Call.Args[1])
				if strings.HasPrefix(nk, "builtin len(") {
					x := nk[len("builtin len("):]
					if i := strings.Index(x, ")"); i > 0 {
						x = x[:i]
					}
					if j := strings.LastIndex(x, "->"); j >= 0 && strings.HasPrefix(x[j+2:], kGen) {
						listField = x[j+2:]
					}
				}
			})
		}
		type swapFn struct {
			fn   *ssa.Function
			i, j string
		}
		var cbs []swapFn
		for _, cl := range Closures(sh) {
			cbs = append(cbs, swapFn{cl, "p0", "p1"})
		}
		// a method value (`r.Shuffle(n, g.swapEntries)`): the method, whose first parameter is the receiver
		eachInstr(sh, func(in ssa.Instruction) {
			call, ok := in.(*ssa.Call)
			if !ok || call.Call.StaticCallee() == nil || call.Call.StaticCallee().String() != "(*math/rand.Rand).Shuffle" || len(call.Call.Args) < 3 {
				return
			}
			if w := funcOfValue(call.Call.Args[2]); w != nil && strings.HasPrefix(w.Synthetic, "bound method wrapper") && w.Object() != nil {
				if tf, isF := w.Object().(*types.Func); isF {
					if m := p.SSA.FuncValue(tf); m != nil && m.Blocks != nil && funcPkgPath(m) == funcPkgPath(sh) {
						cbs = append(cbs, swapFn{m, "p1", "p2"})
					}
				}
			}
		})
		for _, cb := range cbs {
			cl := cb.fn
			k := NewKeyer(p, cl)
			var stores [][2]string
			other := 0
			eachInstr(cl, func(in ssa.Instruction) {
				st, ok := in.(*ssa.Store)
				if !ok {
					return
				}
				ia, ok := st.Addr.(*ssa.IndexAddr)
				if !ok || !strings.HasSuffix(k.Key(ia.X), listField) {
					other++
					return
				}
				stores = append(stores, [2]string{k.Key(ia.Index), k.Key(st.Val)})
			})
			if len(stores) == 2 && other == 0 {
				a, b := stores[0], stores[1]
				lp := func(idx string) string { return "[" + idx + "]" }
				if a[0] != b[0] && strings.HasSuffix(a[1], lp(b[0])) && strings.HasSuffix(b[1], lp(a[0])) && (a[0] == cb.i || a[0] == cb.j) && (b[0] == cb.i || b[0] == cb.j) {
					okSwap = true
				}
				detail = "stores: [" + a[0] + "] := " + shortVal(a[1]) + "; [" + b[0] + "] := " + shortVal(b[1])
			}
		}
		c.Check(okSwap, "C18.6", "Shuffle: the shuffle callback is a pure swap", p.FuncPos(sh), "leadersPartitions[i], leadersPartitions[j] = leadersPartitions[j], leadersPartitions[i] and nothing else: the shuffled list is a permutation", detail)
	}

	// C18.2 no discarded scenario
	{
		fl := NewFlow(p, gen)
		var built ssa.Instruction
		eachInstr(gen, func(in ssa.Instruction) {
			if ms, ok := in.(*ssa.MakeSlice); ok && strings.HasSuffix(ms.Type().String(), "twins.Scenario") {
				built = in
			}
		})
		var builder *ssa.Function
		if built == nil {
			// or built by a private helper of the package that returns it: the call is the point of construction
			eachInstr(gen, func(in ssa.Instruction) {
				call, ok := in.(*ssa.Call)
				if !ok || call.Call.StaticCallee() == nil || !strings.HasSuffix(call.Type().String(), "twins.Scenario") {
					return
				}
				cal := call.Call.StaticCallee()
				if cal.Blocks == nil || funcPkgPath(cal) != funcPkgPath(gen) {
					return
				}
				makes := false
				eachInstr(cal, func(x ssa.Instruction) {
					if ms, ok := x.(*ssa.MakeSlice); ok && strings.HasSuffix(ms.Type().String(), "twins.Scenario") {
						makes = true
					}
				})
				if makes {
					built, builder = in, cal
				}
			})
		}
		if built == nil {
			c.Undecided("C18.2", "NextScenario", p.FuncPos(gen), "construction of the scenario (make(Scenario, ...)) not found")
		} else {
			errRet := func(in ssa.Instruction) bool {
				r, ok := in.(*ssa.Return)
				if !ok || len(r.Results) < 2 {
					return false
				}
				for _, lf := range leaves(fl, retValue(r, 1), r) {
					if !isNilConst(lf.Val) {
						return true
					}
				}
				return false
			}
			w := reachAvoid(built, errRet, func(ssa.Instruction) bool { return false })
			c.Check(w == nil, "C18.2", "NextScenario: a scenario that was built is returned", p.InstrPos(built),
				"no error/EOF return is reachable after the scenario has been built from the current odometer state",
				"the scenario built at "+p.InstrPos(built)+" can be discarded: an EOF/error return at "+posOf(p, w)+" is reachable after it (the last combination is built and dropped, so fewer scenarios are yielded than announced)")
			// and success returns deliver exactly that value
			okRet := false
			for _, r := range returnsOf(gen) {
				if len(r.Results) == 2 {
					var lvs []Leaf
					withLeafStops(func() { lvs = leaves(fl, retValue(r, 0), r) }, builder)
					for _, lf := range lvs {
						if lf.Val == built.(ssa.Value) {
							okRet = true
						}
					}
				}
			}
			c.Check(okRet, "C18.2", "NextScenario: returns the scenario it built", p.FuncPos(gen), "a success return delivers the built scenario", "the built scenario is never returned")
		}
		// C18.3 remaining decremented exactly once per success, under the lock
		var dec []ssa.Instruction
		eachInstr(gen, func(in ssa.Instruction) {
			if st, ok := in.(*ssa.Store); ok {
				if fa, ok := st.Addr.(*ssa.FieldAddr); ok && fieldName(fa.X.Type(), fa.Field) == kGen+"remaining" {
					if fl.K.Key(st.Val) == "(p0->"+kGen+"remaining - c:1)" {
						dec = append(dec, in)
					}
				}
			}
		})
		okOnce := len(dec) == 1
		if okOnce {
			succ := func(in ssa.Instruction) bool {
				r, ok := in.(*ssa.Return)
				if !ok || len(r.Results) < 2 {
					return false
				}
				for _, lf := range leaves(fl, retValue(r, 1), r) {
					if !isNilConst(lf.Val) {
						return false
					}
				}
				return true
			}
			skip := cfgSearch(fl, nil, gen.Blocks[0], succ, func(in ssa.Instruction) bool { return in == dec[0] }, nil)
			again := reachAvoid(dec[0], func(in ssa.Instruction) bool { return in == dec[0] }, func(ssa.Instruction) bool { return false })
			okOnce = skip == nil && again == nil
		}
		c.Check(okOnce, "C18.3", "NextScenario: remaining-- exactly once per returned scenario", p.FuncPos(gen),
			"every success return is preceded by the single decrement, which cannot execute twice in one call", "decrement sites: "+itoa(len(dec))+" or a success path bypasses / repeats it")
		c.checkGuard("C18.3", guards["Generator"])
		// ... and the odometer's digits, not only the slice header: an element of g.indices is read or written only
		// while the generator's mutex is held (a scenario built from `indices := g.indices` after the unlock is built
		// from live digits that another caller is advancing: combinations repeat and others are never returned)
		{
			const mid = "hs/twins.Generator.mut"
			nEl := 0
			var bad []string
			for _, hf := range helperClosure(p, gen, 1) {
				if funcPkgPath(hf) != modPath+"/twins" {
					continue
				}
				init := lockState{}
				if hf != gen {
					continue // helpers are covered by the guard table's "callers hold the lock" analysis
				}
				lf := lockFlow(hf, init)
				isIndices := func(v ssa.Value) bool {
					ld, ok := v.(*ssa.UnOp)
					if !ok {
						return false
					}
					fa, ok := ld.X.(*ssa.FieldAddr)
					return ok && fieldName(fa.X.Type(), fa.Field) == "hs/twins.Generator.indices"
				}
				eachInstr(hf, func(in ssa.Instruction) {
					ia, ok := in.(*ssa.IndexAddr)
					if !ok || !isIndices(ia.X) {
						return
					}
					nEl++
					// every use of the element address (load or store) must happen under the lock
					for _, r := range *ia.Referrers() {
						if _, held := lf[r][mid]; !held {
							bad = append(bad, p.InstrPos(r))
						}
					}
				})
			}
			if nEl == 0 {
				c.Exempt("C18.3", "NextScenario: the odometer's digits are accessed under the generator's mutex", p.FuncPos(gen), "no element access to Generator.indices in NextScenario on this tree (judged where the digits are accessed: guard table)")
			} else {
				sortStrings(bad)
				c.Check(len(bad) == 0, "C18.3", "NextScenario: the odometer's digits are accessed under the generator's mutex", p.FuncPos(gen),
					itoa(nEl)+" element accesses to Generator.indices, all with Generator.mut held", "a digit of the odometer is read or written without the mutex at "+join(bad)+": concurrent callers build scenarios from digits that are being advanced (repeated scenarios, others never returned)")
			}
		}
		// (scenarios are written by concurrent workers: separator and scenario must go out as one unit)
		c.checkGuard("C18.3", guards["JSONWriter"])
		// C18.8 the odometer is advanced only by NextScenario, starting from the all-zero position: the termination
		// rule ("the most significant digit wrapped to 0") is a full cycle only then; the shuffle permutes the
		// combinations through separate offsets
		c.whoMayWrite("C18.8", p.Field("twins", "Generator", "indices"), "Generator.indices", "(*hs/twins.Generator).NextScenario")
		// C18.9 every digit of the odometer runs through 0..L-1 exactly: a digit is advanced by one and reset to 0
		// (with a carry) exactly when it reached L = len(leadersPartitions). A reset one step late yields L+1 values per
		// digit, i.e. repeated scenarios and more scenarios than announced.
		{
			fg := NewFlow(p, gen)
			nInc, nReset := 0, 0
			var bad []string
			// (the odometer may be advanced by a private helper that is handed the digits and the base)
			for _, d := range deepInstrs(fg, func(in ssa.Instruction) bool {
				st, ok := in.(*ssa.Store)
				if !ok {
					return false
				}
				_, ok = st.Addr.(*ssa.IndexAddr)
				return ok
			}, 0) {
				in := d.Instr
				st := in.(*ssa.Store)
				ia := st.Addr.(*ssa.IndexAddr)
				if !strings.HasSuffix(d.Key(ia.X), "hs/twins.Generator.indices") {
					continue
				}
				elem := strings.TrimPrefix(d.Key(ia), "&")
				val := d.Key(st.Val)
				switch {
				case val == "("+elem+" + c:1)":
					nInc++
					// C18.11 the carry runs over every digit, the most significant one (index 0) included: the loop that
					// holds the increment is left, when no digit stops it, only with its index below 0
					if ph, isPhi := ia.Index.(*ssa.Phi); isPhi {
						hdr := ph.Block()
						covered := false
						if _, isIf := hdr.Instrs[len(hdr.Instrs)-1].(*ssa.If); isIf && len(hdr.Succs) == 2 {
							for _, su := range hdr.Succs {
								if su.Dominates(in.Block()) {
									continue
								}
								for _, f := range d.Flow.edgeFacts(hdr, su) {
									if f.Op == "<" && f.L == d.Flow.K.Key(ph) && f.R == "c:0" {
										covered = true
									}
								}
							}
						}
						c.Check(covered, "C18.11", "NextScenario: the carry reaches the most significant digit", p.InstrPos(in),
							"the digit loop ends, if no digit stops it, only when its index has gone below 0", "the digit loop can end before index 0 was advanced: the most significant digit never moves, so the same combinations repeat and the announced count is never reached")
					} else {
						c.Undecided("C18.11", "NextScenario: the carry reaches the most significant digit", p.InstrPos(in), "the digit index is not a loop variable")
					}
				case val == "c:0":
					nReset++
					facts := d.Facts
					if !hasCmp(facts, "<=", func(k string) bool {
						return strings.HasPrefix(k, "builtin len(p0->"+listField+")")
					}, is(elem)) {
						bad = append(bad, p.InstrPos(in)+": reset not under len(leadersPartitions) <= "+shortVal(elem))
					}
				default:
					bad = append(bad, p.InstrPos(in)+": "+shortVal(elem)+" := "+shortVal(val))
				}
			}
			// the end of the enumeration is recorded exactly when the most significant digit wraps
			if df := p.Field("twins", "Generator", "done"); df != nil {
				nDone := 0
				var badDone []string
				for _, d := range deepInstrs(fg, func(in ssa.Instruction) bool {
					st, ok := in.(*ssa.Store)
					if !ok || !isBoolConst(st.Val, true) {
						return false
					}
					fa, ok := st.Addr.(*ssa.FieldAddr)
					return ok && fieldName(fa.X.Type(), fa.Field) == kGen+"done"
				}, 0) {
					nDone++
					atTop := false
					for f := range d.Facts {
						if (f.Op == "<=" || f.Op == "==") && (f.R == "c:0" && strings.Contains(f.L, "phi@") || f.L == "c:0" && f.Op == "==" && strings.Contains(f.R, "phi@")) {
							atTop = true
						}
					}
					if !atTop {
						badDone = append(badDone, p.InstrPos(d.Instr))
					}
				}
				c.Check(nDone > 0 && len(badDone) == 0, "C18.11", "NextScenario: the end is recorded when digit 0 wraps", p.FuncPos(gen),
					"done := true only for digit index 0 (i <= 0), on the wrap of that digit", "the enumeration's end is never recorded, or recorded for another digit ("+join(badDone)+"): more or fewer scenarios are yielded than announced")
			}
			c.Check(nInc == 1 && nReset == 1 && len(bad) == 0, "C18.9", "NextScenario: a digit wraps exactly at len(leadersPartitions)", p.FuncPos(gen),
				"indices[i] is advanced by one and reset to 0 exactly under len(leadersPartitions) <= indices[i]",
				"increments: "+itoa(nInc)+", resets: "+itoa(nReset)+"; "+join(bad))
		}
	}

	// C18.4 verdict
	{
		fl := NewFlow(p, cc)
		var badFalse, badTrue []string
		nF, nT := 0, 0
		var idxKey string
		for _, r := range returnsOf(cc) {
			if !fl.Reachable(r.Block()) {
				continue
			}
			facts := fl.At(r)
			lenCC := func(k string) bool { return strings.HasPrefix(k, "builtin len(make@") }
			if isBoolConst(retValue(r, 0), false) {
				nF++
				if !hasCmp(facts, "!=", lenCC, is("c:1")) {
					badFalse = append(badFalse, p.Pos(r.Pos()))
				}
				idxKey = fl.K.Key(retValue(r, 1))
			} else if isBoolConst(retValue(r, 0), true) {
				nT++
				// reached only through the "no replica has a block at this position" exit
				// (a flag that stays true while no count was recorded, or the per-position count map being empty)
				emptyCount := false
				eachInstr(cc, func(in ssa.Instruction) {
					mu, ok := in.(*ssa.MapUpdate)
					if !ok {
						return
					}
					mk, isMk := mu.Map.(*ssa.MakeMap)
					if !isMk || !inLoop(mk.Block()) || !strings.HasPrefix(fl.K.Key(mu.Key), kBlockHash) {
						return
					}
					if hasCmp(facts, "==", func(k string) bool { return strings.HasPrefix(k, "builtin len("+fl.K.Key(mk)+")") }, is("c:0")) {
						emptyCount = true
					}
				})
				if !emptyCount && !trueOf(facts, func(k string) bool { return strings.HasPrefix(k, "phi@") }) {
					badTrue = append(badTrue, p.Pos(r.Pos()))
				}
			}
		}
		c.Check(nF >= 1 && len(badFalse) == 0, "C18.4/unsafe", "checkCommits: unsafe only when a position has != 1 distinct blocks", p.FuncPos(cc),
			"(false, i) is returned only under len(commitCount) != 1", "false returned without that condition at "+join(badFalse))
		c.Check(nT >= 1 && len(badTrue) == 0, "C18.4/safe", "checkCommits: safe only after every position agreed", p.FuncPos(cc),
			"(true, i) is returned only through the exit taken when no non-twin replica has a block at position i; every earlier position passed the len == 1 test", "true returned at "+join(badTrue)+" without exhausting the positions")
		// the map is keyed by the block hash at position i of a non-twin replica; the loop continues only under len == 1
		okKey, okTwin := false, false
		eachInstr(cc, func(in ssa.Instruction) {
			mu, ok := in.(*ssa.MapUpdate)
			if !ok {
				return
			}
			k := fl.K.Key(mu.Key)
			if strings.HasPrefix(k, kBlockHash) && strings.Contains(k, "executedBlocks[phi@") {
				okKey = true
			}
			// the block at position i may be fetched by a comma-ok helper of the package
			if ek := expandedKey(fl, mu.Key, in); strings.HasPrefix(ek, kBlockHash) && strings.Contains(ek, "executedBlocks[") && strings.Contains(ek, "phi@") {
				okKey = true
			}
			if hasCmp(fl.At(in), "==", func(s string) bool { return strings.HasPrefix(s, "builtin len(") }, is("c:1")) {
				okTwin = true
			}
		})
		if !okKey || !okTwin {
			// the twin filter hoisted out of the position loop: the logs of the non-twin replicas are collected once by a
			// private helper (every element it appends is replica[0].executedBlocks under len(replica) == 1), and the
			// count is keyed by the hash at position i of an element of that list
			eachInstr(cc, func(in ssa.Instruction) {
				mu, ok := in.(*ssa.MapUpdate)
				if !ok {
					return
				}
				k := fl.K.Key(mu.Key)
				if !strings.HasPrefix(k, kBlockHash) {
					return
				}
				for _, cs := range callsIn(cc, false, func(c2 *ssa.CallCommon) bool {
					cal := c2.StaticCallee()
					return cal != nil && cal.Blocks != nil && funcPkgPath(cal) == funcPkgPath(cc) && cal != cc
				}) {
					cv := cs.Value()
					if cv == nil || !strings.HasPrefix(k, kBlockHash+fl.K.Key(cv)+"[") || !strings.Contains(k[len(kBlockHash+fl.K.Key(cv)):], "phi@") || !strings.Contains(k[len(kBlockHash+fl.K.Key(cv)):], "][phi@") {
						continue
					}
					hf := cs.Common().StaticCallee()
					hfl := NewFlow(p, hf)
					nApp, good := 0, true
					eachInstr(hf, func(x ssa.Instruction) {
						ap, ok := x.(*ssa.Call)
						if !ok {
							return
						}
						if b, isB := ap.Call.Value.(*ssa.Builtin); !isB || b.Name() != "append" || !types.Identical(ap.Type(), cv.Type()) {
							return
						}
						nApp++
						var elem string
						storedInto(sliceBase(ap.Call.Args[1]), func(e ssa.Value) bool { elem = hfl.K.Key(e); return false })
						if !strings.HasSuffix(elem, "executedBlocks") || !strings.Contains(elem, "[c:0]") ||
							!hasCmp(hfl.At(x), "==", func(s string) bool { return strings.HasPrefix(s, "builtin len(") }, is("c:1")) {
							good = false
						}
					})
					if nApp > 0 && good {
						okKey, okTwin = true, true
					}
				}
			})
		}
		c.Check(okKey && okTwin, "C18.4/count", "checkCommits: counts distinct block hashes of non-twin replicas", p.FuncPos(cc),
			"commitCount[replica[0].executedBlocks[i].Hash()]++ only for replicas with exactly one node", "keyed by hash at position i: "+boolStr(okKey)+", twins skipped: "+boolStr(okTwin))
		c.Check(strings.HasPrefix(idxKey, "phi@"), "C18.4/index", "checkCommits: the commit count is the position index", p.FuncPos(cc), "the second result is the loop's position counter", "second result is "+idxKey)
	}

	// C18.5 leaders and JSON
	{
		fl := NewFlow(p, ng)
		ok := false
		for _, e := range p.constructSites(namedType(p, "twins", "View")) {
			if e.Fn != ng || e.Alloc == nil {
				continue
			}
			lk := fl.K.Key(complitField(e.Alloc, "Leader"))
			if strings.HasSuffix(lk, "hs/twins.NodeID.ReplicaID") && strings.Contains(lk, "assignNodeIDs(") && strings.Contains(lk, "#0[") {
				ok = true
			}
		}
		if !ok {
			// composite literal stored directly into the appended element
			eachInstr(ng, func(in ssa.Instruction) {
				if st, isSt := in.(*ssa.Store); isSt {
					if fa, isFA := st.Addr.(*ssa.FieldAddr); isFA && strings.HasSuffix(fieldName(fa.X.Type(), fa.Field), "twins.View.Leader") {
						lk := fl.K.Key(st.Val)
						if strings.HasSuffix(lk, "hs/twins.NodeID.ReplicaID") && strings.Contains(lk, "assignNodeIDs(") && strings.Contains(lk, "#0[") {
							ok = true
						}
					}
				}
			})
		}
		if !ok {
			// the views may be assembled by a private helper of the package that is handed the node list
			for _, d := range deepInstrs(fl, func(in ssa.Instruction) bool {
				st, isSt := in.(*ssa.Store)
				if !isSt {
					return false
				}
				fa, isFA := st.Addr.(*ssa.FieldAddr)
				return isFA && strings.HasSuffix(fieldName(fa.X.Type(), fa.Field), "twins.View.Leader")
			}, 0) {
				lk := d.Key(d.Instr.(*ssa.Store).Val)
				if strings.HasSuffix(lk, "hs/twins.NodeID.ReplicaID") && strings.Contains(lk, "assignNodeIDs(") && strings.Contains(lk, "#0[") {
					ok = true
				}
			}
		}
		c.Check(ok, "C18.5", "NewGenerator: leaders are configured non-twin replicas", p.FuncPos(ng), "View.Leader = node.ReplicaID for node ranging over the non-twin nodes returned by assignNodeIDs", "leader source not recognised")
	}
	if mj := p.Method("twins", "NodeSet", "MarshalJSON"); mj != nil {
		fl := NewFlow(p, mj)
		ok := false
		eachInstr(mj, func(in ssa.Instruction) {
			if call, isCall := in.(*ssa.Call); isCall && call.Call.StaticCallee() != nil && call.Call.StaticCallee().String() == "encoding/json.Marshal" {
				if afterOf(fl.At(in), func(s string) bool {
					return strings.HasPrefix(s, "slices.SortFunc[") || strings.HasPrefix(s, "slices.Sort[") || strings.HasPrefix(s, "sort.")
				}) {
					ok = true
				}
			}
		})
		c.Check(ok, "C18.5", "NodeSet.MarshalJSON: sorted before encoding", p.FuncPos(mj), "the ids collected from the map are sorted before json.Marshal (deterministic output)", "map order leaks into the JSON encoding")
	}
	c18FreshDecode(c)
	// C18.10 a scenario source keeps its read position: no method of package twins with a value receiver stores into
	// a field of that receiver (the store would change a copy; the JSON source would return its first scenario for ever)
	{
		var bad []string
		n := 0
		for _, fn := range p.ModFuncs {
			if funcPkgPath(fn) != modPath+"/twins" || fn.Parent() != nil || fn.Blocks == nil || strings.HasSuffix(p.FuncPos(fn), "_test.go") {
				continue
			}
			recv := fn.Signature.Recv()
			if recv == nil {
				continue
			}
			n++
			if _, isPtr := recv.Type().Underlying().(*types.Pointer); isPtr {
				continue
			}
			if _, isStruct := recv.Type().Underlying().(*types.Struct); !isStruct {
				continue
			}
			eachInstr(fn, func(in ssa.Instruction) {
				st, ok := in.(*ssa.Store)
				if !ok {
					return
				}
				fa, ok := st.Addr.(*ssa.FieldAddr)
				if !ok {
					return
				}
				// the receiver, spilled to a local because its address is taken
				al, ok := fa.X.(*ssa.Alloc)
				if !ok {
					return
				}
				spilled := false
				storedInto(al, func(v ssa.Value) bool {
					if v == ssa.Value(fn.Params[0]) {
						spilled = true
					}
					return false
				})
				// returned copies (builder style) are fine: the updated value leaves the method
				returned := false
				for _, r := range returnsOf(fn) {
					for _, res := range r.Results {
						if u, isLoad := res.(*ssa.UnOp); isLoad && u.X == ssa.Value(al) {
							returned = true
						}
					}
				}
				if spilled && !returned {
					bad = append(bad, shortName(fn)+" writes "+fieldVar(fa.X.Type(), fa.Field).Name()+" of its value receiver at "+p.InstrPos(in))
				}
			})
		}
		c.Check(n > 0 && len(bad) == 0, "C18.10", "package twins: no lost update on a value receiver", "twins",
			itoa(n)+" methods examined; none stores into a field of a receiver passed by value", join(bad))
	}
}

// c18FreshDecode (C18.7): scenarios read from JSON are decoded into fresh values. NodeSet's
// UnmarshalJSON adds to an existing set and encoding/json re-uses existing slice elements
// and maps, so decoding into a value that already holds an earlier scenario merges the two.
// Every json.Unmarshal / Decoder.Decode in package twins must therefore decode into a local
// variable that has not been written before, and must not be inside a loop that re-uses it.
func c18FreshDecode(c *Ctx) {
	p := c.P
	n := 0
	for _, fn := range p.ModFuncs {
		if funcPkgPath(fn) != modPath+"/twins" || strings.HasSuffix(p.FuncPos(fn), "_test.go") {
			continue
		}
		eachInstr(fn, func(in ssa.Instruction) {
			call, ok := in.(*ssa.Call)
			if !ok || call.Call.StaticCallee() == nil {
				return
			}
			var dst ssa.Value
			switch call.Call.StaticCallee().String() {
			case "encoding/json.Unmarshal":
				dst = call.Call.Args[1]
			case "(*encoding/json.Decoder).Decode":
				dst = call.Call.Args[1]
			default:
				return
			}
			n++
			if mi, ok := dst.(*ssa.MakeInterface); ok {
				dst = mi.X
			}
			al, isAlloc := dst.(*ssa.Alloc)
			reason := ""
			switch {
			case !isAlloc:
				reason = "the destination " + NewKeyer(p, fn).Key(dst) + " is not a fresh local variable (a field or buffer that survives the call keeps the previous scenario's partitions, which the decoder merges into)"
			default:
				// no store into the local other than its zero value, and the decode is not repeated on the same local
				// (only stores that can execute before the decode matter: a named result is stored back at the return)
				if refs := al.Referrers(); refs != nil {
					for _, r := range *refs {
						st, isSt := r.(*ssa.Store)
						if !isSt || st.Addr != ssa.Value(al) {
							if _, isFA := r.(*ssa.FieldAddr); isFA {
								reason = "the local destination is written before decoding"
							}
							if _, isIA := r.(*ssa.IndexAddr); isIA {
								reason = "the local destination is written before decoding"
							}
							continue
						}
						before := false
						if st.Block() == call.Block() {
							for _, x := range st.Block().Instrs {
								if x == ssa.Instruction(st) {
									before = true
									break
								}
								if x == ssa.Instruction(call) {
									break
								}
							}
						} else {
							before = reachAvoidFromPlain(st.Block(), 0, func(x ssa.Instruction) bool { return x == ssa.Instruction(call) }, func(ssa.Instruction) bool { return false }, map[*ssa.BasicBlock]bool{}) != nil
						}
						if before || inLoop(call.Block()) {
							reason = "the local destination is written before decoding"
						}
					}
				}
				if reason == "" && inLoop(call.Block()) && !inLoop(al.Block()) {
					reason = "the local destination is declared outside the loop that decodes into it"
				}
			}
			c.Check(reason == "", "C18.7", shortName(fn)+": JSON is decoded into a fresh value", p.InstrPos(in),
				"destination is a local variable holding its zero value", reason)
		})
	}
	if n < 3 {
		c.Unresolved("C18.7", "twins JSON decoding", "expected the three decode sites (FromJSON, twinsJSON.NextScenario, NodeSet.UnmarshalJSON); found "+itoa(n))
	}
}

// inLoop reports whether block b lies on a CFG cycle.
func inLoop(b *ssa.BasicBlock) bool {
	seen := map[*ssa.BasicBlock]bool{}
	var walk func(x *ssa.BasicBlock) bool
	walk = func(x *ssa.BasicBlock) bool {
		for _, s := range x.Succs {
			if s == b {
				return true
			}
			if !seen[s] {
				seen[s] = true
				if walk(s) {
					return true
				}
			}
		}
		return false
	}
	return walk(b)
}
