package main

// A5 FLOW, must-incorporate form: which inputs does a computed value incorporate?
// Used for cache keys and hashes. Propagation goes only through operations with an
// explicit summary (hashing, builders, slicing, conversions, map lookups, module
// helpers analysed recursively); anything else contributes only its own key, so an
// un-summarised step never counts as incorporating its inputs.
//
// Tags:  "<leaf key>"                a value used directly (parameters are p0, p1, ...)
//        "ToBytes(<x>)"             x.ToBytes() of an interface value x
//        "Participants(<x>)"        ids obtained from x.Participants()
//        "lookup(<m>)" / "keys(<m>)" values / keys of map m

import (
	"sort"
	"strings"

	"golang.org/x/tools/go/ssa"
)

type depSet map[string]bool

func (d depSet) add(o depSet) {
	for k := range o {
		d[k] = true
	}
}

func (d depSet) sorted() []string {
	var out []string
	for k := range d {
		out = append(out, k)
	}
	sort.Strings(out)
	return out
}

type incorp struct {
	p     *Prog
	fn    *ssa.Function
	k     *Keyer
	memo  map[ssa.Value]depSet
	busy  map[ssa.Value]bool
	param map[*ssa.Parameter]depSet // overrides for closure parameters
	free  map[*ssa.FreeVar]ssa.Value
	outer *incorp
	depth int
}

func newIncorp(p *Prog, fn *ssa.Function) *incorp {
	return &incorp{p: p, fn: fn, k: NewKeyer(p, fn), memo: map[ssa.Value]depSet{}, busy: map[ssa.Value]bool{},
		param: map[*ssa.Parameter]depSet{}, free: map[*ssa.FreeVar]ssa.Value{}}
}

func (ic *incorp) deps(v ssa.Value) depSet {
	if v == nil {
		return depSet{}
	}
	if d, ok := ic.memo[v]; ok {
		return d
	}
	if ic.busy[v] {
		return depSet{}
	}
	ic.busy[v] = true
	d := ic.deps1(v)
	delete(ic.busy, v)
	ic.memo[v] = d
	return d
}

func wrapTag(f string, d depSet) depSet {
	out := depSet{}
	for k := range d {
		out[f+"("+k+")"] = true
	}
	return out
}

func (ic *incorp) deps1(v ssa.Value) depSet {
	out := depSet{}
	switch x := v.(type) {
	case *ssa.Const:
		return out
	case *ssa.Parameter:
		if d, ok := ic.param[x]; ok {
			return d
		}
		out[ic.k.Key(x)] = true
	case *ssa.FreeVar:
		if ov, ok := ic.free[x]; ok && ic.outer != nil {
			return ic.outer.deps(ov)
		}
		out[ic.k.Key(x)] = true
	case *ssa.Alloc:
		// contents of a local: everything stored into it
		storedInto(x, func(sv ssa.Value) bool { out.add(ic.deps(sv)); return false })
		// a local captured by function literals: everything they store into it
		// (`participants.ForEach(func(id) { key = append(key, id.ToBytes()...) })`)
		if refs := x.Referrers(); refs != nil && ic.depth < 4 {
			for _, r := range *refs {
				mc, ok := r.(*ssa.MakeClosure)
				if !ok {
					continue
				}
				cl, _ := mc.Fn.(*ssa.Function)
				if cl == nil {
					continue
				}
				for i, b := range mc.Bindings {
					if b != ssa.Value(x) || i >= len(cl.FreeVars) {
						continue
					}
					sub := ic.closureCtx(mc, cl)
					fv := cl.FreeVars[i]
					eachInstr(cl, func(in ssa.Instruction) {
						if st, ok := in.(*ssa.Store); ok && st.Addr == ssa.Value(fv) {
							out.add(sub.deps(st.Val))
						}
					})
				}
			}
		}
		// a builder / hasher local: everything written to it
		out.add(ic.writtenTo(x))
		// a local byte array filled through a slice of it: binary.<order>.PutUintNN(a[:], v), copy(a[:], v)
		if refs := x.Referrers(); refs != nil {
			for _, r := range *refs {
				sl, ok := r.(*ssa.Slice)
				if !ok || sl.Referrers() == nil {
					continue
				}
				for _, u := range *sl.Referrers() {
					call, ok := u.(*ssa.Call)
					if !ok {
						continue
					}
					if b, isB := call.Call.Value.(*ssa.Builtin); isB && b.Name() == "copy" && call.Call.Args[0] == sl {
						out.add(ic.deps(call.Call.Args[1]))
					}
					if cal := call.Call.StaticCallee(); cal != nil && strings.Contains(cal.String(), "encoding/binary.") && strings.HasPrefix(cal.Name(), "PutUint") && len(call.Call.Args) == 3 && call.Call.Args[1] == sl {
						out.add(ic.deps(call.Call.Args[2]))
					}
				}
			}
		}
		// a local list that is sorted in place before it is used: its elements reach the use in sorted order, not in the
		// order they were produced in (`ids = append(ids, id)` … `slices.Sort(ids)`): the dependence is on the sorted list
		if refs := x.Referrers(); refs != nil {
			sorted := false
			for _, r := range *refs {
				ld, ok := r.(*ssa.UnOp)
				if !ok || ld.Referrers() == nil {
					continue
				}
				for _, u := range *ld.Referrers() {
					if call, ok := u.(*ssa.Call); ok && call.Call.StaticCallee() != nil && len(call.Call.Args) > 0 && call.Call.Args[0] == ssa.Value(ld) {
						if nm := call.Call.StaticCallee().String(); strings.HasPrefix(nm, "slices.Sort") || strings.HasPrefix(nm, "sort.") {
							sorted = true
						}
					}
				}
			}
			if sorted {
				return wrapTag("sorted", out)
			}
		}
	case *ssa.UnOp:
		out.add(ic.deps(x.X))
	case *ssa.Convert:
		out.add(ic.deps(x.X))
	case *ssa.ChangeType:
		out.add(ic.deps(x.X))
	case *ssa.ChangeInterface:
		out.add(ic.deps(x.X))
	case *ssa.MakeInterface:
		out.add(ic.deps(x.X))
	case *ssa.Slice:
		out.add(ic.deps(x.X))
	case *ssa.SliceToArrayPointer:
		out.add(ic.deps(x.X))
	case *ssa.FieldAddr:
		if _, isAlloc := x.X.(*ssa.Alloc); isAlloc {
			out.add(ic.deps(x.X))
		} else {
			for d := range ic.deps(x.X) {
				out[d+"."+fieldVar(x.X.Type(), x.Field).Name()] = true
			}
		}
	case *ssa.Field:
		for d := range ic.deps(x.X) {
			out[d+"."+fieldVar(x.X.Type(), x.Field).Name()] = true
		}
	case *ssa.IndexAddr:
		out.add(ic.deps(x.X))
	case *ssa.Index:
		out.add(ic.deps(x.X))
	case *ssa.Extract:
		out.add(ic.deps(x.Tuple))
	case *ssa.Phi:
		for _, e := range x.Edges {
			out.add(ic.deps(e))
		}
	case *ssa.BinOp:
		out.add(ic.deps(x.X))
		out.add(ic.deps(x.Y))
	case *ssa.Lookup:
		out.add(wrapTag("lookup", ic.deps(x.X)))
	case *ssa.Next:
		if rg, ok := x.Iter.(*ssa.Range); ok {
			out.add(wrapTag("keys", ic.deps(rg.X)))
			out.add(wrapTag("lookup", ic.deps(rg.X)))
		}
	case *ssa.TypeAssert:
		out.add(ic.deps(x.X))
	case *ssa.Call:
		out.add(ic.callDeps(x))
	default:
		out[ic.k.Key(v)] = true
	}
	return out
}

// writtenTo: values written into a strings.Builder / bytes.Buffer / hash.Hash object
// (identified by the SSA value holding it), including writes made by closures that
// capture it.
func (ic *incorp) writtenTo(obj ssa.Value) depSet { return ic.writtenToPath(obj, nil) }

// accessPath splits the address of a (nested) field into the value holding the outermost
// struct and the field names leading to the field.
func accessPath(v ssa.Value) (ssa.Value, []string) {
	var path []string
	for {
		fa, ok := v.(*ssa.FieldAddr)
		if !ok {
			return v, path
		}
		path = append([]string{fieldVar(fa.X.Type(), fa.Field).Name()}, path...)
		v = fa.X
	}
}

// writtenToPath: like writtenTo for the builder held in field path `path` of the struct that obj
// points to (a small key type wrapping the builder). The struct may be handed to module helpers
// and methods, captured by closures and bound as the receiver of a method value.
func (ic *incorp) writtenToPath(obj ssa.Value, path []string) depSet {
	out := depSet{}
	isWrite := func(name string) bool {
		return name == "Write" || name == "WriteString" || name == "WriteByte" || name == "WriteRune"
	}
	type visitKey struct {
		v ssa.Value
		n int
	}
	seen := map[visitKey]bool{}
	var scan func(user *incorp, target ssa.Value, path []string)
	scan = func(user *incorp, target ssa.Value, path []string) {
		if seen[visitKey{target, len(path)}] {
			return
		}
		seen[visitKey{target, len(path)}] = true
		refs := target.Referrers()
		if refs == nil {
			return
		}
		for _, r := range *refs {
			switch x := r.(type) {
			case *ssa.FieldAddr:
				if x.X == target && len(path) > 0 && fieldVar(x.X.Type(), x.Field).Name() == path[0] {
					scan(user, x, path[1:])
				}
			case *ssa.Call:
				if x.Call.IsInvoke() {
					if len(path) == 0 && x.Call.Value == target && isWrite(x.Call.Method.Name()) && len(x.Call.Args) > 0 {
						out.add(user.deps(x.Call.Args[0]))
					}
				} else if cal := x.Call.StaticCallee(); len(path) == 0 && cal != nil && len(x.Call.Args) > 1 && x.Call.Args[0] == target && isWrite(cal.Name()) {
					out.add(user.deps(x.Call.Args[1]))
				} else if cal != nil && inModule(funcPkgPath(cal)) && cal.Blocks != nil && user.depth < 4 {
					// the object is handed to a module helper: whatever the helper writes into that parameter
					// (a bound-method wrapper passes its captured receiver on as the first argument)
					params := cal.Params
					for j, a := range x.Call.Args {
						if a != target || j >= len(params) {
							continue
						}
						sub := newIncorp(user.p, cal)
						sub.depth = user.depth + 1
						for tag := range sub.writtenToPath(params[j], path) {
							out.add(substParams(tag, cal, x.Call.Args, user))
						}
					}
				}
			case *ssa.UnOp:
				// load of a variable holding the object (e.g. *hasherVar): follow
				scan(user, x, path)
			case *ssa.Store:
				// the object (pointer) is spilled into a local that closures capture: follow the local
				if x.Val == target {
					scan(user, x.Addr, path)
				}
			case *ssa.MakeClosure:
				cl, _ := x.Fn.(*ssa.Function)
				if cl == nil {
					continue
				}
				for i, b := range x.Bindings {
					if b == target && i < len(cl.FreeVars) {
						sub := user.closureCtx(x, cl)
						scan(sub, cl.FreeVars[i], path)
					}
				}
			}
		}
	}
	scan(ic, obj, path)
	return out
}

// closureCtx builds the analysis context of a closure created by mc: free variables
// map to the bound values; if the closure is passed to ForEach / RangeWhile of a set,
// or to slices.*Func, its element parameter carries the collection's tags.
func (ic *incorp) closureCtx(mc *ssa.MakeClosure, cl *ssa.Function) *incorp {
	sub := newIncorp(ic.p, cl)
	sub.outer = ic
	sub.depth = ic.depth + 1
	for i, b := range mc.Bindings {
		if i < len(cl.FreeVars) {
			sub.free[cl.FreeVars[i]] = b
		}
	}
	if refs := mc.Referrers(); refs != nil {
		for _, r := range *refs {
			call, ok := r.(*ssa.Call)
			if !ok {
				continue
			}
			if call.Call.IsInvoke() && (call.Call.Method.Name() == "ForEach" || call.Call.Method.Name() == "RangeWhile") && len(cl.Params) > 0 {
				sub.param[cl.Params[0]] = ic.deps(call.Call.Value)
			}
		}
	}
	return sub
}

func (ic *incorp) callDeps(c *ssa.Call) depSet {
	out := depSet{}
	if c.Call.IsInvoke() {
		recv := ic.deps(c.Call.Value)
		switch c.Call.Method.Name() {
		case "ToBytes":
			return wrapTag("ToBytes", recv)
		case "Participants":
			return wrapTag("Participants", recv)
		case "Len":
			return wrapTag("Len", recv)
		case "Sizes":
			return wrapTag("Sizes", recv)
		case "Sum": // hash.Hash.Sum(b): digest of everything written, appended to b
			out.add(ic.writtenTo(c.Call.Value))
			if len(c.Call.Args) > 0 {
				out.add(ic.deps(c.Call.Args[0]))
			}
			return out
		}
		out[ic.k.Key(c)] = true
		return out
	}
	if b, ok := c.Call.Value.(*ssa.Builtin); ok {
		switch b.Name() {
		case "append":
			for _, a := range c.Call.Args {
				out.add(ic.deps(a))
			}
			return out
		case "len":
			return wrapTag("len", ic.deps(c.Call.Args[0]))
		case "cap":
			return out
		}
	}
	cal := c.Call.StaticCallee()
	if cal == nil {
		out[ic.k.Key(c)] = true
		return out
	}
	name := cal.String()
	switch {
	case name == "crypto/sha256.Sum256", name == "crypto/sha256.Sum224", name == "crypto/sha512.Sum512":
		return ic.deps(c.Call.Args[0])
	case name == "(*strings.Builder).String", name == "(*bytes.Buffer).Bytes", name == "(*bytes.Buffer).String":
		if u := c.Call.Args[0]; u != nil {
			root, path := accessPath(u)
			out.add(ic.writtenToPath(root, path))
			if prm, isPrm := root.(*ssa.Parameter); isPrm && prm.Parent() == ic.fn && ic.outer == nil {
				// the builder belongs to the caller's object: the caller adds what it wrote
				out["written("+ic.k.Key(prm)+"|"+strings.Join(path, ".")+")"] = true
			}
			return out
		}
	case strings.HasPrefix(name, "slices.Sorted"), strings.HasPrefix(name, "slices.Clone"), strings.HasPrefix(name, "slices.Collect"):
		return ic.deps(c.Call.Args[0])
	case strings.HasPrefix(name, "maps.Keys"):
		return wrapTag("keys", ic.deps(c.Call.Args[0]))
	case strings.HasPrefix(name, "maps.Values"):
		return wrapTag("lookup", ic.deps(c.Call.Args[0]))
	case name == "("+modPath+".ID).ToBytes", name == "("+modPath+".View).ToBytes",
		strings.Contains(name, "encoding/binary.") && strings.HasPrefix(cal.Name(), "Append"):
		for _, a := range c.Call.Args {
			out.add(ic.deps(a))
		}
		return out
	}
	if b, ok := c.Call.Value.(*ssa.Builtin); ok {
		switch b.Name() {
		case "append":
			for _, a := range c.Call.Args {
				out.add(ic.deps(a))
			}
			return out
		case "len":
			return wrapTag("len", ic.deps(c.Call.Args[0]))
		case "cap":
			return out
		}
	}
	// module helper: analyse recursively, substituting argument tags for parameters
	if inModule(funcPkgPath(cal)) && cal.Blocks != nil && ic.depth < 3 {
		sub := newIncorp(ic.p, cal)
		sub.depth = ic.depth + 1
		res := depSet{}
		for _, r := range returnsOf(cal) {
			if len(r.Results) > 0 {
				res.add(sub.deps(retValue(r, 0)))
			}
		}
		for tag := range res {
			out.add(substParams(tag, cal, c.Call.Args, ic))
		}
		return out
	}
	out[ic.k.Key(c)] = true
	return out
}

// substParams rewrites a callee-relative tag (mentioning p<i>) into caller terms.
func substParams(tag string, cal *ssa.Function, args []ssa.Value, ic *incorp) depSet {
	out := depSet{}
	if strings.HasPrefix(tag, "written(p") && strings.HasSuffix(tag, ")") {
		body := tag[len("written(") : len(tag)-1]
		if bar := strings.Index(body, "|"); bar > 0 {
			for i := range cal.Params {
				if body[:bar] == "p"+itoa(i) && i < len(args) {
					root, pre := accessPath(args[i])
					var path []string
					if body[bar+1:] != "" {
						path = strings.Split(body[bar+1:], ".")
					}
					return ic.writtenToPath(root, append(pre, path...))
				}
			}
		}
	}
	for i := range cal.Params {
		pi := "p" + itoa(i)
		if tag == pi {
			return ic.deps(args[i])
		}
		if idx := strings.Index(tag, "("+pi+")"); idx >= 0 {
			for d := range ic.deps(args[i]) {
				out[strings.Replace(tag, "("+pi+")", "("+d+")", 1)] = true
			}
			return out
		}
	}
	out[tag] = true
	return out
}
