package main

import (
	"strings"

	"golang.org/x/tools/go/ssa"
)

func init() { register("C05", checkC05) }

func checkC05(c *Ctx) {
	p := c.P
	c.Decided = "pacemaker shape facts without which some admissible history stalls forever: every view advance stops and restarts the view timer and forgets the last timeout; a local timeout restarts the timer on every path and, unless signing failed, always broadcasts a timeout (the stored one while the view has not changed, otherwise a fresh one that is also fed to the local collector); " +
		"after advancing, the new view's leader creates and proposes, every other replica sends its sync info to the leader; the local timer event leads to OnLocalTimeout exactly when it is for the current view; " +
		"a timeout quorum's certificate reaches advanceView and cannot be spoiled by other views' timeouts (imported from C08). The sync info a replica reports about itself carries both its highest QC and its highest TC."
	c.NotDec = "the statement itself: 'within a bounded number of views' and 'commits trail by exactly the chain length' quantify over schedules and timer values; no sound static bound is in reach of this technique, so the progress property proper is NOT decided here."
	c.Expect("C05.1", 3)

	adv := p.Method("protocol/synchronizer", "Synchronizer", "advanceView")
	olt := p.Method("protocol/synchronizer", "Synchronizer", "OnLocalTimeout")
	startT := p.Method("protocol/synchronizer", "Synchronizer", "startTimeoutTimer")
	stopT := p.Method("protocol/synchronizer", "Synchronizer", "stopTimeoutTimer")
	nextView := p.Method("protocol", "ViewStates", "NextView")
	ort := p.Method("protocol/synchronizer", "Synchronizer", "OnRemoteTimeout")
	if adv == nil || olt == nil || startT == nil || stopT == nil || nextView == nil || ort == nil {
		c.Unresolved("C05.1", "Synchronizer", "anchor missing")
		return
	}
	// the part of advanceView that enters the next view: advanceView itself or the private helper it was split into
	advRoot := adv
	for _, hf := range helperClosure(p, advRoot, 2) {
		if len(callsIn(hf, false, func(cc *ssa.CallCommon) bool { return calleeIs(cc, nextView) })) > 0 {
			adv = hf
			break
		}
	}
	fl := NewFlow(p, adv)
	flRoot := fl
	if adv != advRoot {
		flRoot = NewFlow(p, advRoot)
	}
	isStoreLastTimeoutNil := func(in ssa.Instruction) bool {
		st, ok := in.(*ssa.Store)
		if !ok {
			return false
		}
		fa, ok := st.Addr.(*ssa.FieldAddr)
		return ok && strings.HasSuffix(fieldName(fa.X.Type(), fa.Field), "Synchronizer.lastTimeout") && isNilConst(st.Val)
	}
	for _, s := range callsIn(adv, false, func(cc *ssa.CallCommon) bool { return calleeIs(cc, nextView) }) {
		facts := fl.At(s)
		okStop := afterOf(facts, func(k string) bool {
			return strings.HasPrefix(k, "(*hs/protocol/synchronizer.Synchronizer).stopTimeoutTimer(p0)")
		})
		w1 := reachAvoid(s, isReturn, isCallTo(startT))
		w2 := reachAvoid(s, isReturn, isStoreLastTimeoutNil)
		c.Check(okStop && w1 == nil && w2 == nil, "C05.1", "advanceView: timer restarted and last timeout forgotten on every advance", p.Pos(s.Pos()),
			"NextView is preceded by stopTimeoutTimer and followed on every path by startTimeoutTimer and lastTimeout = nil",
			"stop before: "+boolStr(okStop)+", restart after: "+boolStr(w1 == nil)+", lastTimeout reset: "+boolStr(w2 == nil))
		// C05.2 leader proposes / others notify the leader. The comparison of GetLeader(new view) with the replica's id
		// sits in advanceView, in the function holding NextView, or in another private helper below advanceView; the view
		// given to GetLeader is tied to this NextView() result by a value slice through helper parameters and results.
		var leaderEdgeOK, otherEdgeOK bool
		cp := p.Method("protocol/consensus", "Proposer", "CreateProposal")
		pr := p.Method("protocol/consensus", "Proposer", "Propose")
		sliceEnterHelpers, sliceProg = funcPkgPath(advRoot), p
		for _, hf := range helperClosure(p, advRoot, 2) {
			if funcPkgPath(hf) != funcPkgPath(advRoot) {
				continue
			}
			hfl := NewFlow(p, hf)
			// GetLeader calls of hf whose view argument is the new view
			newViewLeader := map[string]bool{}
			eachInstr(hf, func(in ssa.Instruction) {
				call, ok := in.(*ssa.Call)
				if !ok || !call.Call.IsInvoke() || call.Call.Method.Name() != "GetLeader" || len(call.Call.Args) == 0 {
					return
				}
				if backwardSliceOpt(call.Call.Args[0], true, func(x ssa.Value) bool { return x == s.Value() }) {
					newViewLeader[hfl.K.Key(call)] = true
				}
			})
			if len(newViewLeader) == 0 {
				continue
			}
			for _, b := range hf.Blocks {
				for _, succ := range b.Succs {
					for _, f := range hfl.edgeFacts(b, succ) {
						isLeaderCmp := (newViewLeader[f.L] && strings.HasPrefix(f.R, "(*hs/core.RuntimeConfig).ID(")) ||
							(newViewLeader[f.R] && strings.HasPrefix(f.L, "(*hs/core.RuntimeConfig).ID("))
						if !isLeaderCmp {
							continue
						}
						if f.Op == "==" {
							// leader: CreateProposal on every path; Propose after it succeeded
							if reachAvoidBlock(succ, isReturn, isCallTo(cp)) == nil {
								okProp := true
								for _, cs := range callsIn(hf, false, func(cc *ssa.CallCommon) bool { return calleeIs(cc, cp) }) {
									ck := hfl.K.Key(cs.Value())
									for _, b2 := range hf.Blocks {
										for _, s2 := range b2.Succs {
											for _, f2 := range hfl.edgeFacts(b2, s2) {
												if f2.Op == "==" && oneIsNil(f2) && nonNil(f2) == ck+"#1" {
													if reachAvoidBlock(s2, isReturn, isCallTo(pr)) != nil {
														okProp = false
													}
												}
											}
										}
									}
								}
								leaderEdgeOK = okProp
							}
						}
						if f.Op == "!=" {
							if reachAvoidBlock(succ, isReturn, func(in ssa.Instruction) bool {
								ci, ok := in.(ssa.CallInstruction)
								return ok && ci.Common().IsInvoke() && ci.Common().Method.Name() == "NewView"
							}) == nil {
								otherEdgeOK = true
							}
						}
					}
				}
			}
		}
		sliceEnterHelpers, sliceProg = "", nil
		c.Check(leaderEdgeOK && otherEdgeOK, "C05.2", "advanceView: the new leader proposes, others send new-view to it", p.Pos(s.Pos()),
			"when GetLeader(newView) is this replica every path calls CreateProposal and, if that succeeds, Propose; otherwise every path calls sender.NewView(leader, syncInfo)",
			"leader path ok: "+boolStr(leaderEdgeOK)+", non-leader path ok: "+boolStr(otherEdgeOK))
	}
	// C05.1 OnLocalTimeout restarts the timer on every path
	{
		w := cfgSearch(NewFlow(p, olt), nil, olt.Blocks[0], isReturn, isCallTo(startT), nil)
		c.Check(w == nil, "C05.1", "OnLocalTimeout: the timer is restarted on every path", p.FuncPos(olt),
			"no return is reachable without startTimeoutTimer", "a return at "+posOf(p, w)+" is reachable without restarting the view timer: the replica never times out again")
	}
	// C05.3 OnLocalTimeout always broadcasts a timeout unless signing failed
	{
		fo := NewFlow(p, olt)
		isSendTimeout := func(in ssa.Instruction) bool {
			ci, ok := in.(ssa.CallInstruction)
			return ok && ci.Common().IsInvoke() && ci.Common().Method.Name() == "Timeout" && strings.Contains(ci.Common().Value.Type().String(), "core.Sender")
		}
		w := cfgSearch(fo, nil, olt.Blocks[0], isReturn, isSendTimeout, func(fs []Fact) bool {
			for _, f := range fs {
				if f.Op == "!=" && oneIsNil(f) && strings.Contains(nonNil(f), "TimeoutRuler).LocalTimeoutRule(") && strings.HasSuffix(nonNil(f), "#1") {
					return true // signing failed
				}
				// the outcome of a helper that reports having sent the timeout (`if s.resendLastTimeout(view) { return }`)
				if f.Op == "after" && strings.HasPrefix(f.L, "invoke (hs/core.Sender).Timeout(") {
					return true
				}
			}
			return false
		})
		c.Check(w == nil, "C05.3", "OnLocalTimeout: a timeout is broadcast on every non-error path", p.FuncPos(olt),
			"every path to a return passes sender.Timeout(...) unless LocalTimeoutRule returned an error", "a return at "+posOf(p, w)+" is reachable without broadcasting a timeout")
		// resend of the stored timeout only for the same view; fresh one is stored and fed to the local collector.
		// The three uses of the fresh message may sit in private helpers of the package: they are found from the
		// handler (deep sites) and tied to the result of LocalTimeoutRule by a value slice through helper
		// parameters and results.
		sliceEnterHelpers, sliceProg = funcPkgPath(olt), p
		isFresh := func(v ssa.Value) bool {
			return backwardSliceOpt(v, true, func(x ssa.Value) bool {
				ex, ok := x.(*ssa.Extract)
				if !ok || ex.Index != 0 {
					return false
				}
				call, ok := ex.Tuple.(*ssa.Call)
				return ok && call.Call.IsInvoke() && call.Call.Method.Name() == "LocalTimeoutRule"
			})
		}
		isStored := func(v ssa.Value) bool {
			return backwardSliceOpt(v, true, func(x ssa.Value) bool {
				u, ok := x.(*ssa.UnOp)
				if !ok {
					return false
				}
				fa, ok := u.X.(*ssa.FieldAddr)
				return ok && strings.HasSuffix(fieldName(fa.X.Type(), fa.Field), "Synchronizer.lastTimeout")
			})
		}
		okResend, sentFresh := false, false
		for _, ds := range deepSites(fo, func(cc *ssa.CallCommon) bool {
			return cc.IsInvoke() && cc.Method.Name() == "Timeout" && strings.Contains(cc.Value.Type().String(), "core.Sender")
		}, 0) {
			arg := ds.Site.Common().Args[0]
			switch {
			case isFresh(arg):
				sentFresh = true
			case isStored(arg):
				if hasCmp(ds.Facts, "==", contains("Synchronizer.lastTimeout->hs.TimeoutMsg.View"), func(k string) bool { return strings.HasPrefix(k, "(*hs/protocol.ViewStates).View(") }) &&
					notNilOf(ds.Facts, is("p0->hs/protocol/synchronizer.Synchronizer.lastTimeout")) {
					okResend = true
				}
			}
		}
		// position of a deep instruction in the handler: itself, or the handler's call that leads to it
		var storePos, fedPos, storeIn, fedIn ssa.Instruction
		for _, d := range deepInstrs(fo, func(in ssa.Instruction) bool {
			st, ok := in.(*ssa.Store)
			if !ok {
				return false
			}
			fa, ok := st.Addr.(*ssa.FieldAddr)
			return ok && strings.HasSuffix(fieldName(fa.X.Type(), fa.Field), "Synchronizer.lastTimeout")
		}, 0) {
			if isFresh(d.Instr.(*ssa.Store).Val) {
				storeIn, storePos = d.Instr, d.Instr
				if len(d.Path) > 0 {
					storePos = d.Path[0]
				}
			}
		}
		for _, ds := range deepSites(fo, func(cc *ssa.CallCommon) bool { return calleeIs(cc, ort) }, 0) {
			if isFresh(ds.Site.Common().Args[1]) {
				fedIn, fedPos = ds.Site, ds.Site
				if ds.Via != nil {
					fedPos = ds.Via
				}
			}
		}
		sliceEnterHelpers, sliceProg = "", nil
		stored, fed := storeIn != nil, fedIn != nil
		_, _ = storePos, fedPos
		// (the order of remembering and counting is immaterial: the resend gate compares the remembered view)
		okFresh := sentFresh && stored && fed
		c.Check(okResend && okFresh, "C05.3", "OnLocalTimeout: resend for the same view, otherwise a fresh timeout that is remembered and counted locally", p.FuncPos(olt),
			"the stored timeout is resent only while lastTimeout.View equals the current view; a fresh one is stored in lastTimeout and passed to OnRemoteTimeout",
			"resend gate: "+boolStr(okResend)+", fresh timeout sent: "+boolStr(sentFresh)+", stored: "+boolStr(stored)+", fed to the collector: "+boolStr(fed))
	}
	// timer event -> OnLocalTimeout for the current view only
	{
		ok := false
		for _, hb := range p.registeredHandlerBodies(namedType(p, "", "TimeoutEvent")) {
			h := hb.Fn
			if funcPkgPath(h) != modPath+"/protocol/synchronizer" {
				continue
			}
			fh := NewFlow(p, h)
			for _, s := range callsIn(h, false, func(cc *ssa.CallCommon) bool { return calleeIs(cc, olt) }) {
				if hasCmp(fh.At(s), "==", func(k string) bool { return strings.HasPrefix(k, "(*hs/protocol.ViewStates).View(") }, is(hb.EvKey+".hs.TimeoutEvent.View")) {
					ok = true
				}
			}
		}
		// the timer's callback adds TimeoutEvent{View: <view read when the timer was armed>}: the event is built in a
		// function literal of the package from a captured value (not read when the timer fires), and the captured value
		// is ViewStates.View() as read by the arming code (directly, or handed down as a parameter)
		armed := false
		isCurrentView := func(v ssa.Value, depth int) bool { return false }
		isCurrentView = func(v ssa.Value, depth int) bool {
			if depth > 3 {
				return false
			}
			if call, ok := v.(*ssa.Call); ok && call.Call.StaticCallee() != nil && call.Call.StaticCallee().String() == "(*"+modPath+"/protocol.ViewStates).View" {
				return true
			}
			if u, ok := v.(*ssa.UnOp); ok {
				if al, ok := u.X.(*ssa.Alloc); ok {
					all, n := true, 0
					storedInto(al, func(x ssa.Value) bool {
						n++
						if !isCurrentView(x, depth+1) {
							all = false
						}
						return false
					})
					return all && n > 0
				}
			}
			if prm, ok := v.(*ssa.Parameter); ok {
				fn := prm.Parent()
				idx := -1
				for i, q := range fn.Params {
					if q == prm {
						idx = i
					}
				}
				callers := callIndexOf(p).callers[fn]
				if idx < 0 || len(callers) == 0 || callIndexOf(p).asValue[fn] {
					return false
				}
				for _, r := range callers {
					ci, ok := r.Instr.(ssa.CallInstruction)
					if !ok || idx >= len(ci.Common().Args) || !isCurrentView(ci.Common().Args[idx], depth+1) {
						return false
					}
				}
				return true
			}
			return false
		}
		for _, e := range p.constructSites(namedType(p, "", "TimeoutEvent")) {
			cl := e.Fn
			if cl.Parent() == nil || e.Alloc == nil || funcPkgPath(cl) != modPath+"/protocol/synchronizer" || strings.HasSuffix(p.FuncPos(cl), "_test.go") {
				continue
			}
			vv := complitField(e.Alloc, "View")
			var fv *ssa.FreeVar
			switch x := vv.(type) {
			case *ssa.FreeVar:
				fv = x
			case *ssa.UnOp:
				fv, _ = x.X.(*ssa.FreeVar)
			}
			if fv == nil {
				continue
			}
			eachInstr(cl.Parent(), func(in ssa.Instruction) {
				mc, ok := in.(*ssa.MakeClosure)
				if !ok || mc.Fn != ssa.Value(cl) {
					return
				}
				for i, q := range cl.FreeVars {
					if q != fv || i >= len(mc.Bindings) {
						continue
					}
					b := mc.Bindings[i]
					if al, isAlloc := b.(*ssa.Alloc); isAlloc {
						// captured by reference: what the arming code stored into the variable
						all, n := true, 0
						storedInto(al, func(x ssa.Value) bool {
							n++
							if !isCurrentView(x, 0) {
								all = false
							}
							return false
						})
						if all && n > 0 {
							armed = true
						}
					} else if isCurrentView(b, 0) {
						armed = true
					}
				}
			})
		}
		c.Check(ok && armed, "C05.1", "timer event: handled by OnLocalTimeout exactly for the current view", p.FuncPos(startT),
			"the timer adds TimeoutEvent{View: view at arming time}; the handler calls OnLocalTimeout under state.View() == event.View", "handler gate: "+boolStr(ok)+", event carries the arming view: "+boolStr(armed))
	}
	// C05.6 a proposal for a view the replica has not reached yet is kept until the next view change, not dropped
	for _, hb := range p.registeredHandlerBodies(namedType(p, "", "ProposeMsg")) {
		h := hb.Fn
		ev := hb.EvKey
		if funcPkgPath(h) != modPath+"/protocol/synchronizer" {
			continue
		}
		delay := p.Func("core/eventloop", "DelayUntil")
		isDelay := func(in ssa.Instruction) bool {
			call, ok := in.(*ssa.Call)
			if !ok || call.Call.StaticCallee() == nil {
				return false
			}
			cal := call.Call.StaticCallee()
			return cal.Origin() == delay && len(cal.TypeArgs()) == 1 && cal.TypeArgs()[0].String() == modPath+".ViewChangeEvent"
		}
		// from every edge that establishes localView < proposalView, a return is reachable only through DelayUntil
		// (the far-future drop, proposalView > localView+alpha, is the stated exception). The gate may sit in the
		// handler or in a private helper of its package that the handler asks "not now?".
		found, bad := false, ""
		var argOK bool
		for _, hf := range helperClosure(p, h, 2) {
			if funcPkgPath(hf) != funcPkgPath(h) {
				continue
			}
			fh := NewFlow(p, hf)
			for _, b := range hf.Blocks {
				for _, s := range b.Succs {
					for _, f := range fh.edgeFacts(b, s) {
						if f.Op == "<" && strings.HasPrefix(f.L, "(*hs/protocol.ViewStates).View(") && strings.HasPrefix(f.R, kBlockView) {
							found = true
							if w := reachAvoidBlock(s, isReturn, isDelay); w != nil {
								bad = p.InstrPos(w)
							}
						}
					}
				}
			}
			eachInstr(hf, func(in ssa.Instruction) {
				if !isDelay(in) {
					return
				}
				call := in.(*ssa.Call)
				k := fh.K.Key(call.Call.Args[1])
				if mi, ok := call.Call.Args[1].(*ssa.MakeInterface); ok {
					k = fh.K.Key(mi.X)
				}
				if hf == h {
					argOK = k == ev || k == "*&["+ev+"]" || strings.Contains(k, ev)
					return
				}
				// in a helper: the delayed value is the helper's parameter that the handler binds to the event
				for _, ref := range callIndexOf(p).callers[hf] {
					cs, isCall := ref.Instr.(*ssa.Call)
					if !isCall || declaredParent(ref.In) != declaredParent(h) && ref.In != h {
						continue
					}
					hk := NewKeyer(p, ref.In)
					for i, a := range cs.Call.Args {
						if strings.Contains(k, "p"+itoa(i)) && strings.Contains(hk.Key(a), ev) {
							argOK = true
						}
					}
				}
			})
		}
		c.Check(found && bad == "" && argOK, "C05.6", "ProposeMsg handler: early proposals are deferred to the next view change", p.FuncPos(h),
			"when the proposal's view is ahead of the local view (within the drift limit) the handler always reaches DelayUntil[ViewChangeEvent](proposal)",
			"a proposal ahead of the local view can be dropped (return at "+bad+" without deferring it): a replica that lags by one view never votes")
	}
	c.importFrom(checkC07, "C05.7", "C07.4", "C07.6")

	// C05.8 an honest leader's proposal passes Voter.Verify's link checks: the proposed block's parent is the block its QC certifies
	if npm := p.Func("", "NewProposeMsg"); npm != nil {
		k := NewKeyer(p, npm)
		ok := false
		eachInstr(npm, func(in ssa.Instruction) {
			call, isCall := in.(*ssa.Call)
			if !isCall || call.Call.StaticCallee() == nil || call.Call.StaticCallee().Name() != "NewBlock" {
				return
			}
			a := call.Call.Args
			if len(a) == 5 && k.Key(a[0]) == kQCHash+"p2)" && k.Key(a[1]) == "p2" && k.Key(a[3]) == "p1" && k.Key(a[4]) == "p0" {
				ok = true
			}
		})
		c.Check(ok, "C05.8", "NewProposeMsg: block = NewBlock(qc.BlockHash(), qc, cmd, view, id)", p.FuncPos(npm),
			"the proposed block's parent is the hash certified by the embedded QC, its view and proposer are the arguments", "an honest proposal would be rejected by every voter (parent/QC mismatch) or carry the wrong view/proposer")
		rs := p.Iface("protocol/consensus", "Ruleset")
		for _, t := range p.Implementations(rs, false) {
			if t.Obj().Pkg().Path() != modPath+"/protocol/rules" {
				continue
			}
			fn := p.MethodOf(t, "ProposeRule")
			if fn == nil {
				continue
			}
			kk := NewKeyer(p, fn)
			okP := false
			eachInstr(fn, func(in ssa.Instruction) {
				call, isCall := in.(*ssa.Call)
				if !isCall || call.Call.StaticCallee() != npm {
					return
				}
				a := call.Call.Args
				if strings.HasPrefix(kk.Key(a[0]), "(*hs/core.RuntimeConfig).ID(") && kk.Key(a[1]) == "p1" && strings.HasPrefix(kk.Key(a[2]), "(hs.SyncInfo).QC(p2)") && kk.Key(a[3]) == "p3" {
					okP = true
				}
			})
			c.Check(okP, "C05.8", t.Obj().Name()+".ProposeRule: proposes (own id, current view, the sync info's QC, the batch)", p.FuncPos(fn),
				"NewProposeMsg(config.ID(), view, cert.QC(), cmd)", "the proposal is not built from the current view and the high QC")
		}
	}

	// C05.10 a verified QC raises HighQC even when its view is stale (otherwise a replica that follows views through
	// timeout certificates never learns newer QCs and, once leader, proposes on an old one that locked peers refuse)
	if updQC := p.Method("protocol", "ViewStates", "UpdateHighQC"); updQC != nil {
		var vsi ssa.CallInstruction
		adv, fl := advRoot, flRoot
		for _, s := range callsIn(adv, false, func(cc *ssa.CallCommon) bool { return cc.IsInvoke() && cc.Method.Name() == "VerifySyncInfo" }) {
			vsi = s
		}
		if vsi != nil {
			vk := fl.K.Key(vsi.Value())
			bad := ""
			for _, b := range adv.Blocks {
				for _, s := range b.Succs {
					for _, f := range fl.edgeFacts(b, s) {
						if f.Op == "==" && oneIsNil(f) && nonNil(f) == vk+"#3" {
							w := cfgSearch(fl, nil, s, isReturn, isCallTo(updQC), func(fs []Fact) bool {
								for _, g := range fs {
									if g.Op == "==" && oneIsNil(g) && nonNil(g) == vk+"#0" {
										return true // no QC in the sync info
									}
								}
								return false
							})
							if w != nil {
								bad = p.InstrPos(w)
							}
						}
					}
				}
			}
			c.Check(bad == "", "C05.10", "advanceView: every verified QC is offered to UpdateHighQC, stale view or not", p.FuncPos(adv),
				"after VerifySyncInfo succeeded with a QC, no return is reachable before UpdateHighQC", "a verified QC can be dropped without updating HighQC (return at "+bad+")")
		}
	}

	// C05.11 the view-duration estimator is driven consistently: a failed view lengthens the next timeout exactly once
	// (not on re-sends), a view counts as succeeded only if it was not left by a timeout, every new view restarts the measurement
	{
		fo := NewFlow(p, olt)
		isDur := func(name string) func(ssa.Instruction) bool {
			return func(in ssa.Instruction) bool {
				ci, ok := in.(ssa.CallInstruction)
				return ok && ci.Common().IsInvoke() && ci.Common().Method.Name() == name && strings.Contains(ci.Common().Value.Type().String(), "ViewDuration")
			}
		}
		// every LocalTimeoutRule call (fresh timeout) is preceded by ViewTimeout; the resend path does not call it
		// (call sites in the handler or in private helpers of its package, facts in the handler's terms)
		okFresh, okResend := true, true
		nRule := 0
		viewTimeoutBefore := func(fs FactSet) bool {
			return afterOf(fs, func(k string) bool { return strings.Contains(k, "ViewDuration).ViewTimeout(") })
		}
		for _, ds := range deepSites(fo, func(cc *ssa.CallCommon) bool { return cc.IsInvoke() && cc.Method.Name() == "LocalTimeoutRule" }, 0) {
			nRule++
			if !viewTimeoutBefore(ds.Facts) {
				okFresh = false
			}
		}
		for _, ds := range deepSites(fo, func(cc *ssa.CallCommon) bool { return cc.IsInvoke() && cc.Method.Name() == "Timeout" }, 0) {
			if strings.HasPrefix(ds.Args[0], "*p0->hs/protocol/synchronizer.Synchronizer.lastTimeout") && viewTimeoutBefore(ds.Facts) {
				okResend = false
			}
		}
		nVT := len(deepSites(fo, func(cc *ssa.CallCommon) bool {
			return cc.IsInvoke() && cc.Method.Name() == "ViewTimeout" && strings.Contains(cc.Value.Type().String(), "ViewDuration")
		}, 0))
		c.Check(okFresh && okResend && nRule > 0 && nVT == 1, "C05.11", "OnLocalTimeout: a failed view lengthens the timeout once", p.FuncPos(olt),
			"duration.ViewTimeout() precedes every fresh timeout and is not reached on the re-send path", "fresh path ok: "+boolStr(okFresh)+", resend path ok: "+boolStr(okResend)+", call sites: "+itoa(nVT))
		var bad []string
		for _, ds := range deepSites(flRoot, func(cc *ssa.CallCommon) bool { return cc.IsInvoke() && cc.Method.Name() == "ViewSucceeded" }, 0) {
			facts := ds.Facts
			if ds.In == flRoot.Fn {
				facts = aliasHelperResults(flRoot, facts)
			}
			if !falseOf(facts, func(k string) bool { return strings.Contains(k, "VerifySyncInfo(") && strings.HasSuffix(k, "#2") }) {
				bad = append(bad, "ViewSucceeded at "+p.Pos(ds.Site.Pos())+" not under !timeout")
			}
		}
		for _, s := range callsIn(adv, false, func(cc *ssa.CallCommon) bool { return calleeIs(cc, nextView) }) {
			if reachAvoid(s, isReturn, isDur("ViewStarted")) != nil {
				bad = append(bad, "a return after NextView without ViewStarted")
			}
		}
		c.Check(len(bad) == 0, "C05.11", "advanceView: measurement restarted on every advance, success only without timeout", p.FuncPos(adv),
			"ViewSucceeded() only when the verified sync info is not a timeout; ViewStarted() on every path after NextView", join(bad))
	}

	c05DropOnlyUnverified(c, "C05.12")
	// C05.18 a failed view never shortens the next one: DynamicDuration.ViewTimeout stores mean*mul, and applies the
	// upper bound only when one is configured (max == 0 means "no bound"; min(x, 0) would collapse the timeout to zero)
	if vt := p.Method("protocol/synchronizer", "DynamicDuration", "ViewTimeout"); vt != nil {
		fv := NewFlow(p, vt)
		n := 0
		var bad []string
		eachInstr(vt, func(in ssa.Instruction) {
			st, ok := in.(*ssa.Store)
			if !ok {
				return
			}
			fa, ok := st.Addr.(*ssa.FieldAddr)
			if !ok || !strings.HasSuffix(fieldName(fa.X.Type(), fa.Field), "DynamicDuration.mean") {
				return
			}
			n++
			k := fv.K.Key(st.Val)
			grows := strings.Contains(k, "DynamicDuration.mean * ") && strings.Contains(k, "DynamicDuration.mul")
			capped := strings.Contains(k, "DynamicDuration.max")
			if !grows && !capped {
				bad = append(bad, p.InstrPos(in)+": mean := "+shortVal(k))
			}
			if capped && !hasCmp(fv.At(in), "<", is("c:0"), func(x string) bool { return strings.HasSuffix(x, "DynamicDuration.max") }) {
				bad = append(bad, p.InstrPos(in)+": the upper bound is applied without testing that one is configured (max > 0)")
			}
		})
		c.Check(n > 0 && len(bad) == 0, "C05.18", "DynamicDuration.ViewTimeout: a failed view lengthens the timeout", p.FuncPos(vt),
			"mean := mean * mul; an upper bound only under max > 0", join(bad))
	}
	// C05.17 a leader that holds a QC proposes: every ruleset's ProposeRule refuses only a sync info without a QC
	for _, t := range []string{"ChainedHotStuff", "SimpleHotStuff", "FastHotStuff"} {
		pr := p.Method("protocol/rules", t, "ProposeRule")
		if pr == nil {
			c.Unresolved("C05.17", t+".ProposeRule", "anchor missing")
			continue
		}
		fpr := NewFlow(p, pr)
		var bad []string
		for _, r := range returnsOf(pr) {
			if !fpr.Reachable(r.Block()) || len(r.Results) != 2 {
				continue
			}
			refuses := false
			for _, lf := range leaves(fpr, retValue(r, 1), r) {
				if isBoolConst(lf.Val, false) {
					refuses = true
				} else if !isBoolConst(lf.Val, true) {
					// the flag of the QC look-up handed on: false exactly when there is no QC
					if !strings.HasPrefix(lf.KeyIn(fpr), "(hs.SyncInfo).QC(") {
						refuses = true
					}
				}
			}
			if !refuses {
				continue
			}
			noQC := func(f Fact) bool {
				return f.Op == "false" && strings.HasPrefix(f.L, "(hs.SyncInfo).QC(") && strings.HasSuffix(f.L, "#1")
			}
			ok := branchDominates(fpr, r, noQC)
			for f := range fpr.At(r) {
				if noQC(f) {
					ok = true
				}
			}
			if !ok {
				bad = append(bad, p.Pos(r.Pos()))
			}
		}
		c.Check(len(bad) == 0, "C05.17", t+".ProposeRule: refuses only a sync info without a QC", p.FuncPos(pr),
			"ok == false is returned only under cert.QC() reporting no QC", "the rule refuses to propose at "+join(bad)+" although the sync info carries a QC: the leader never proposes")
	}
	// C05.16 what a replica tells others about its state (the sync info in its timeout messages) carries both its highest
	// QC and its highest TC: a replica that fell behind during a run of failed views catches up through the TC
	if sif := p.Method("protocol", "ViewStates", "SyncInfo"); sif != nil {
		fs := NewFlow(p, sif)
		var missing []string
		for _, part := range []struct{ setter, field string }{{"SetQC", "highQC"}, {"SetTC", "highTC"}} {
			isSet := func(in ssa.Instruction) bool {
				ci, ok := in.(ssa.CallInstruction)
				if !ok {
					return false
				}
				cal := ci.Common().StaticCallee()
				if cal == nil || len(ci.Common().Args) < 2 {
					return false
				}
				ak := fs.K.Key(ci.Common().Args[len(ci.Common().Args)-1])
				return (cal.Name() == part.setter || strings.HasPrefix(cal.Name(), "NewSyncInfoWith")) && strings.HasSuffix(ak, "ViewStates."+part.field)
			}
			isWith := func(in ssa.Instruction) bool {
				ci, ok := in.(ssa.CallInstruction)
				if !ok || ci.Common().StaticCallee() == nil || !strings.HasPrefix(ci.Common().StaticCallee().Name(), "NewSyncInfoWith") || len(ci.Common().Args) != 1 {
					return false
				}
				return strings.HasSuffix(fs.K.Key(ci.Common().Args[0]), "ViewStates."+part.field)
			}
			if w := cfgSearch(fs, nil, sif.Blocks[0], isReturn, func(in ssa.Instruction) bool { return isSet(in) || isWith(in) }, nil); w != nil {
				missing = append(missing, part.field)
			}
		}
		c.Check(len(missing) == 0, "C05.16", "ViewStates.SyncInfo: carries the highest QC and the highest TC", p.FuncPos(sif),
			"every path sets both SetQC(highQC) and SetTC(highTC) on the sync info it returns", "the sync info can be returned without "+join(missing)+": timeout messages no longer spread that certificate")
	} else {
		c.Unresolved("C05.16", "ViewStates.SyncInfo", "anchor missing")
	}
	// C05.15 the evidence for the new view travels on: what advanceView hands to the next leader (NewView) or builds
	// its own proposal from (CreateProposal) is derived from the verified sync info that caused the advance. The
	// replica's stored sync info is not a substitute: nothing stores the timeout certificate there, so a leader that
	// missed the timeouts of the previous view would never learn that the view ended.
	{
		fa := NewFlow(p, advRoot)
		n := 0
		var bad []string
		for _, ds := range deepSites(fa, func(cc *ssa.CallCommon) bool {
			return cc.IsInvoke() && cc.Method.Name() == "NewView" || cc.StaticCallee() != nil && cc.StaticCallee().Name() == "CreateProposal" && strings.HasSuffix(funcPkgPath(cc.StaticCallee()), "protocol/consensus")
		}, 0) {
			args := ds.Site.Common().Args
			if len(args) == 0 {
				continue
			}
			n++
			arg := args[len(args)-1]
			sliceEnterHelpers, sliceProg = funcPkgPath(advRoot), p
			fromParam := backwardSlice(arg, func(x ssa.Value) bool { return len(advRoot.Params) > 1 && x == ssa.Value(advRoot.Params[1]) })
			sliceEnterHelpers, sliceProg = "", nil
			if !fromParam {
				bad = append(bad, p.Pos(ds.Site.Pos())+" passes "+shortVal(ds.Args[len(ds.Args)-1]))
			}
		}
		c.Check(n >= 2 && len(bad) == 0, "C05.15", "advanceView: the sync info that caused the advance is passed on", p.FuncPos(advRoot),
			"NewView(leader, ·) and CreateProposal(·) receive a value derived from advanceView's verified sync info parameter",
			"the next leader / the own proposal does not get the sync info that caused the advance: "+join(bad))
	}
	// C05.13 a leader that caught up through sync info fetches the ancestors it lacks before proposing
	if mp := p.Method("protocol/consensus", "Proposer", "markProposed"); mp != nil {
		getF := p.Method("security/blockchain", "Blockchain", "Get")
		lget := p.Method("security/blockchain", "Blockchain", "LocalGet")
		nGet := len(callsIn(mp, false, func(cc *ssa.CallCommon) bool { return calleeIs(cc, getF) }))
		nLocal := len(callsIn(mp, false, func(cc *ssa.CallCommon) bool { return calleeIs(cc, lget) }))
		c.Check(nGet >= 1 && nLocal == 0, "C05.13", "markProposed: missing ancestors are fetched, not only looked up locally", p.FuncPos(mp),
			itoa(nGet)+" ancestor look-ups, all through Blockchain.Get (local, then fetch from peers)", "ancestor look-ups use LocalGet ("+itoa(nLocal)+"): a leader that learned the high QC from sync info cannot build a proposal")
	}

	// C05.9 sibling agreement of the timeout rules: a quorum certificate carried by a sync info can advance the view
	// (otherwise a certified proposal never moves a replica on and every view has to time out)
	tr := p.Iface("protocol/synchronizer", "TimeoutRuler")
	for _, t := range p.Implementations(tr, false) {
		fn := p.MethodOf(t, "VerifySyncInfo")
		if fn == nil {
			continue
		}
		fv := NewFlow(p, fn)
		uses := false
		for _, e := range successExits(fv, 3) {
			for _, lf := range leaves(fv, retValue(e.Ret, 1), e.Ret) {
				if lf.KeyIn(fv) == kQCView+"(hs.SyncInfo).QC(p1)#0)" {
					uses = true
				}
			}
		}
		c.Check(uses, "C05.9", t.Obj().Name()+".VerifySyncInfo: a plain quorum certificate can determine the verified view", p.FuncPos(fn),
			"some accepting exit returns the view of the (verified) QC carried by the sync info",
			"the QC carried by a sync info is ignored: a certified proposal or a new-view message with a QC never advances the view, views advance by timeouts only (in a fault-free synchronous run nothing is ever committed)")
	}

	// C05.4 / C05.5 imported
	// "provided client commands are available": what the clients submitted is offered to the proposer
	c.importFrom(checkC15, "C05.14", "C15.9", "C15.2", "C15.3")
	c.importFrom(checkC08, "C05.4", "C08.5")
	c.importFrom(checkC08, "C05.5", "C08.3", "C08.2")
}

// c05DropOnlyUnverified (C05.12, shared with C08.9): a remote timeout is dropped before its sync info is used only
// because it did not verify (its sync info is the recurring way a lagging replica learns the peers' high QC and
// moves on; and a verified timeout that is dropped never counts toward its view's certificate).
func c05DropOnlyUnverified(c *Ctx, rule string) {
	p := c.P
	ort := p.Method("protocol/synchronizer", "Synchronizer", "OnRemoteTimeout")
	advRoot := p.Method("protocol/synchronizer", "Synchronizer", "advanceView")
	if ort == nil || advRoot == nil {
		c.Unresolved(rule, "OnRemoteTimeout/advanceView", "anchor missing")
		return
	}
	// the handler's body may have been moved, whole, into a private helper that receives the timeout
	// (`s.handleRemoteTimeout(currView, timeout); s.timeouts.deleteOldViews(currView)`): the rule is evaluated there
	tmo := "p1"
	entry := ort
	if len(callsIn(ort, false, func(cc *ssa.CallCommon) bool { return calleeIs(cc, advRoot) })) == 0 {
		for _, s := range callsIn(ort, false, func(cc *ssa.CallCommon) bool {
			cal := cc.StaticCallee()
			return cal != nil && cal.Blocks != nil && funcPkgPath(cal) == funcPkgPath(ort) && cal.Object() != nil && !cal.Object().Exported()
		}) {
			if _, isCall := s.(*ssa.Call); !isCall {
				continue
			}
			cal := s.Common().StaticCallee()
			if len(callsIn(cal, false, func(cc *ssa.CallCommon) bool { return calleeIs(cc, advRoot) })) == 0 {
				continue
			}
			k := NewKeyer(p, ort)
			for i, a := range s.Common().Args {
				if ak := k.Key(a); ak == "p1" || ak == "*&[p1]" {
					if p.ownedByAny(cal, []string{shortName(ort)}) {
						entry, tmo = cal, "p"+itoa(i)
					}
				}
			}
		}
	}
	{
		ort := entry
		fr := NewFlow(p, ort)
		isAdv := func(in ssa.Instruction) bool {
			ci, ok := in.(ssa.CallInstruction)
			return ok && calleeIs(ci.Common(), advRoot) && fr.K.Key(ci.Common().Args[1]) == tmo+"."+kTOMsg+"SyncInfo"
		}
		var bad []string
		n := 0
		for _, r := range returnsOf(ort) {
			if !fr.Reachable(r.Block()) {
				continue
			}
			// returns reachable without passing advanceView(timeout.SyncInfo)
			if cfgSearch(fr, nil, ort.Blocks[0], func(in ssa.Instruction) bool { return in == ssa.Instruction(r) }, isAdv, nil) == nil {
				continue
			}
			n++
			facts := fr.At(r)
			failed := func(_ *Flow, fs FactSet) bool {
				return notNilOf(fs, func(k string) bool { return strings.HasPrefix(k, kBaseVer) }) ||
					falseOf(fs, func(k string) bool { return strings.Contains(k, "signedOnlyBy(") })
			}
			failedVerify := failed(fr, facts) || helperVerdictImplies(fr, facts, false, failed, 0)
			if !failedVerify {
				bad = append(bad, p.Pos(r.Pos()))
			}
		}
		// (the advance on the timeout's own sync info and the advance on the certificate built from the quorum; the
		// second may sit in a private helper that collects the timeout)
		has := len(deepSites(fr, func(cc *ssa.CallCommon) bool { return calleeIs(cc, advRoot) }, 0)) >= 2
		c.Check(len(bad) == 0 && has, rule, "OnRemoteTimeout: only unverifiable timeouts are dropped before their sync info is used", p.FuncPos(ort),
			itoa(n)+" early return(s), each on a failed signature / signer check; every other path calls advanceView(timeout.SyncInfo)",
			"a verified timeout can be dropped at "+join(bad)+" before advanceView(timeout.SyncInfo): a lagging replica never learns the quorum's high QC")
	}
}
