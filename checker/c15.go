package main

import (
	"go/token"
	"go/types"
	"strings"

	"golang.org/x/tools/go/ssa"
)

func init() { register("C15", checkC15) }

const (
	kCC        = "hs/internal/proto/clientpb.CommandCache."
	kCCDup     = "(*hs/internal/proto/clientpb.CommandCache).isDuplicate(p0, "
	kCCFull    = "(*hs/internal/proto/clientpb.CommandCache).hasFullBatch(p0)"
	kCCSig     = "(*hs/internal/proto/clientpb.CommandCache).signalReady("
	kCCTry     = "(*hs/internal/proto/clientpb.CommandCache).tryExtractBatch(p0)"
	kCmdSeq    = "(*hs/internal/proto/clientpb.Command).GetSequenceNumber("
	kCmdCli    = "(*hs/internal/proto/clientpb.Command).GetClientID("
	kBatchFull = "(*hs/internal/proto/clientpb.Batch).isFull("
)

func checkC15(c *Ctx) {
	p := c.P
	c.Decided = "lock discipline of the command cache including its 'callers must hold the lock' helpers; no lost wake-up: every lengthening of the cache and every successful extraction is followed, inside the critical section, by a (non-blocking) ready signal whenever a full batch is present; " +
		"Get returns a batch only when extraction produced one and otherwise only on context cancellation; extraction skips commands at or below the proposed sequence number of their client (comparison polarity checked), removes exactly the examined prefix and only when the batch is full; " +
		"Add refuses duplicates; Proposed only raises a client's sequence number."
	c.Decided += " A ready signal consumed by Get is always followed by an examination of the cache before Get returns or waits again."
	c.NotDec = "FIFO order of the extracted elements as a functional fact of the extraction loop; liveness under arbitrary goroutine scheduling beyond the no-lost-wake-up rule."
	// "none already proposed": the leader marks what is on the certified chain as proposed before it takes a batch (C06.7)
	c.importFrom(checkC06, "C15.10", "C06.7")
	c.Expect("C15.1", 6)
	c.Expect("C15.2", 4)
	c.Expect("C15.4", 4)

	c.checkGuard("C15.1", guards["CommandCache"])

	add := p.Method("internal/proto/clientpb", "CommandCache", "Add")
	get := p.Method("internal/proto/clientpb", "CommandCache", "Get")
	try := p.Method("internal/proto/clientpb", "CommandCache", "tryExtractBatch")
	dup := p.Method("internal/proto/clientpb", "CommandCache", "isDuplicate")
	proposed := p.Method("internal/proto/clientpb", "CommandCache", "Proposed")
	sig := p.Method("internal/proto/clientpb", "CommandCache", "signalReady")
	full := p.Method("internal/proto/clientpb", "CommandCache", "hasFullBatch")
	if add == nil || get == nil || try == nil || dup == nil || proposed == nil || sig == nil || full == nil {
		c.Unresolved("C15.2", "CommandCache", "anchor missing")
		return
	}
	notFullEdge := func(fs []Fact) bool {
		for _, f := range fs {
			if f.Op == "false" && strings.HasPrefix(f.L, kCCFull) {
				return true
			}
		}
		return false
	}
	isSignal := isCallTo(sig)
	isUnlockOrRet := func(in ssa.Instruction) bool {
		if isReturn(in) {
			return true
		}
		call, ok := in.(*ssa.Call)
		if !ok {
			return false
		}
		_, _, acq, ok := lockEffect(&call.Call)
		return ok && !acq
	}
	// C15.2 (a) Add: the append is followed by the conditional signal before the lock is released
	{
		fl := NewFlow(p, add)
		n := 0
		// (the append may sit in a private helper that reports whether it appended: `if c.accept(cmd) && c.hasFullBatch() { signal }`)
		for _, d := range deepInstrs(fl, func(in ssa.Instruction) bool {
			st, ok := in.(*ssa.Store)
			if !ok {
				return false
			}
			fa, ok := st.Addr.(*ssa.FieldAddr)
			return ok && fieldName(fa.X.Type(), fa.Field) == kCC+"cache"
		}, 0) {
			in := d.Instr
			st := in.(*ssa.Store)
			if !strings.HasPrefix(d.Key(st.Val), "builtin append(") {
				continue
			}
			n++
			from, closed := in, notFullEdge
			if len(d.Path) > 0 {
				// from the helper's call in Add; its `false` verdict means nothing was appended when no `false`
				// return of the helper can follow the append
				vc, isCall := d.Path[0].(*ssa.Call)
				from = d.Path[0]
				if isCall && len(d.Path) == 1 && types.Identical(vc.Type(), types.Typ[types.Bool]) {
					falseAfter := reachAvoid(in, func(x ssa.Instruction) bool {
						r, ok := x.(*ssa.Return)
						return ok && !isBoolConst(retValue(r, 0), true)
					}, func(ssa.Instruction) bool { return false })
					if falseAfter == nil {
						vk := fl.K.Key(vc)
						closed = func(fs []Fact) bool {
							if notFullEdge(fs) {
								return true
							}
							for _, f := range fs {
								if f.Op == "false" && f.L == vk {
									return true
								}
							}
							return false
						}
					}
				}
			}
			w := cfgSearch(fl, from, nil, isUnlockOrRet, isSignal, closed)
			c.Check(w == nil, "C15.2", "Add: lengthening the cache is followed by the ready signal when a full batch is present", p.InstrPos(in),
				"every path from the append to the end of the critical section either calls signalReady or takes the !hasFullBatch() edge",
				"path from the append to "+posOf(p, w)+" with a possibly full batch and no ready signal: a waiting Get is never woken")
			// C15.11 arrival order: the command goes to the END of the queue (append(c.cache, cmd): the first operand is
			// the queue itself, the appended elements are the new command only)
			{
				k := d.Key(st.Val)
				okTail := false
				if call, isCall := st.Val.(*ssa.Call); isCall && len(call.Call.Args) == 2 {
					if ld, isLoad := call.Call.Args[0].(*ssa.UnOp); isLoad {
						if fa2, isFA := ld.X.(*ssa.FieldAddr); isFA && fieldName(fa2.X.Type(), fa2.Field) == kCC+"cache" {
							okTail = true
						}
					}
				}
				c.Check(okTail, "C15.11", "Add: a new command goes to the end of the queue", p.InstrPos(in),
					"the queue is lengthened by append(c.cache, …): earlier arrivals keep their places in front of the new command",
					"the queue is rebuilt as "+k+": the new command does not go behind the commands that arrived before it (arrival order is lost)")
			}
			facts := d.Facts
			okDup := falseOf(facts, func(k string) bool { return strings.HasPrefix(k, kCCDup+"p1)") })
			c.Check(okDup, "C15.4", "Add: duplicates are refused", p.InstrPos(in),
				"the append is reached only under !isDuplicate(cmd)", "append reachable for a command at or below the proposed sequence number; facts: "+join(facts.Sorted()))
		}
		if n == 0 {
			c.Unresolved("C15.2", "Add", "no append to cache")
		}
		// C15.9 a command is left out only because it is a duplicate: every path through Add that does not
		// append crosses the isDuplicate(cmd) edge (a nil command may be refused too)
		isAppend := func(in ssa.Instruction) bool {
			st, ok := in.(*ssa.Store)
			if !ok {
				return false
			}
			fa, ok := st.Addr.(*ssa.FieldAddr)
			if !ok || fieldName(fa.X.Type(), fa.Field) != kCC+"cache" {
				return false
			}
			call, ok := st.Val.(*ssa.Call)
			if !ok {
				return false
			}
			b, ok := call.Call.Value.(*ssa.Builtin)
			return ok && b.Name() == "append"
		}
		dupEdge := func(fs []Fact) bool {
			for _, f := range fs {
				if f.Op == "true" && strings.HasPrefix(f.L, kCCDup+"p1)") {
					return true
				}
				if f.Op == "==" && oneIsNil(f) && nonNil(f) == "p1" {
					return true
				}
			}
			return false
		}
		w := cfgSearch(fl, nil, add.Blocks[0], isReturn, func(in ssa.Instruction) bool { return isAppend(in) || helperAlways(in, isAppend, 0) }, dupEdge)
		c.Check(w == nil, "C15.9", "Add: only duplicates are left out", p.FuncPos(add),
			"every path through Add appends the command to the cache or takes the isDuplicate(cmd) edge",
			"Add can return at "+posOf(p, w)+" without storing a command that is not a duplicate: a command the clients submitted is never proposed by this replica (its views produce no block while commands are available)")
	}
	// C15.2 (b) Get: after a successful extraction, re-signal if another full batch remains; C15.3 returns
	{
		fl := NewFlow(p, get)
		n := 0
		// Get itself or the helper of its package that holds the critical section
		for _, hf := range helperClosure(p, get, 2) {
			if hf == try || hf == full || hf == sig || hf == dup {
				continue
			}
			hfl := fl
			if hf != get {
				hfl = NewFlow(p, hf)
			}
			for _, b := range hf.Blocks {
				iff, ok := b.Instrs[len(b.Instrs)-1].(*ssa.If)
				if !ok || len(b.Succs) != 2 {
					continue
				}
				// `batch, ok := c.tryExtractBatch(); ok`: the success flag of the extraction
				if ex, isEx := iff.Cond.(*ssa.Extract); isEx {
					if call, isCall := ex.Tuple.(*ssa.Call); isCall && calleeIs(&call.Call, try) && ex.Index == 1 {
						held := false
						for _, m := range lockFlow(hf, lockState{})[iff] {
							if m >= lockR {
								held = true
							}
						}
						if held {
							n++
							w := cfgSearch(hfl, nil, b.Succs[0], isUnlockOrRet, isSignal, notFullEdge)
							c.Check(w == nil, "C15.2", "Get: re-signal after extraction when another full batch remains", p.FuncPos(get),
								"every path from a successful extraction to the end of the critical section calls signalReady or takes the !hasFullBatch() edge",
								"after a successful extraction the lock can be released at "+posOf(p, w)+" with a full batch left and no signal")
						}
					}
					continue
				}
				bo, ok := iff.Cond.(*ssa.BinOp)
				if !ok || (bo.Op != token.NEQ && bo.Op != token.EQL) {
					continue
				}
				v := bo.X
				if isNilConst(bo.X) {
					v = bo.Y
				} else if !isNilConst(bo.Y) {
					continue
				}
				// the tested value is the result of tryExtractBatch (directly, or a variable that is nil or that result)
				isTry, any := true, false
				var lvs []Leaf
				withLeafStops(func() { lvs = leaves(hfl, v, iff) }, try)
				for _, lf := range lvs {
					if isNilConst(lf.Val) {
						continue
					}
					any = true
					if !strings.HasPrefix(lf.KeyIn(hfl), kCCTry) {
						isTry = false
					}
				}
				if !isTry || !any {
					continue
				}
				// only inside the critical section (a later test of the same variable, after the unlock, decides nothing here)
				held := false
				for _, m := range lockFlow(hf, lockState{})[iff] {
					if m >= lockR {
						held = true
					}
				}
				if !held {
					continue
				}
				s := b.Succs[0]
				if bo.Op == token.EQL {
					s = b.Succs[1]
				}
				n++
				w := cfgSearch(hfl, nil, s, isUnlockOrRet, isSignal, notFullEdge)
				c.Check(w == nil, "C15.2", "Get: re-signal after extraction when another full batch remains", p.FuncPos(get),
					"every path from a successful extraction to the end of the critical section calls signalReady or takes the !hasFullBatch() edge",
					"after a successful extraction the lock can be released at "+posOf(p, w)+" with a full batch left and no signal")
			}
		}
		if n == 0 {
			// the extraction's result is handed on untested (`return c.tryExtractBatch()`): whatever follows the call
			// inside the critical section follows a possibly successful extraction
			for _, hf := range helperClosure(p, get, 2) {
				if hf == try || hf == full || hf == sig || hf == dup {
					continue
				}
				hfl := NewFlow(p, hf)
				for _, s := range callsIn(hf, false, func(cc *ssa.CallCommon) bool { return calleeIs(cc, try) }) {
					n++
					w := cfgSearch(hfl, s, nil, isUnlockOrRet, isSignal, notFullEdge)
					c.Check(w == nil, "C15.2", "Get: re-signal after extraction when another full batch remains", p.FuncPos(get),
						"every path from the extraction to the end of the critical section calls signalReady or takes the !hasFullBatch() edge",
						"after a successful extraction the critical section ends at "+posOf(p, w)+" with a full batch possibly left and no signal: a second waiting Get is never woken")
				}
			}
		}
		if n == 0 {
			c.Undecided("C15.2", "Get", p.FuncPos(get), "no branch on tryExtractBatch() != nil found")
		}
		var bad []string
		var exits []SuccessExit
		for _, e := range successExits(fl, 1) {
			// (nil, ctx.Err()) is the cancellation exit, checked below
			if isNilConst(retValue(e.Ret, 0)) && strings.HasPrefix(fl.K.Key(retValue(e.Ret, 1)), "invoke (context.Context).Err(p1)") {
				continue
			}
			exits = append(exits, e)
		}
		for _, e := range exits {
			var lvs []Leaf
			withLeafStops(func() { lvs = leaves(fl, retValue(e.Ret, 0), e.Ret) }, try)
			for _, lf := range lvs {
				bk := lf.KeyIn(fl)
				facts := lf.Facts.clone()
				for f := range e.Facts {
					facts[f] = true
				}
				okFlag := strings.HasSuffix(bk, "#0") && trueOf(facts, is(strings.TrimSuffix(bk, "#0")+"#1"))
				if !(strings.HasPrefix(bk, kCCTry) && (notNilOf(facts, is(bk)) || okFlag)) {
					bad = append(bad, p.Pos(e.Ret.Pos())+" returns "+bk)
				}
			}
		}
		c.Check(len(bad) == 0 && len(exits) > 0, "C15.3", "Get: a batch is returned only when extraction produced one", p.FuncPos(get),
			"every (batch, nil) return delivers the non-nil result of tryExtractBatch()", join(bad))
		// other returns: only ctx.Err() after ctx.Done()
		var bad2 []string
		for _, r := range returnsOf(get) {
			if !fl.Reachable(r.Block()) {
				continue
			}
			isSuccess := false
			for _, e := range exits {
				if e.Ret == r {
					isSuccess = true
				}
			}
			if isSuccess {
				continue
			}
			okErr := isNilConst(retValue(r, 0))
			ek := fl.K.Key(retValue(r, 1))
			for _, lf := range leaves(fl, retValue(r, 1), r) {
				if !strings.HasPrefix(lf.KeyIn(fl), "invoke (context.Context).Err(p1)") {
					okErr = false
				}
			}
			if !okErr {
				bad2 = append(bad2, p.Pos(r.Pos())+" returns "+ek)
			}
		}
		c.Check(len(bad2) == 0, "C15.3", "Get: otherwise ends only with the context's error", p.FuncPos(get),
			"every other return is (nil, ctx.Err())", join(bad2))
	}
	// C15.2 (c) Get: a consumed ready token obliges Get to examine the cache (under the rules above,
	// which re-signal what it leaves behind) before it returns or blocks again
	{
		fl := NewFlow(p, get)
		n := 0
		eachInstr(get, func(in ssa.Instruction) {
			sel, ok := in.(*ssa.Select)
			if !ok {
				return
			}
			for i, st := range sel.States {
				if st.Dir != types.RecvOnly || fl.K.Key(st.Chan) != "p0->"+kCC+"ready" {
					continue
				}
				// the edge taken when case i was chosen
				for _, b := range get.Blocks {
					iff, ok := b.Instrs[len(b.Instrs)-1].(*ssa.If)
					if !ok {
						continue
					}
					bo, ok := iff.Cond.(*ssa.BinOp)
					if !ok || bo.Op != token.EQL {
						continue
					}
					ex, ok := bo.X.(*ssa.Extract)
					cst, ok2 := bo.Y.(*ssa.Const)
					if !ok || !ok2 || ex.Tuple != sel || ex.Index != 0 || cst.Int64() != int64(i) {
						continue
					}
					n++
					isExam := func(x ssa.Instruction) bool {
						call, ok := x.(ssa.CallInstruction)
						return ok && (calleeIs(call.Common(), full) || calleeIs(call.Common(), try))
					}
					isEnd := func(x ssa.Instruction) bool {
						switch x.(type) {
						case *ssa.Return, *ssa.Select:
							return true
						}
						return false
					}
					w := cfgSearch(fl, nil, b.Succs[0], isEnd, isExam, nil)
					c.Check(w == nil, "C15.2", "Get: a consumed ready signal is followed by an examination of the cache", p.InstrPos(sel),
						"every path from the receive on c.ready to a return or to the next wait calls hasFullBatch()/tryExtractBatch()",
						"after taking the ready signal Get can reach "+posOf(p, w)+" without looking at the cache: the signal for a waiting full batch is lost and the next Get blocks although a batch is present")
				}
			}
		})
		if n == 0 {
			// the wait lives in a private helper of the package (`if err := c.awaitReady(ctx); err != nil { return nil, err }`):
			// the helper returns nil exactly on the ready case; the success edge of its call in Get is the consumed token
			for _, hf := range helperClosure(p, get, 1) {
				if hf == get {
					continue
				}
				hfl := NewFlow(p, hf)
				readyOnlyNil := false
				eachInstr(hf, func(in ssa.Instruction) {
					sel, ok := in.(*ssa.Select)
					if !ok {
						return
					}
					for _, st := range sel.States {
						ck := hfl.K.Key(st.Chan)
						if ck == "p0" {
							// the helper is a method of the channel's own type (`c.ready.wait(ctx)`): every call from Get passes c.ready
							ck = ""
							for _, s := range callsIn(get, false, func(cc *ssa.CallCommon) bool { return calleeIs(cc, hf) }) {
								if len(s.Common().Args) > 0 {
									if a := fl.K.Key(s.Common().Args[0]); ck == "" || ck == a {
										ck = a
										continue
									}
								}
								ck = "?"
							}
						}
						if st.Dir == types.RecvOnly && ck == "p0->"+kCC+"ready" {
							readyOnlyNil = true
						}
					}
				})
				if !readyOnlyNil || hf.Signature.Results().Len() != 1 {
					continue
				}
				isErr := hf.Signature.Results().At(0).Type().String() == "error"
				isBool := types.Identical(hf.Signature.Results().At(0).Type(), types.Typ[types.Bool])
				if !isErr && !isBool {
					continue
				}
				// error form: every nil return is on the ready case; every other return is a (non-nil) ctx.Err().
				// bool form: true = the signal was taken, false = the context is done.
				okHelper := true
				for _, r := range returnsOf(hf) {
					v := retValue(r, 0)
					if isBool {
						if !isBoolConst(v, true) && !isBoolConst(v, false) {
							okHelper = false
						}
						continue
					}
					if isNilConst(v) {
						continue
					}
					if !strings.HasPrefix(hfl.K.Key(v), "invoke (context.Context).Err(") {
						okHelper = false
					}
				}
				for _, s := range callsIn(get, false, func(cc *ssa.CallCommon) bool { return calleeIs(cc, hf) }) {
					ck := fl.K.Key(s.Value())
					for _, b := range get.Blocks {
						for _, succ := range b.Succs {
							for _, f := range fl.edgeFacts(b, succ) {
								if (f.Op == "==" && oneIsNil(f) && nonNil(f) == ck) || (f.Op == "true" && f.L == ck) {
									n++
									isExam := func(x ssa.Instruction) bool {
										call, ok := x.(ssa.CallInstruction)
										return ok && (calleeIs(call.Common(), full) || calleeIs(call.Common(), try))
									}
									isEnd := func(x ssa.Instruction) bool {
										if _, ok := x.(*ssa.Return); ok {
											return true
										}
										call, ok := x.(ssa.CallInstruction)
										return ok && calleeIs(call.Common(), hf)
									}
									w := cfgSearch(fl, nil, succ, isEnd, isExam, nil)
									c.Check(w == nil && okHelper, "C15.2", "Get: a consumed ready signal is followed by an examination of the cache", p.Pos(s.Pos()),
										"every path from the successful wait to a return or to the next wait calls hasFullBatch()/tryExtractBatch()",
										"after taking the ready signal Get can reach "+posOf(p, w)+" without looking at the cache: the signal for a waiting full batch is lost and the next Get blocks although a batch is present")
								}
							}
						}
					}
				}
			}
		}
		if n == 0 {
			c.Unresolved("C15.2", "Get: receive on c.ready", "select case not found")
		}
	}
	// signalReady is non-blocking
	{
		blocking := false
		n := 0
		for _, hf := range helperClosure(p, sig, 1) {
			eachInstr(hf, func(in ssa.Instruction) {
				switch x := in.(type) {
				case *ssa.Select:
					n++
					if x.Blocking {
						blocking = true
					}
				case *ssa.Send:
					blocking = true
				}
			})
		}
		c.Check(!blocking && n == 1, "C15.2", "signalReady is a non-blocking send", p.FuncPos(sig),
			"a single select with default: never blocks while the lock is held, at most one pending signal", "signalReady may block under the lock")
	}
	// hasFullBatch polarity
	{
		fl := NewFlow(p, full)
		ok := false
		for _, w := range trueEdges(fl) {
			if hasCmp(w, "<=", is("p0->"+kCC+"batchSize"), func(k string) bool { return strings.HasPrefix(k, "builtin len(p0->"+kCC+"cache)") }) {
				ok = true
			}
		}
		c.Check(ok, "C15.4", "hasFullBatch: len(cache) >= batchSize", p.FuncPos(full), "true exactly when batchSize <= len(cache)", "unexpected comparison in hasFullBatch")
	}
	// C15.4 tryExtractBatch
	{
		fl := NewFlow(p, try)
		nApp, nTrunc := 0, 0
		eachInstr(try, func(in ssa.Instruction) {
			st, ok := in.(*ssa.Store)
			if !ok {
				return
			}
			fa, ok := st.Addr.(*ssa.FieldAddr)
			if !ok {
				return
			}
			fn := fieldName(fa.X.Type(), fa.Field)
			val := fl.K.Key(st.Val)
			facts := fl.At(in)
			switch {
			case strings.HasSuffix(fn, "clientpb.Batch.Commands") && strings.HasPrefix(val, "builtin append("):
				nApp++
				// the appended command is cache[i] and is not a duplicate
				var elem string
				if call, ok := st.Val.(*ssa.Call); ok && len(call.Call.Args) == 2 {
					storedInto(sliceBase(call.Call.Args[1]), func(e ssa.Value) bool { elem = fl.K.Key(e); return false })
				}
				ok := strings.HasPrefix(elem, "p0->"+kCC+"cache[") && falseOf(facts, is(kCCDup+elem+")"))
				c.Check(ok, "C15.4", "tryExtractBatch: only fresh commands enter the batch", p.InstrPos(in),
					"a command is appended only under !isDuplicate(cmd), cmd being an element of the cache", "append of "+elem+" not gated by !isDuplicate; facts: "+join(facts.Sorted()))
			case fn == kCC+"cache":
				nTrunc++
				ok := c15BatchFull(facts) &&
					strings.HasPrefix(val, "p0->"+kCC+"cache[phi@") && strings.HasSuffix(val, ":<none>]")
				// the low bound is the examined-prefix counter: the phi that indexes the loop
				idx := ""
				eachInstr(try, func(in2 ssa.Instruction) {
					if ia, ok := in2.(*ssa.IndexAddr); ok && fl.K.Key(ia.X) == "p0->"+kCC+"cache" {
						idx = fl.K.Key(ia.Index)
					}
				})
				direct := idx != "" && val == "p0->"+kCC+"cache["+idx+":<none>]"
				if !direct {
					// for-range form: a separate counter that advances in lock step with the range index
					direct = c15LockStepCounter(fl, try, st)
				}
				ok = ok && direct
				c.Check(ok, "C15.4", "tryExtractBatch: removes exactly the examined prefix, only for a full batch", p.InstrPos(in),
					"cache = cache[extracted:] only under batch.isFull(), extracted being the loop's examination counter", "cache := "+val+"; facts: "+join(facts.Sorted()))
			}
		})
		if nApp == 0 || nTrunc == 0 {
			c.Unresolved("C15.4", "tryExtractBatch", "append/truncate not found")
		}
		// returns: non-nil only under isFull
		var bad []string
		for _, r := range returnsOf(try) {
			v := retValue(r, 0)
			if isNilConst(v) && (len(r.Results) < 2 || isBoolConst(retValue(r, 1), false)) {
				continue
			}
			if !c15BatchFull(fl.At(r)) {
				bad = append(bad, p.Pos(r.Pos()))
			}
		}
		c.Check(len(bad) == 0, "C15.4", "tryExtractBatch: only full batches are returned", p.FuncPos(try), "a non-nil batch is returned only under batch.isFull(batchSize)", "partial batch returned at "+join(bad))
	}
	if isFull := p.Method("internal/proto/clientpb", "Batch", "isFull"); isFull != nil {
		fl := NewFlow(p, isFull)
		ok := false
		for _, w := range trueEdges(fl) {
			lenK := func(k string) bool {
				return strings.HasPrefix(k, "builtin len(p0->hs/internal/proto/clientpb.Batch.Commands)")
			}
			if hasCmp(w, "==", lenK, is("p1")) || hasCmp(w, "<=", is("p1"), lenK) {
				ok = true
			}
		}
		c.Check(ok, "C15.4", "Batch.isFull: len(Commands) reaches batchSize", p.FuncPos(isFull), "true only when the batch holds batchSize commands", "unexpected comparison in Batch.isFull")
	} else {
		c.Exempt("C15.4", "Batch.isFull: len(Commands) reaches batchSize", "-", "the helper does not exist on this tree; the fullness test is evaluated where it is written (len(batch.Commands) == batchSize)")
	}
	// isDuplicate polarity: stored >= seq
	{
		fl := NewFlow(p, dup)
		ok := false
		ways := trueEdges(fl)
		for _, w := range ways {
			if hasCmp(w, "<=", is(kCmdSeq+"p1)"), is("p0->"+kCC+"clientSeqNumbers["+kCmdCli+"p1)]")) {
				ok = true
			}
		}
		c.Check(ok && len(ways) == 1, "C15.4", "isDuplicate: seq <= highest proposed for that client", p.FuncPos(dup),
			"true exactly when cmd.SequenceNumber <= clientSeqNumbers[cmd.ClientID]", "unexpected comparison in isDuplicate")
	}
	// Proposed looks at every command of the batch: whether one command is already marked says nothing about the others
	// (several clients share a batch), so the only way out of the marking is the end of the batch
	{
		fp := NewFlow(p, proposed)
		var early []string
		nLoop := 0
		for _, hf := range helperClosure(p, proposed, 1) {
			for _, b := range hf.Blocks {
				for _, in := range b.Instrs {
					ph, ok := in.(*ssa.Phi)
					if !ok {
						break
					}
					if ph.Comment == "rangeindex" || (isLoopHeaderPhi(ph) && len(counterIncrements(ph)) > 0) {
						nLoop++
						// every return of this function lies behind the loop's normal exit
						for _, r := range returnsOf(hf) {
							if r.Block() == hf.Recover {
								continue // the synthetic exit taken after a recovered panic
							}
							if !b.Dominates(r.Block()) {
								early = append(early, p.Pos(r.Pos())+" (before the loop)")
								continue
							}
							for _, su := range b.Succs {
								if !su.Dominates(r.Block()) && su != r.Block() {
									continue
								}
							}
							// a return inside the loop body: reachable from the body without passing the header again
							if len(b.Succs) == 2 {
								body := b.Succs[0]
								if body.Dominates(r.Block()) {
									early = append(early, p.Pos(r.Pos())+" (inside the loop)")
								}
							}
						}
					}
				}
			}
		}
		_ = fp
		c.Check(nLoop > 0 && len(early) == 0, "C15.4", "Proposed: every command of the batch is examined", p.FuncPos(proposed),
			"the marking loop runs over the whole batch: no return before it or inside it", "Proposed can return at "+join(early)+" without examining the rest of the batch: commands of other clients in the same batch stay unmarked and are proposed again")
	}
	// Proposed: monotone per client
	{
		fl := NewFlow(p, proposed)
		n := 0
		// in Proposed or in a helper of its package (e.g. a method of a named map type) it delegates to
		for _, d := range deepInstrs(fl, func(in ssa.Instruction) bool { _, ok := in.(*ssa.MapUpdate); return ok }, 0) {
			in := d.Instr
			mu := in.(*ssa.MapUpdate)
			mapK := d.Key(mu.Map)
			if mapK != "p0->"+kCC+"clientSeqNumbers" {
				continue
			}
			n++
			k, v := d.Key(mu.Key), d.Key(mu.Value)
			cmd := strings.TrimSuffix(strings.TrimPrefix(k, kCmdCli), ")")
			facts := d.Facts
			// not a duplicate: the stored number is below the command's (directly, or as what !isDuplicate(cmd) means)
			gated := falseOf(facts, is(kCCDup+cmd+")")) || hasCmp(facts, "<", is(mapK+"["+k+"]"), is(kCmdSeq+cmd+")"))
			ok := strings.HasPrefix(k, kCmdCli) && v == kCmdSeq+cmd+")" && gated
			c.Check(ok, "C15.4", "Proposed: raises a client's sequence number only", p.InstrPos(in),
				"clientSeqNumbers[cmd.ClientID] = cmd.SequenceNumber only under !isDuplicate(cmd)", "update "+k+" := "+v+" not gated; facts: "+join(facts.Sorted()))
		}
		if n == 0 {
			c.Unresolved("C15.4", "Proposed", "no update of clientSeqNumbers")
		}
		c.whoMayWrite("C15.4", p.Field("internal/proto/clientpb", "CommandCache", "clientSeqNumbers"), "CommandCache.clientSeqNumbers", "(*hs/internal/proto/clientpb.CommandCache).Proposed")
		c.whoMayWrite("C15.4", p.Field("internal/proto/clientpb", "CommandCache", "cache"), "CommandCache.cache",
			"(*hs/internal/proto/clientpb.CommandCache).Add", "(*hs/internal/proto/clientpb.CommandCache).tryExtractBatch")
	}
}

// c15LockStepCounter: the low bound of the truncation `cache = cache[e:]` is a counter e that
// equals the number of examined elements of a `for _, cmd := range cache` loop: e and the range
// index r are phis of the same loop header, (r, e) start at (-1, 0), every back edge carries
// e+1 (r always advances), the element is cache[r+1], and the element is consumed (appended or
// tested for being a duplicate) only after the increment, so that on an early exit before the
// increment the current element is not counted and not consumed.
func c15LockStepCounter(fl *Flow, fn *ssa.Function, st *ssa.Store) bool {
	sl, ok := st.Val.(*ssa.Slice)
	if !ok || sl.High != nil {
		return false
	}
	e, ok := sl.Low.(*ssa.Phi)
	if !ok {
		return false
	}
	var r *ssa.Phi
	var elemAddr *ssa.IndexAddr
	eachInstr(fn, func(in ssa.Instruction) {
		ia, ok := in.(*ssa.IndexAddr)
		if !ok || fl.K.Key(ia.X) != "p0->"+kCC+"cache" {
			return
		}
		if bo, ok := ia.Index.(*ssa.BinOp); ok && bo.Op == token.ADD {
			if ph, ok := bo.X.(*ssa.Phi); ok && ph.Comment == "rangeindex" {
				if cst, ok := bo.Y.(*ssa.Const); ok && cst.Value != nil && cst.Int64() == 1 {
					r, elemAddr = ph, ia
				}
			}
		}
	})
	if r == nil || r.Block() != e.Block() || len(r.Edges) != len(e.Edges) {
		return false
	}
	var inc *ssa.BinOp
	for i := range e.Edges {
		if cst, ok := r.Edges[i].(*ssa.Const); ok && cst.Value != nil && cst.Int64() == -1 {
			c0, ok := e.Edges[i].(*ssa.Const)
			if !ok || c0.Value == nil || c0.Int64() != 0 {
				return false
			}
			continue
		}
		bo, ok := e.Edges[i].(*ssa.BinOp)
		if !ok || bo.Op != token.ADD {
			return false
		}
		// either e+1, or (index of the element just examined)+1 with index = r+1
		if bo.X != ssa.Value(e) {
			ib, ok := bo.X.(*ssa.BinOp)
			one, ok2 := bo.Y.(*ssa.Const)
			if !(ok && ok2 && ib.Op == token.ADD && ib.X == ssa.Value(r) && one.Value != nil && one.Int64() == 1) {
				return false
			}
			if c1, ok := ib.Y.(*ssa.Const); !ok || c1.Value == nil || c1.Int64() != 1 {
				return false
			}
		}
		if cst, ok := bo.Y.(*ssa.Const); !ok || cst.Value == nil || cst.Int64() != 1 {
			return false
		}
		if inc != nil && inc != bo {
			return false
		}
		inc = bo
	}
	if inc == nil {
		return false
	}
	// consumption of the element only after the increment
	okUse := true
	var visit func(v ssa.Value, depth int)
	visit = func(v ssa.Value, depth int) {
		if v.Referrers() == nil || depth > 4 {
			return
		}
		for _, u := range *v.Referrers() {
			switch x := u.(type) {
			case *ssa.UnOp:
				visit(x, depth+1)
			case *ssa.Store:
				if x.Val == v {
					if a, ok := x.Addr.(*ssa.Alloc); ok {
						visit(a, depth+1)
					} else if ia, ok := x.Addr.(*ssa.IndexAddr); ok {
						// stored into the varargs array of an append
						if !(inc.Block().Dominates(x.Block())) {
							okUse = false
						}
						_ = ia
					}
				}
			case ssa.CallInstruction:
				if !(inc.Block().Dominates(x.Block())) {
					okUse = false
				}
			}
		}
	}
	visit(elemAddr, 0)
	return okUse
}

// c15BatchFull: the must-facts say that the batch being built holds batchSize commands, whether
// the test is written inline or through Batch.isFull (whose summary supplies the comparison).
func c15BatchFull(facts FactSet) bool {
	lenCmds := func(k string) bool {
		return strings.HasPrefix(k, "builtin len(") && strings.Contains(k, "hs/internal/proto/clientpb.Batch.Commands)")
	}
	size := func(k string) bool { return strings.HasSuffix(k, kCC+"batchSize") }
	return hasCmp(facts, "==", lenCmds, size) || hasCmp(facts, "<=", size, lenCmds)
}
