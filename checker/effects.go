package main

// A9 EFFECT: transitive scan of a function's callees (static calls, closures, interface
// dispatch resolved over module implementations) for sources of nondeterminism and for
// writes to non-local memory.

import (
	"go/types"
	"sort"
	"strings"

	"golang.org/x/tools/go/ssa"
)

type effectScan struct {
	p       *Prog
	cut     func(*ssa.CallCommon) bool // calls not followed (effect-free sinks by type, stated assumptions)
	nondet  []string
	stores  []string
	visited map[*ssa.Function]bool
	funcs   int
}

func (p *Prog) scanEffects(root *ssa.Function, cut func(*ssa.CallCommon) bool) *effectScan {
	es := &effectScan{p: p, cut: cut, visited: map[*ssa.Function]bool{}}
	es.visit(root)
	sort.Strings(es.nondet)
	sort.Strings(es.stores)
	return es
}

func (es *effectScan) visit(fn *ssa.Function) {
	if fn == nil || es.visited[fn] || fn.Blocks == nil {
		return
	}
	es.visited[fn] = true
	if !inModule(funcPkgPath(fn)) {
		return
	}
	es.funcs++
	p := es.p
	eachInstr(fn, func(in ssa.Instruction) {
		switch x := in.(type) {
		case *ssa.Range:
			if _, ok := x.X.Type().Underlying().(*types.Map); ok {
				es.nondet = append(es.nondet, "range over a map at "+p.InstrPos(in)+" in "+shortName(fn))
			}
		case *ssa.Go:
			es.nondet = append(es.nondet, "go statement at "+p.InstrPos(in)+" in "+shortName(fn))
		case *ssa.Select:
			es.nondet = append(es.nondet, "select at "+p.InstrPos(in)+" in "+shortName(fn))
		case *ssa.Send:
			es.nondet = append(es.nondet, "channel send at "+p.InstrPos(in)+" in "+shortName(fn))
		case *ssa.UnOp:
			if x.Op.String() == "<-" {
				es.nondet = append(es.nondet, "channel receive at "+p.InstrPos(in)+" in "+shortName(fn))
			}
		case *ssa.Store:
			if rootAlloc(x.Addr) == nil {
				es.stores = append(es.stores, "store at "+p.InstrPos(in)+" in "+shortName(fn))
			}
		case *ssa.MapUpdate:
			if _, local := x.Map.(*ssa.MakeMap); !local {
				es.stores = append(es.stores, "map update at "+p.InstrPos(in)+" in "+shortName(fn))
			}
		case *ssa.MakeClosure:
			if cl, ok := x.Fn.(*ssa.Function); ok {
				es.visit(cl)
			}
		}
		ci, ok := in.(ssa.CallInstruction)
		if !ok {
			return
		}
		cc := ci.Common()
		if es.cut != nil && es.cut(cc) {
			return
		}
		if cc.IsInvoke() {
			for _, impl := range modSetsOf(p).implsOfCall(cc) {
				es.visit(impl)
			}
			return
		}
		cal := cc.StaticCallee()
		if cal == nil {
			return
		}
		name := cal.String()
		switch {
		case name == "time.Now", name == "time.Since":
			es.nondet = append(es.nondet, name+" at "+p.InstrPos(in)+" in "+shortName(fn))
		case strings.HasPrefix(name, "math/rand.") && !strings.HasPrefix(name, "math/rand.New"):
			es.nondet = append(es.nondet, "package-level "+name+" at "+p.InstrPos(in)+" in "+shortName(fn))
		case strings.HasPrefix(name, "math/rand/v2.") && !strings.HasPrefix(name, "math/rand/v2.New"):
			es.nondet = append(es.nondet, "package-level "+name+" at "+p.InstrPos(in)+" in "+shortName(fn))
		case strings.HasPrefix(name, "crypto/rand."):
			es.nondet = append(es.nondet, name+" at "+p.InstrPos(in)+" in "+shortName(fn))
		}
		es.visit(cal)
	})
}

// loggerCut cuts calls through logging.Logger (effect-free for the protocol) .
func loggerCut(cc *ssa.CallCommon) bool {
	if cc.IsInvoke() {
		return strings.Contains(cc.Value.Type().String(), "logging.Logger")
	}
	return false
}
