package main

import (
	"go/types"
	"strings"

	"golang.org/x/tools/go/ssa"
)

func init() { register("C06", checkC06) }

const (
	kCIO    = "hs/server.ClientIO."
	kCIODup = "(*hs/server.ClientIO).isDuplicate(p0, "
	kCmd    = "hs/internal/proto/clientpb.Command."
)

func checkC06(c *Ctx) {
	p := c.P
	c.Decided = "execution order = commit order: execute events are produced only by Committer.commitInner, for the commands of the very block whose commit event precedes them, after the parent was committed; " +
		"a command changes the application state (digest, counter, per-client sequence number) only when it is not a duplicate by (client id, sequence number), with the comparison polarity and the recorded key/value checked; " +
		"a success outcome is sent only from Exec and only after the state update; outcomes are delivered only by completeCommand, which removes the waiter under the lock (at most one outcome per waiter); " +
		"lock discipline of the client server; the execute/abort handlers are wired to Exec/Abort; commands already in the chain are marked as proposed before a new batch is taken. A command received from a client is handed to the command cache once its waiter is registered; every acquisition of the client-IO mutex is released on every path."
	c.NotDec = "cross-replica prefix relation of the executed sequences (follows from C01, which is not decided for all schedules); abort-versus-execute interleavings under forks."
	c.Expect("C06.1", 2)
	c.Expect("C06.2", 4)

	// C06.1 ExecuteEvent only from commitInner, same block, after the parent
	commitInner := p.Method("protocol/consensus", "Committer", "commitInner")
	eeT := namedType(p, "internal/proto/clientpb", "ExecuteEvent")
	sites := p.constructSites(eeT)
	if commitInner == nil || len(sites) == 0 {
		c.Unresolved("C06.1", "ExecuteEvent", "anchor missing")
	} else {
		names := emitNames(sites)
		for _, e := range sites {
			if p.ownedByAny(e.Fn, []string{"(*hs/protocol/consensus.Committer).commitInner"}) {
				names = replaceName(names, shortName(declaredParent(e.Fn)), "(*hs/protocol/consensus.Committer).commitInner")
			}
		}
		c.Check(setEq(names, []string{"(*hs/protocol/consensus.Committer).commitInner"}), "C06.1", "ExecuteEvent construction", p.InstrPos(sites[0].Instr),
			"clientpb.ExecuteEvent is constructed only in Committer.commitInner", "ExecuteEvent constructed in: "+join(names))
		fl := NewFlow(p, commitInner)
		var commitBlk string
		var commitEmit ssa.Instruction
		ceSites := map[ssa.Instruction]Emit{}
		for _, e := range p.constructSites(namedType(p, "", "CommitEvent")) {
			ceSites[e.Instr] = e
		}
		for _, d := range deepInstrs(fl, func(in ssa.Instruction) bool { _, ok := ceSites[in]; return ok }, 0) {
			commitBlk = d.Key(complitField(ceSites[d.Instr].Alloc, "Block"))
			commitEmit = d.Instr
		}
		eeSites := map[ssa.Instruction]Emit{}
		for _, e := range sites {
			eeSites[e.Instr] = e
		}
		for _, d := range deepInstrs(fl, func(in ssa.Instruction) bool { _, ok := eeSites[in]; return ok }, 0) {
			e := eeSites[d.Instr]
			bk := d.Key(complitField(e.Alloc, "Batch"))
			facts := d.Facts
			okBatch := commitBlk != "" && bk == "(*hs.Block).Commands("+commitBlk+")"
			parentFirst := errNilOf(facts, func(k string) bool {
				return strings.HasPrefix(k, kCommitInner) && strings.Contains(k, kBlockParent+commitBlk+")")
			})
			if !parentFirst && commitEmit != nil && d.In == commitInner && commitEmit.Parent() == commitInner {
				// the iterative form of commitInner (see C01.3): oldest collected ancestor first
				parentFirst, _ = c01IterativeForm(fl, complitField(ceSites[commitEmit].Alloc, "Block"), commitEmit)
			}
			okOrder := parentFirst &&
				commitEmit != nil && commitEmit.Parent() == e.Instr.Parent() && precedes(commitEmit, e.Instr)
			c.Check(okBatch && okOrder, "C06.1", "commitInner: execute the committed block's commands, parent first", p.InstrPos(e.Instr),
				"ExecuteEvent{Batch: block.Commands()} follows the CommitEvent of the same block and the successful recursive commit of its parent",
				"ExecuteEvent batch is "+bk+" (commit event block "+commitBlk+"); ordered after parent/commit event: "+boolStr(okOrder))
		}
	}

	// the commit order that execution follows (C01.2-C01.5)
	c.importFrom(checkC01, "C06.8", "C01.2", "C01.3", "C01.4", "C01.5")
	// the commands executed for a committed hash are those of the block with that hash: a block fetched from peers is
	// accepted only if it hashes to the requested hash (shared with C12.5 / C13.1)
	c13SendersFor(c, "C06.9")

	exec := p.Method("server", "ClientIO", "Exec")
	abort := p.Method("server", "ClientIO", "Abort")
	cc := p.Method("server", "ClientIO", "completeCommand")
	dup := p.Method("server", "ClientIO", "isDuplicate")
	// the duplicate test by what it does, should it have been renamed or turned into a function: the boolean function of
	// the package, called on Exec's behalf, that is true exactly for a known client with seq <= the recorded number
	dupMap, dupCmd := "p0->"+kCIO+"lastExecutedSeqNum", "p1"
	dupPolarity := func(fn *ssa.Function, m, cmd string) bool {
		ways := trueEdges(NewFlow(p, fn))
		ok := len(ways) > 0
		for _, w := range ways {
			lk := m + "[" + cmd + "->" + kCmd + "ClientID]"
			if !(trueOf(w, is(lk+"#1")) && hasCmp(w, "<=", is(cmd+"->"+kCmd+"SequenceNumber"), is(lk+"#0"))) {
				ok = false
			}
		}
		return ok
	}
	if dup == nil && exec != nil {
		for _, hf := range helperClosure(p, exec, 3) {
			res := hf.Signature.Results()
			if hf == exec || res.Len() != 1 || !types.Identical(res.At(0).Type(), types.Typ[types.Bool]) {
				continue
			}
			for i := range hf.Params {
				for j := range hf.Params {
					m, cmd := "p"+itoa(i), "p"+itoa(j)
					if i != j && dupPolarity(hf, m, cmd) {
						// the map parameter must be the execution record at every call
						okArg := true
						for _, r := range callIndexOf(p).callers[hf] {
							ak := NewKeyer(p, r.In).Key(r.Instr.(ssa.CallInstruction).Common().Args[i])
							if !strings.HasSuffix(ak, kCIO+"lastExecutedSeqNum") {
								okArg = false
							}
						}
						if okArg {
							dup, dupMap, dupCmd = hf, m, cmd
						}
					}
				}
			}
		}
	}
	// completeCommand by what it does, should it have become a method of a small type around the waiter map: the one
	// function of the package that sends on a client's error channel; its waiter map is then its receiver, which is
	// ClientIO.awaitingCmds at every call
	ccMap := "p0->" + kCIO + "awaitingCmds"
	ccName := "completeCommand"
	if cc == nil {
		var cands []*ssa.Function
		for _, fn := range p.ModFuncs {
			if funcPkgPath(fn) != modPath+"/server" || fn.Parent() != nil {
				continue
			}
			has := false
			eachInstr(fn, func(in ssa.Instruction) {
				if s, ok := in.(*ssa.Send); ok && strings.Contains(s.Chan.Type().String(), "error") {
					has = true
				}
			})
			if has {
				cands = append(cands, fn)
			}
		}
		if len(cands) == 1 && len(cands[0].Params) == 3 {
			if _, isMap := cands[0].Params[0].Type().Underlying().(*types.Map); isMap {
				okArg := len(callIndexOf(p).callers[cands[0]]) > 0 && !callIndexOf(p).asValue[cands[0]]
				for _, r := range callIndexOf(p).callers[cands[0]] {
					ak := NewKeyer(p, r.In).Key(r.Instr.(ssa.CallInstruction).Common().Args[0])
					if !strings.HasSuffix(ak, "->"+kCIO+"awaitingCmds") {
						okArg = false
					}
				}
				if okArg {
					cc, ccMap, ccName = cands[0], "p0", cands[0].Name()
				}
			}
		}
	}
	if exec == nil || abort == nil || cc == nil {
		c.Unresolved("C06.2", "ClientIO", "anchor missing")
		return
	}
	inlineDup := dup == nil // the duplicate test is written out in Exec: judged on the CFG of the updating function
	dupPrefix := "\x00no-such-helper("
	if dup != nil {
		dupPrefix = shortName(dup) + "("
	}
	// inlineGate: in fn, the update `in` of command cmd is reached only past the test "the client is known and
	// cmd.SequenceNumber <= its recorded number", and not from the edge on which that test came out true.
	inlineGate := func(fl *Flow, in ssa.Instruction, cmd string) bool {
		lk := "p0->" + kCIO + "lastExecutedSeqNum[" + cmd + "->" + kCmd + "ClientID]"
		isDupFact := func(fs FactSet) bool {
			return trueOf(fs, is(lk+"#1")) && hasCmp(fs, "<=", is(cmd+"->"+kCmd+"SequenceNumber"), is(lk+"#0"))
		}
		var dupSuccs []*ssa.BasicBlock
		for _, b := range fl.Fn.Blocks {
			for _, sc := range b.Succs {
				if len(b.Succs) == 2 && isDupFact(fl.AtEdge(b, sc)) && !isDupFact(fl.AtBlockStart(b)) {
					dupSuccs = append(dupSuccs, sc)
				}
			}
		}
		if len(dupSuccs) == 0 {
			return false
		}
		// where the command is taken from the batch: the boundary of one iteration
		var iter *ssa.BasicBlock
		eachInstr(fl.Fn, func(x ssa.Instruction) {
			if v, ok := x.(ssa.Value); ok && iter == nil && fl.K.Key(v) == cmd {
				iter = x.Block()
			}
		})
		isTarget := func(x ssa.Instruction) bool { return x == in }
		atIter := func(x ssa.Instruction) bool { return iter != nil && x.Block() == iter && x == iter.Instrs[0] }
		for _, ds := range dupSuccs {
			if reachAvoidFromPlain(ds, 0, isTarget, atIter, map[*ssa.BasicBlock]bool{ds: true}) != nil {
				return false // the update is reachable on the "already executed" branch
			}
		}
		// and within the iteration every path to the update crosses an edge that says "not a duplicate"
		// (client unknown, or recorded number < cmd.SequenceNumber)
		if iter != nil && in.Block() != iter {
			notDup := func(fs []Fact) bool {
				for _, f := range fs {
					if f.Op == "false" && f.L == lk+"#1" {
						return true
					}
					if f.Op == "<" && f.L == lk+"#0" && f.R == cmd+"->"+kCmd+"SequenceNumber" {
						return true
					}
				}
				return false
			}
			if cfgSearchPlain(fl, iter, isTarget, func(ssa.Instruction) bool { return false }, notDup) != nil {
				return false
			}
		}
		return true
	}
	isDupOf := func(cmd string) func(string) bool {
		return func(k string) bool {
			return strings.HasPrefix(k, dupPrefix) && (strings.HasSuffix(k, ", "+cmd+")") || strings.Contains(k, ", "+cmd+")@"))
		}
	}
	var stateUpdates []ssa.Instruction
	n := 0
	execFns := map[*ssa.Function]bool{}
	// Exec, or the helper of its package the per-command body was extracted into
	for _, hf := range helperClosure(p, exec, 2) {
		if hf == cc || hf == dup || hf == abort {
			continue
		}
		execFns[hf] = true
		exec := hf
		fl := NewFlow(p, exec)
		check := func(in ssa.Instruction, what, cmd string) {
			facts := fl.At(in)
			ok := falseOf(facts, isDupOf(cmd)) || branchDominates(fl, in, func(f Fact) bool { return f.Op == "false" && isDupOf(cmd)(f.L) })
			if inlineDup {
				ok = inlineGate(fl, in, cmd)
			}
			c.Check(ok, "C06.2", "Exec: "+what+" only for non-duplicates", p.InstrPos(in),
				what+" is reached only under !isDuplicate(cmd)", what+" reachable for an already executed (client id, sequence number); facts: "+join(facts.Sorted()))
			stateUpdates = append(stateUpdates, in)
		}
		eachInstr(exec, func(in ssa.Instruction) {
			switch x := in.(type) {
			case *ssa.MapUpdate:
				if fl.K.Key(x.Map) == "p0->"+kCIO+"lastExecutedSeqNum" {
					n++
					k, v := fl.K.Key(x.Key), fl.K.Key(x.Value)
					cmd := strings.TrimSuffix(k, "->"+kCmd+"ClientID")
					okKV := strings.HasSuffix(k, "->"+kCmd+"ClientID") && v == cmd+"->"+kCmd+"SequenceNumber"
					c.Check(okKV, "C06.2", "Exec: records (client id -> sequence number) of the executed command", p.InstrPos(in),
						"lastExecutedSeqNum[cmd.ClientID] = cmd.SequenceNumber", "update is ["+k+"] = "+v)
					check(in, "the sequence-number record", cmd)
				}
			case *ssa.Call:
				if x.Call.IsInvoke() && x.Call.Method.Name() == "Write" && fl.K.Key(x.Call.Value) == "p0->"+kCIO+"hash" {
					n++
					d := fl.K.Key(x.Call.Args[0])
					check(in, "the state digest update", strings.TrimSuffix(d, "->"+kCmd+"Data"))
				}
			case *ssa.Store:
				if fa, ok := x.Addr.(*ssa.FieldAddr); ok && fieldName(fa.X.Type(), fa.Field) == kCIO+"cmdCount" {
					n++
					// same command as the loop element: take it from the isDuplicate fact
					facts := fl.At(in)
					ok := falseOf(facts, func(k string) bool { return strings.HasPrefix(k, dupPrefix) }) ||
						branchDominates(fl, in, func(f Fact) bool { return f.Op == "false" && strings.HasPrefix(f.L, dupPrefix) })
					if inlineDup {
						// the counter goes with the sequence-number record of the same iteration
						ok = false
						for _, su := range stateUpdates {
							if mu, isMU := su.(*ssa.MapUpdate); isMU && su.Parent() == in.Parent() && (precedes(su, in) || precedes(in, su)) {
								cmd := strings.TrimSuffix(fl.K.Key(mu.Key), "->"+kCmd+"ClientID")
								ok = inlineGate(fl, in, cmd)
							}
						}
					}
					c.Check(ok && fl.K.Key(x.Val) == "(p0->"+kCIO+"cmdCount + c:1)", "C06.2", "Exec: the command counter only for non-duplicates", p.InstrPos(in),
						"cmdCount++ only under !isDuplicate(cmd)", "counter update not gated; facts: "+join(facts.Sorted()))
					stateUpdates = append(stateUpdates, in)
				}
			}
		})
	}
	if n < 3 {
		c.Unresolved("C06.2", "Exec", "expected digest, counter and sequence-number updates")
	}
	// isDuplicate polarity
	if inlineDup {
		c.Held("C06.2", "isDuplicate: known client and seq <= last executed", p.FuncPos(exec), "the test is written out in Exec: every state update is reached only past `known && cmd.SequenceNumber <= recorded`, never from its true edge")
	} else {
		ok := dupPolarity(dup, dupMap, dupCmd)
		c.Check(ok, "C06.2", "isDuplicate: known client and seq <= last executed", p.FuncPos(dup),
			"true exactly when lastExecutedSeqNum has the client and cmd.SequenceNumber <= the recorded number", "unexpected comparison in ClientIO.isDuplicate")
	}
	// who writes the execution state
	c.whoMayWrite("C06.2", p.Field("server", "ClientIO", "lastExecutedSeqNum"), "ClientIO.lastExecutedSeqNum", "(*hs/server.ClientIO).Exec")
	c.whoMayWrite("C06.2", p.Field("server", "ClientIO", "cmdCount"), "ClientIO.cmdCount", "(*hs/server.ClientIO).Exec")

	// C06.3 success outcome only from Exec after the state update
	refs := p.refsTo(cc)
	nNil := 0
	for _, r := range refs {
		ci, ok := r.Instr.(ssa.CallInstruction)
		if !ok || len(ci.Common().Args) < 3 {
			continue
		}
		okIn := execFns[r.In]
		okAfter := okIn
		if !isNilConst(ci.Common().Args[2]) {
			// the outcome is what a private helper of Exec returns (`completeCommand(id, srv.apply(cmd))`): its
			// returns that can deliver nil come after the state updates, which it makes itself
			hc, isCall := ci.Common().Args[2].(*ssa.Call)
			if !isCall || hc.Call.StaticCallee() == nil || !execFns[hc.Call.StaticCallee()] || hc.Call.StaticCallee() == r.In || hc.Block() != r.Instr.Block() {
				continue
			}
			hf := hc.Call.StaticCallee()
			exits := successExits(NewFlow(p, hf), 0)
			if len(exits) == 0 {
				continue
			}
			nNil++
			for _, e := range exits {
				for _, u := range stateUpdates {
					if u.Parent() != hf || !precedes(u, e.Ret) {
						okAfter = false
					}
				}
			}
			c.Check(okIn && okAfter && len(stateUpdates) >= 3, "C06.3", "success outcome only after execution", p.InstrPos(r.Instr),
				"completeCommand(id, "+shortName(hf)+"(cmd)): the helper returns nil only after the digest, counter and sequence-number updates of that command",
				"success outcome sent from "+shortName(r.In)+" or before the state update")
			continue
		}
		nNil++
		for _, u := range stateUpdates {
			if !precedes(u, r.Instr) {
				okAfter = false
			}
		}
		c.Check(okIn && okAfter && len(stateUpdates) >= 3, "C06.3", "success outcome only after execution", p.InstrPos(r.Instr),
			"completeCommand(id, nil) occurs only in Exec, after the digest, counter and sequence-number updates of that command",
			"success outcome sent from "+shortName(r.In)+" or before the state update")
	}
	if nNil == 0 {
		c.Unresolved("C06.3", "completeCommand(id, nil)", "no success completion found")
	}
	var others []string
	for _, r := range refs {
		nm := shortName(declaredParent(r.In))
		if nm != "(*hs/server.ClientIO).Exec" && nm != "(*hs/server.ClientIO).Abort" && !execFns[declaredParent(r.In)] {
			others = append(others, nm)
		}
	}
	c.Check(len(others) == 0, "C06.3", "completeCommand callers", p.FuncPos(cc), "completeCommand is called only from Exec and Abort", "also called from "+join(others))

	// C06.3b the client handler answers only with the outcome it received from the execution path
	if ec := p.Method("server", "ClientIO", "ExecCommand"); ec != nil {
		fe := NewFlow(p, ec)
		var bad []string
		n := 0
		for _, r := range returnsOf(ec) {
			if !fe.Reachable(r.Block()) || len(r.Results) < 2 {
				continue
			}
			n++
			if k := fe.K.Key(retValue(r, 1)); !strings.HasPrefix(k, "<-") {
				bad = append(bad, p.Pos(r.Pos())+" returns "+shortVal(k))
			}
		}
		c.Check(len(bad) == 0 && n > 0, "C06.3", "ExecCommand: replies with the outcome received from Exec/Abort", p.FuncPos(ec),
			"every return delivers the value received on the command's own waiting channel", "a reply is produced without waiting for the command's outcome: "+join(bad))
	} else {
		c.Unresolved("C06.3", "ClientIO.ExecCommand", "anchor missing")
	}

	// C06.4 at most one outcome per waiter: sends only in completeCommand, followed by delete of that entry
	{
		var sendFns []string
		for _, fn := range p.ModFuncs {
			if funcPkgPath(fn) != modPath+"/server" {
				continue
			}
			eachInstr(fn, func(in ssa.Instruction) {
				if s, ok := in.(*ssa.Send); ok && strings.Contains(s.Chan.Type().String(), "error") {
					sendFns = append(sendFns, shortName(fn))
				}
			})
		}
		c.Check(setEq(sendFns, []string{shortName(cc)}), "C06.4", "outcomes are sent only by completeCommand", p.FuncPos(cc),
			"the only send on an error channel in package server is in "+ccName, "sends in: "+join(sendFns))
		// closing a waiter's channel is an outcome too: the waiting handler receives the zero value, nil, and replies "success"
		var closes []string
		for _, fn := range p.ModFuncs {
			if funcPkgPath(fn) != modPath+"/server" {
				continue
			}
			eachInstr(fn, func(in ssa.Instruction) {
				var cm *ssa.CallCommon
				switch x := in.(type) {
				case *ssa.Call:
					cm = &x.Call
				case *ssa.Defer:
					cm = &x.Call
				case *ssa.Go:
					cm = &x.Call
				}
				if cm == nil {
					return
				}
				if b, ok := cm.Value.(*ssa.Builtin); ok && b.Name() == "close" && len(cm.Args) == 1 && strings.Contains(cm.Args[0].Type().String(), "error") {
					closes = append(closes, p.InstrPos(in)+" in "+shortName(fn))
				}
			})
		}
		c.Check(len(closes) == 0, "C06.4", "no outcome channel is closed", p.FuncPos(cc),
			"no close of an error channel in package server: a waiter never reads the zero value (nil = success) from a closed channel",
			"an outcome channel is closed at "+join(closes)+": the handler waiting on it receives nil and answers success for a command that was not executed")
		fcc := NewFlow(p, cc)
		okDel := false
		eachInstr(cc, func(in ssa.Instruction) {
			s, ok := in.(*ssa.Send)
			if !ok {
				return
			}
			chK := fcc.K.Key(s.Chan)
			facts := fcc.At(in)
			// the waiter's key, whatever expression it is (the id parameter, or the id of the command parameter)
			pre := ccMap + "["
			if !strings.HasPrefix(chK, pre) || !strings.HasSuffix(chK, "]#0") {
				return
			}
			waiterKey := chK[len(pre) : len(chK)-len("]#0")]
			entry := pre + waiterKey + "]"
			if !trueOf(facts, is(entry+"#1")) {
				return
			}
			w := reachAvoid(in, isReturn, func(x ssa.Instruction) bool {
				call, ok := x.(*ssa.Call)
				if !ok {
					return false
				}
				b, ok := call.Call.Value.(*ssa.Builtin)
				return ok && b.Name() == "delete" && fcc.K.Key(call.Call.Args[0]) == ccMap && fcc.K.Key(call.Call.Args[1]) == waiterKey
			})
			okDel = w == nil
		})
		c.Check(okDel, "C06.4", "completeCommand: the waiter is removed after its outcome", p.FuncPos(cc),
			"the outcome is sent to awaitingCmds[id] and every path then deletes that entry before returning", "a waiter can receive an outcome and stay registered (second outcome possible)")
	}
	// C06.5 lock discipline
	c.checkGuard("C06.5", guards["ClientIO"])

	// C06.6 wiring
	for _, w := range []struct {
		ev   string
		want *ssa.Function
	}{{"ExecuteEvent", exec}, {"AbortEvent", abort}} {
		hs := p.registeredHandlers(namedType(p, "internal/proto/clientpb", w.ev))
		ok := false
		for _, h := range hs {
			fh := NewFlow(p, h)
			for _, s := range callsIn(h, false, func(cc *ssa.CallCommon) bool { return calleeIs(cc, w.want) }) {
				if fh.K.Key(s.Common().Args[1]) == "p0.hs/internal/proto/clientpb."+w.ev+".Batch" {
					ok = true
				}
			}
		}
		c.Check(ok, "C06.6", "handler for "+w.ev, p.FuncPos(w.want), "a registered "+w.ev+" handler passes event.Batch to ClientIO."+w.want.Name(), "no such handler registered")
	}
	// a command received from a client is handed to the command cache (from where proposals take their batches) once its
	// waiter is registered: otherwise the client waits for an outcome of a command that no replica will ever propose
	if ec := p.Method("server", "ClientIO", "ExecCommand"); ec != nil {
		fe := NewFlow(p, ec)
		addFn := p.Method("internal/proto/clientpb", "CommandCache", "Add")
		n, bad := 0, ""
		for _, d := range deepInstrs(fe, func(in ssa.Instruction) bool {
			_, ok := in.(*ssa.MapUpdate)
			return ok
		}, 0) {
			if !strings.HasSuffix(d.Key(d.Instr.(*ssa.MapUpdate).Map), kCIO+"awaitingCmds") {
				continue
			}
			n++
			pos := d.Instr
			if len(d.Path) > 0 {
				pos = d.Path[0]
			}
			isAdd := func(in ssa.Instruction) bool {
				ci, ok := in.(ssa.CallInstruction)
				return ok && addFn != nil && calleeIs(ci.Common(), addFn) && fe.K.Key(ci.Common().Args[1]) == "p2"
			}
			// (leaving through a receive on the waiter's channel is the normal way out and comes after the hand-over)
			if w := reachAvoid(pos, isReturn, isAdd); w != nil {
				bad = p.InstrPos(w)
			}
		}
		c.Check(n > 0 && bad == "", "C06.6", "ExecCommand: a registered command is handed to the command cache", p.FuncPos(ec),
			"every path from the registration of the waiter to a return passes cmdCache.Add(cmd)", "a return at "+bad+" is reachable after registering the waiter without cmdCache.Add(cmd): the command is never proposed")
	}
	// C06.7 mark proposed before taking a batch
	cp := p.Method("protocol/consensus", "Proposer", "CreateProposal")
	if cp != nil {
		fcp := NewFlow(p, cp)
		n := 0
		for _, ds := range deepSites(fcp, func(cc *ssa.CallCommon) bool {
			cal := cc.StaticCallee()
			return cal != nil && cal.String() == "(*"+modPath+"/internal/proto/clientpb.CommandCache).Get"
		}, 0) {
			n++
			s := ds.Site
			// the marker: the function below CreateProposal that calls CommandCache.Proposed (today Proposer.markProposed),
			// found by what it does so that it may be a method or a plain function taking the fields it needs
			var markers []string
			for _, hf := range helperClosure(p, cp, 2) {
				if hf == cp || funcPkgPath(hf) != funcPkgPath(cp) {
					continue
				}
				if len(callsIn(hf, true, func(cc *ssa.CallCommon) bool {
					cal := cc.StaticCallee()
					return cal != nil && cal.String() == "(*"+modPath+"/internal/proto/clientpb.CommandCache).Proposed"
				})) > 0 {
					markers = append(markers, shortName(hf)+"(")
				}
			}
			ok := errNilOf(ds.Facts, func(k string) bool {
				for _, m := range markers {
					if strings.HasPrefix(k, m) {
						return true
					}
				}
				return false
			})
			c.Check(ok, "C06.7", "CreateProposal: markProposed before CommandCache.Get", p.Pos(s.Pos()),
				"a batch is taken only after markProposed succeeded", "Get reachable without a successful markProposed")
		}
		if n == 0 {
			c.Unresolved("C06.7", "CreateProposal", "no CommandCache.Get call")
		}
	}
}
