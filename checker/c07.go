package main

import (
	"strings"

	"golang.org/x/tools/go/ssa"
)

func init() { register("C07", checkC07) }

const (
	kVS          = "hs/protocol.ViewStates."
	kVerifySI    = "TimeoutRuler).VerifySyncInfo("
	kVerifyQC    = "(*hs/security/cert.Authority).VerifyQuorumCert("
	kVerifyTC    = "(*hs/security/cert.Authority).VerifyTimeoutCert("
	kVerifyAggQC = "(*hs/security/cert.Authority).VerifyAggregateQC("
)

func checkC07(c *Ctx) {
	p := c.P
	c.Decided = "the four monotone state variables (view, highQC, highTC, committedBlock) have exactly one writer each; view is only incremented by one; highQC/highTC are replaced only by strictly higher views " +
		"(comparison polarity checked); NextView/UpdateHighQC are reached only from advanceView, only after VerifySyncInfo succeeded and only when the verified view is not below the current view; " +
		"in both timeout rules every view/QC handed back by VerifySyncInfo comes from a certificate that passed its Verify* call on that path; every NextView is followed by a ViewChangeEvent carrying the new view; " +
		"a QC whose claimed view differs from its block's view does not verify (C02.3)."
	c.NotDec = "that a verified certificate means a quorum really signed (C02 decides the structural part; cryptographic soundness is assumed)."
	c.Expect("C07.1", 4)
	c.Expect("C07.2", 2)
	c.Expect("C07.5", 4)
	c.Expect("C07.4", 3)
	c.Expect("C07.6", 2)

	nextView := p.Method("protocol", "ViewStates", "NextView")
	updQC := p.Method("protocol", "ViewStates", "UpdateHighQC")
	updTC := p.Method("protocol", "ViewStates", "UpdateHighTC")
	adv := p.Method("protocol/synchronizer", "Synchronizer", "advanceView")

	// C07.1 single writers
	c.whoMayWrite("C07.1", p.Field("protocol", "ViewStates", "view"), "ViewStates.view", "(*hs/protocol.ViewStates).NextView")
	c.whoMayWrite("C07.1", p.Field("protocol", "ViewStates", "highQC"), "ViewStates.highQC", "(*hs/protocol.ViewStates).UpdateHighQC")
	c.whoMayWrite("C07.1", p.Field("protocol", "ViewStates", "highTC"), "ViewStates.highTC", "(*hs/protocol.ViewStates).UpdateHighTC")
	c.whoMayWrite("C07.1", p.Field("protocol", "ViewStates", "committedBlock"), "ViewStates.committedBlock", "(*hs/protocol.ViewStates).UpdateCommittedBlock")
	if nextView != nil {
		fl := NewFlow(p, nextView)
		n := 0
		eachInstr(nextView, func(in ssa.Instruction) {
			st, ok := in.(*ssa.Store)
			if !ok {
				return
			}
			fa, ok := st.Addr.(*ssa.FieldAddr)
			if !ok || fieldName(fa.X.Type(), fa.Field) != kVS+"view" {
				return
			}
			n++
			k := fl.K.Key(st.Val)
			c.Check(k == "(p0->"+kVS+"view + c:1)", "C07.1", "NextView: view := view + 1", p.InstrPos(in),
				"the only store to view writes view+1", "store of "+k)
		})
		if n == 0 {
			c.Unresolved("C07.1", "NextView", "no store to view")
		}
	}

	// C07.2 monotone gates
	if updQC != nil {
		fl := NewFlow(p, updQC)
		// (the store may sit in a private helper that is handed the certificate and the view to compare)
		for _, d := range deepInstrs(fl, func(in ssa.Instruction) bool {
			st, ok := in.(*ssa.Store)
			if !ok {
				return false
			}
			fa, ok := st.Addr.(*ssa.FieldAddr)
			return ok && fieldName(fa.X.Type(), fa.Field) == kVS+"highQC"
		}, 0) {
			in := d.Instr
			st := in.(*ssa.Store)
			facts := d.Facts
			val := d.Key(st.Val)
			ok := val == "p1" && hasCmp(facts, "<", is(kQCView+"p0->"+kVS+"highQC)"), func(k string) bool {
				// view of the block the new QC certifies (looked up by the QC's hash), or the QC's own view
				return (strings.HasPrefix(k, kBlockView+kBCGet) && strings.Contains(k, kQCHash+"p1)")) || k == kQCView+"p1)"
			})
			c.Check(ok, "C07.2", "UpdateHighQC: strictly higher", p.InstrPos(in),
				"highQC := qc only under highQC.View() < view of the newly certified block",
				"store of "+val+" not gated by a strict view increase; facts: "+join(facts.Sorted()))
		}
	} else {
		c.Unresolved("C07.2", "UpdateHighQC", "anchor missing")
	}
	if updTC != nil {
		fl := NewFlow(p, updTC)
		for _, d := range deepInstrs(fl, func(in ssa.Instruction) bool {
			st, ok := in.(*ssa.Store)
			if !ok {
				return false
			}
			fa, ok := st.Addr.(*ssa.FieldAddr)
			return ok && fieldName(fa.X.Type(), fa.Field) == kVS+"highTC"
		}, 0) {
			in := d.Instr
			st := in.(*ssa.Store)
			facts := d.Facts
			val := d.Key(st.Val)
			ok := val == "p1" && hasCmp(facts, "<", is(kTCView+"p0->"+kVS+"highTC)"), is(kTCView+"p1)"))
			c.Check(ok, "C07.2", "UpdateHighTC: strictly higher", p.InstrPos(in),
				"highTC := tc only under highTC.View() < tc.View()", "store of "+val+" not gated; facts: "+join(facts.Sorted()))
		}
	} else {
		c.Unresolved("C07.2", "UpdateHighTC", "anchor missing")
	}

	// C07.3 who may advance
	c.whoMayCall("C07.3", nextView, "ViewStates.NextView", "(*hs/protocol/synchronizer.Synchronizer).advanceView")
	c.whoMayCall("C07.3", updQC, "ViewStates.UpdateHighQC", "(*hs/protocol/synchronizer.Synchronizer).advanceView")

	// C07.4 advanceView gates
	if adv != nil && nextView != nil && updQC != nil {
		fl := NewFlow(p, adv)
		// (the verification may sit in a private helper that reports the verified view, the timeout flag and
		// whether the verification succeeded: its results then stand for those of VerifySyncInfo)
		vk := ""
		for _, d := range deepInstrs(fl, func(in ssa.Instruction) bool {
			call, ok := in.(*ssa.Call)
			return ok && call.Call.IsInvoke() && call.Call.Method.Name() == "VerifySyncInfo"
		}, 0) {
			vk = d.Key(d.Instr.(*ssa.Call))
		}
		if vk == "" {
			c.Unresolved("C07.4", "advanceView", "no VerifySyncInfo call")
		} else {
			for _, ds := range deepSites(fl, func(cc *ssa.CallCommon) bool { return calleeIs(cc, nextView) }, 0) {
				s := ds.Site
				facts := ds.Facts
				if ds.In == adv {
					facts = aliasHelperResults(fl, facts)
				}
				ok1 := errNilOf(facts, is(vk+"#3"))
				ok2 := hasCmp(facts, "<=", func(k string) bool { return strings.HasPrefix(k, "(*hs/protocol.ViewStates).View(") }, is(vk+"#1"))
				c.Check(ok1, "C07.4/verified", "advanceView->NextView", p.Pos(s.Pos()),
					"NextView only after VerifySyncInfo returned a nil error", "NextView reachable without successful VerifySyncInfo; facts: "+join(facts.Sorted()))
				c.Check(ok2, "C07.4/not-stale", "advanceView->NextView", p.Pos(s.Pos()),
					"NextView only when state.View() <= the view returned by VerifySyncInfo",
					"NextView reachable with a verified view below the current view; facts: "+join(facts.Sorted()))
			}
			for _, ds := range deepSites(fl, func(cc *ssa.CallCommon) bool { return calleeIs(cc, updQC) }, 0) {
				s := ds.Site
				facts := ds.Facts
				arg := ds.Args[1]
				ok := arg == "*"+vk+"#0" && errNilOf(facts, is(vk+"#3"))
				c.Check(ok, "C07.4/verified", "advanceView->UpdateHighQC", p.Pos(s.Pos()),
					"UpdateHighQC receives the QC returned by a successful VerifySyncInfo", "UpdateHighQC("+arg+") not tied to a verified QC; facts: "+join(facts.Sorted()))
			}
			// C07.6 view-change signal
			vce := namedType(p, "", "ViewChangeEvent")
			for _, ds := range deepSites(fl, func(cc *ssa.CallCommon) bool { return calleeIs(cc, nextView) }, 0) {
				s := ds.Site
				// within the function that calls NextView (advanceView or the private helper it was split into)
				ifl := fl
				if ds.In != adv {
					ifl = NewFlow(p, ds.In)
				}
				nk := ifl.K.Key(s.Value())
				var okEmit *ssa.Alloc
				for _, e := range p.constructSites(vce) {
					if e.Fn == ds.In && e.Alloc != nil && ifl.K.Key(complitField(e.Alloc, "View")) == nk {
						okEmit = e.Alloc
					}
				}
				addEvent := p.Method("core/eventloop", "EventLoop", "AddEvent")
				w := reachAvoid(s, isReturn, func(in ssa.Instruction) bool {
					ci, ok := in.(ssa.CallInstruction)
					if !ok || !calleeIs(ci.Common(), addEvent) || okEmit == nil {
						return false
					}
					mi, ok := ci.Common().Args[1].(*ssa.MakeInterface)
					if !ok {
						return false
					}
					u, ok := mi.X.(*ssa.UnOp)
					return ok && u.X == okEmit
				})
				c.Check(okEmit != nil && w == nil, "C07.6", "advanceView: ViewChangeEvent after NextView", p.Pos(s.Pos()),
					"every path from NextView to a return adds ViewChangeEvent{View: <new view>}",
					"a return is reachable after NextView without the ViewChangeEvent carrying the new view")
			}
			sites := p.constructSites(vce)
			vnames := emitNames(sites)
			for _, e := range sites {
				if p.ownedByAny(e.Fn, []string{"(*hs/protocol/synchronizer.Synchronizer).advanceView"}) {
					vnames = replaceName(vnames, shortName(declaredParent(e.Fn)), "(*hs/protocol/synchronizer.Synchronizer).advanceView")
				}
			}
			c.Check(setEq(vnames, []string{"(*hs/protocol/synchronizer.Synchronizer).advanceView"}), "C07.6", "ViewChangeEvent construction", p.FuncPos(adv),
				"ViewChangeEvent is constructed only in advanceView", "ViewChangeEvent constructed in: "+join(vnames))
		}
	} else {
		c.Unresolved("C07.4", "advanceView", "anchor missing")
	}

	// C07.5 per TimeoutRuler: what VerifySyncInfo hands back is verified
	tr := p.Iface("protocol/synchronizer", "TimeoutRuler")
	impls := p.Implementations(tr, false)
	if len(impls) < 2 {
		c.Unresolved("C07.5", "TimeoutRuler", "expected at least two implementations (Simple, Aggregate)")
	}
	for _, t := range impls {
		fn := p.MethodOf(t, "VerifySyncInfo")
		if fn == nil {
			continue
		}
		fl := NewFlow(p, fn)
		name := t.Obj().Name()
		exits := successExits(fl, 3)
		var badView, badQC []string
		nv, nq := 0, 0
		for _, e := range exits {
			for _, lf := range leaves(fl, retValue(e.Ret, 1), e.Ret) {
				nv++
				if !c07ViewLeafOK(fl, lf) {
					badView = append(badView, lf.KeyIn(fl)+" at "+p.Pos(e.Ret.Pos()))
				}
			}
			for _, lf := range leaves(fl, retValue(e.Ret, 0), e.Ret) {
				nq++
				if !c07QCLeafOK(fl, lf) {
					badQC = append(badQC, lf.KeyIn(fl)+" at "+p.Pos(e.Ret.Pos()))
				}
			}
		}
		if len(exits) == 0 {
			c.Unresolved("C07.5", name+".VerifySyncInfo", "no accepting exit")
			continue
		}
		c.Check(len(badView) == 0, "C07.5/view", name+".VerifySyncInfo", p.FuncPos(fn),
			"all "+itoa(nv)+" definitions of the returned view are 0 or cert.View() of a certificate that passed Verify* on that path",
			"returned view may come from an unverified certificate: "+join(badView))
		c.Check(len(badQC) == 0, "C07.5/qc", name+".VerifySyncInfo", p.FuncPos(fn),
			"all "+itoa(nq)+" definitions of the returned QC are nil, the verified QC, or the verified aggregate's high QC",
			"returned QC may be unverified: "+join(badQC))
	}

	// C07.7 relabelled QC view must not verify
	checkQCViewBinding(c, "C07.7")

	// C07.9 a certificate that failed verification is never remembered as valid (the cache must not change verdicts)
	c.importFrom(checkC11, "C07.9", "C11.2")
	// "only on evidence": the certificates that move views and the high QC are accepted only with distinct, known,
	// key-proven signers whose keys were all found (shared with C02.4, C02.5, C02.6)
	c.importFrom(checkC02, "C07.10", "C02.4", "C02.5", "C02.6", "C02.8/width")

	// C07.8 lock discipline of the shared view state
	c.checkGuard("C07.8", guards["ViewStates"])
}

func c07ViewLeafOK(fl *Flow, lf Leaf) bool {
	k := lf.KeyIn(fl)
	if k == "c:0" || k == "zero" {
		return true
	}
	verified := func(prefix, arg string) bool {
		return errNilOf(lf.Facts, func(x string) bool {
			return strings.HasPrefix(x, prefix) && strings.Contains(x, ", "+arg+")")
		})
	}
	switch {
	case strings.HasPrefix(k, kTCView) && strings.HasSuffix(k, ")"):
		arg := k[len(kTCView) : len(k)-1]
		return verified(kVerifyTC, arg)
	case strings.HasPrefix(k, kQCView) && strings.HasSuffix(k, ")"):
		arg := k[len(kQCView) : len(k)-1]
		return verified(kVerifyQC, arg)
	case strings.HasPrefix(k, kAggView) && strings.HasSuffix(k, ")"):
		arg := k[len(kAggView) : len(k)-1]
		return errNilOf(lf.Facts, func(x string) bool {
			return strings.HasPrefix(x, kVerifyAggQC) && strings.Contains(x, ", "+arg+")") && strings.HasSuffix(x, "#1")
		})
	}
	return false
}

func c07QCLeafOK(fl *Flow, lf Leaf) bool {
	k := lf.KeyIn(fl)
	if k == "nil" {
		return true
	}
	if strings.HasPrefix(k, "&[") && strings.HasSuffix(k, "]") {
		inner := k[2 : len(k)-1]
		if strings.HasPrefix(inner, kVerifyAggQC) && strings.HasSuffix(inner, "#0") {
			call := strings.TrimSuffix(inner, "#0")
			return errNilOf(lf.Facts, is(call+"#1"))
		}
		return errNilOf(lf.Facts, func(x string) bool {
			return strings.HasPrefix(x, kVerifyQC) && strings.Contains(x, ", "+inner+")")
		})
	}
	return false
}
