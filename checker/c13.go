package main

import (
	"go/types"
	"strings"

	"golang.org/x/tools/go/ssa"
)

func init() { register("C13", checkC13) }

const kBC = "hs/security/blockchain.Blockchain."

func checkC13(c *Ctx) {
	p := c.P
	c.Decided = "content addressing: every write into the hash-indexed table stores a block under its own hash, or under the very hash that was requested from the network layer, and every production network-layer fetch hands back only a block whose hash was compared with the request; " +
		"Store returns before any write when the hash is present; lock discipline of the store; when pruning, the set of views exempted from abandonment is derived only by parent-hash links (never from the lossy per-view index), " +
		"each reported view is removed from the per-view index before the next is examined, and the prune height advances; the ancestry query ends with a hash equality and descends by parent hash while the view is higher."
	c.Decided += " Every presence test of the store in Get decides Get's answer; Committer.commit prunes only after the chain up to the block was committed."
	c.NotDec = "exactness of the ancestry query on arbitrary forests as a functional property of its loop (only its comparison polarity, step and final hash equality are decided); equivocating blocks beyond the one tracked per view are never reported as abandoned (by design of the index)."
	c.Expect("C13.1", 3)

	store := p.Method("security/blockchain", "Blockchain", "Store")
	get := p.Method("security/blockchain", "Blockchain", "Get")
	prune := p.Method("security/blockchain", "Blockchain", "PruneToHeight")
	ext := p.Method("security/blockchain", "Blockchain", "Extends")
	if store == nil || get == nil || prune == nil || ext == nil {
		c.Unresolved("C13.1", "Blockchain", "anchor missing")
		return
	}
	// C13.1 every write to blocks
	ws := c.whoMayWrite("C13.1", p.Field("security/blockchain", "Blockchain", "blocks"), "Blockchain.blocks", "(*hs/security/blockchain.Blockchain).Store", "(*hs/security/blockchain.Blockchain).Get")
	for _, w := range ws {
		mu, ok := w.Instr.(*ssa.MapUpdate)
		if !ok || w.Fresh {
			continue
		}
		// a write in a private helper is judged from each operation that calls it, in that operation's terms
		type view struct {
			root  *ssa.Function
			k, v  string
			facts FactSet
		}
		var views []view
		get := p.Method("security/blockchain", "Blockchain", "Get")
		if w.Fn == store || w.Fn == get {
			fl := NewFlow(p, w.Fn)
			views = append(views, view{w.Fn, fl.K.Key(mu.Key), fl.K.Key(mu.Value), fl.At(mu)})
		} else {
			for _, root := range []*ssa.Function{store, get} {
				if root == nil {
					continue
				}
				for _, d := range deepInstrs(NewFlow(p, root), func(in ssa.Instruction) bool { return in == ssa.Instruction(mu) }, 0) {
					views = append(views, view{root, d.Key(mu.Key), d.Key(mu.Value), d.Facts})
				}
			}
			if len(views) == 0 {
				fl := NewFlow(p, w.Fn)
				views = append(views, view{w.Fn, fl.K.Key(mu.Key), fl.K.Key(mu.Value), fl.At(mu)})
			}
		}
		for _, vw := range views {
			k, v, facts := vw.k, vw.v, vw.facts
			w := FieldWrite{Fn: vw.root, Instr: w.Instr}
			switch {
			case k == kBlockHash+v+")":
				c.Held("C13.1", shortName(w.Fn)+": blocks[b.Hash()] = b", p.InstrPos(mu), "stored under the block's own hash")
				if w.Fn == store {
					// C13.2 no write when present
					ok := falseOf(facts, is("p0->"+kBC+"blocks["+k+"]#1"))
					c.Check(ok, "C13.2", "Store: storing an existing block changes nothing", p.InstrPos(mu),
						"the table is written only when blocks[b.Hash()] is absent", "write reachable when the hash is already present; facts: "+join(facts.Sorted()))
				}
			case k == "p1" && strings.Contains(v, "Sender).RequestBlock(") && strings.Contains(v, ", p1)") && strings.HasSuffix(v, "#0"):
				ok := trueOf(facts, is(strings.TrimSuffix(v, "#0")+"#1"))
				c.Check(ok, "C13.1", shortName(w.Fn)+": blocks[hash] = fetched block", p.InstrPos(mu),
					"the block returned by sender.RequestBlock(ctx, hash) with ok is stored under the requested hash (validated by the network layer, below)",
					"fetched block stored without a successful fetch; facts: "+join(facts.Sorted()))
			default:
				c.Violated("C13.1", shortName(w.Fn)+": write to blocks", p.InstrPos(mu), "blocks["+k+"] = "+v+": the key is neither the stored block's hash nor the requested hash of a fetch")
			}
		}
	}
	// per-view index written alongside, keyed by the block's view
	for _, w := range p.fieldWrites(p.Field("security/blockchain", "Blockchain", "blockAtHeight")) {
		mu, ok := w.Instr.(*ssa.MapUpdate)
		if !ok || w.Fresh {
			continue
		}
		fl := NewFlow(p, w.Fn)
		k, v := fl.K.Key(mu.Key), fl.K.Key(mu.Value)
		c.Check(k == kBlockView+v+")", "C13.1", shortName(w.Fn)+": blockAtHeight[b.View()] = b", p.InstrPos(mu), "indexed by the block's own view", "blockAtHeight["+k+"] = "+v)
	}
	c13Senders(c)
	// C13.10 a block that was fetched successfully is kept: every path from a successful RequestBlock to a return of Get
	// stores the block under the requested hash. (The prune walk and the rules' look-ups follow parent links through the
	// local table: a fetched ancestor that is handed out but not kept leaves a hole in the committed chain, and everything
	// below it is reported as abandoned.)
	if get := p.Method("security/blockchain", "Blockchain", "Get"); get != nil {
		fl := NewFlow(p, get)
		nReq := 0
		for _, d := range deepInstrs(fl, func(in ssa.Instruction) bool {
			call, ok := in.(*ssa.Call)
			return ok && call.Call.IsInvoke() && call.Call.Method.Name() == "RequestBlock"
		}, 0) {
			if len(d.Path) > 0 {
				continue // requested from a private helper: the store is looked for where the request is made
			}
			call := d.Instr.(*ssa.Call)
			nReq++
			rk := fl.K.Key(call)
			isStore := func(in ssa.Instruction) bool {
				mu, ok := in.(*ssa.MapUpdate)
				if !ok {
					return false
				}
				return strings.HasSuffix(fl.K.Key(mu.Map), kBC+"blocks") && fl.K.Key(mu.Value) == rk+"#0"
			}
			// (in a private helper the store is recognised by the table it writes; its operands are the helper's)
			isStoreAny := func(in ssa.Instruction) bool {
				mu, ok := in.(*ssa.MapUpdate)
				if !ok {
					return false
				}
				ld, ok := mu.Map.(*ssa.UnOp)
				if !ok {
					return false
				}
				fa, ok := ld.X.(*ssa.FieldAddr)
				return ok && fieldName(fa.X.Type(), fa.Field) == kBC+"blocks"
			}
			w := cfgSearch(fl, call, nil, isReturn, func(in ssa.Instruction) bool { return isStore(in) || helperAlways(in, isStoreAny, 0) }, func(fs []Fact) bool {
				for _, f := range fs {
					if f.Op == "false" && f.L == rk+"#1" {
						return true
					}
				}
				return false
			})
			c.Check(w == nil, "C13.10", "Get: a successfully fetched block is kept in the block table", p.InstrPos(call),
				"every path from a successful RequestBlock to a return stores the fetched block in blocks",
				"Get can return at "+posOf(p, w)+" after a successful fetch without storing the block: the caller sees it, the local parent-link walks (pruning, later look-ups) do not")
		}
		if nReq == 0 {
			c.Exempt("C13.10", "Get: a successfully fetched block is kept in the block table", p.FuncPos(get), "the fetch is made in a private helper; the store of the fetched block is judged by C13.1 in the helper's terms")
		}
	}

	// C13.3 lock discipline
	c.checkGuard("C13.3", guards["Blockchain"])
	// C13.9 the per-view index is kept in step with the block table: wherever a block enters `blocks` it is also
	// recorded under its view in `blockAtHeight`. PruneToHeight examines the views through that index only, so a block
	// missing from it is never reported as abandoned and its commands are never answered.
	{
		n := 0
		var bad []string
		for _, fn := range p.ModFuncs {
			if funcPkgPath(fn) != modPath+"/security/blockchain" || fn.Blocks == nil || strings.HasSuffix(p.FuncPos(fn), "_test.go") {
				continue
			}
			k := NewKeyer(p, fn)
			eachInstr(fn, func(in ssa.Instruction) {
				mu, ok := in.(*ssa.MapUpdate)
				if !ok || !strings.HasSuffix(k.Key(mu.Map), kBC+"blocks") {
					return
				}
				n++
				bk := k.Key(mu.Value)
				isIndexed := func(x ssa.Instruction) bool {
					m2, ok := x.(*ssa.MapUpdate)
					return ok && strings.HasSuffix(k.Key(m2.Map), kBC+"blockAtHeight") && k.Key(m2.Value) == bk && k.Key(m2.Key) == kBlockView+bk+")"
				}
				before := false
				eachInstr(fn, func(x ssa.Instruction) {
					if isIndexed(x) && precedes(x, in) {
						before = true
					}
				})
				if before {
					return
				}
				if w := reachAvoid(in, isReturn, func(x ssa.Instruction) bool { return isIndexed(x) || helperAlways(x, isIndexed, 0) }); w != nil {
					bad = append(bad, p.InstrPos(in))
				}
			})
		}
		c.Check(n > 0 && len(bad) == 0, "C13.9", "Blockchain: a stored block is indexed under its view", "security/blockchain/blockchain.go",
			itoa(n)+" insertion(s) into blocks, each accompanied on every path by blockAtHeight[block.View()] = block",
			"a block is put into blocks at "+join(bad)+" without being recorded in blockAtHeight: pruning never sees it, so an abandoned block is never reported and its commands are never aborted")
	}

	// C13.4 / C13.5 pruning
	c13Prune(c, prune)

	// C13.7 Get: every presence test of the store decides the answer
	if get := p.Method("security/blockchain", "Blockchain", "Get"); get != nil {
		n := 0
		for _, hf := range helperClosure(p, get, 2) {
			k := NewKeyer(p, hf)
			eachInstr(hf, func(in ssa.Instruction) {
				lk, ok := in.(*ssa.Lookup)
				if !ok || !lk.CommaOk || !strings.HasSuffix(k.Key(lk.X), "Blockchain.blocks") {
					return
				}
				n++
				// the outcome (block, ok) must reach a branch condition or a return of Get, through phis / spills only
				decides := map[int]bool{}
				if lk.Referrers() != nil {
					for _, r := range *lk.Referrers() {
						ex, ok := r.(*ssa.Extract)
						if !ok {
							continue
						}
						seen := map[ssa.Value]bool{}
						var walk func(v ssa.Value)
						walk = func(v ssa.Value) {
							if seen[v] || v.Referrers() == nil {
								return
							}
							seen[v] = true
							for _, u := range *v.Referrers() {
								switch x := u.(type) {
								case *ssa.If, *ssa.Return:
									decides[ex.Index] = true
								case *ssa.Phi:
									walk(x)
								case *ssa.UnOp:
									walk(x)
								case *ssa.Store:
									if x.Val == v {
										if a, ok := x.Addr.(*ssa.Alloc); ok {
											walk(a)
										}
									}
								}
							}
						}
						walk(ex)
					}
				}
				c.Check(decides[0] && decides[1], "C13.7", "Get: a presence test of the store decides the answer", p.InstrPos(in),
					"the looked-up block and its presence flag both flow into Get's result / result branch",
					"the outcome of this lookup of blocks[hash] does not reach Get's result (block used: "+boolStr(decides[0])+", presence used: "+boolStr(decides[1])+"): a block that is in the store is reported as missing, so Extends denies a real ancestor")
			})
		}
		if n < 2 {
			c.Unresolved("C13.7", "Get", "expected the lookup before the fetch and the re-check after a failed fetch; found "+itoa(n))
		}
	} else {
		c.Unresolved("C13.7", "Blockchain.Get", "anchor missing")
	}
	// C13.8 commit: abandoned blocks are computed only after the whole chain up to the block was committed
	if cm := p.Method("protocol/consensus", "Committer", "commit"); cm != nil {
		fl := NewFlow(p, cm)
		inner := p.Method("protocol/consensus", "Committer", "commitInner")
		var innerKey string
		for _, s := range callsIn(cm, false, func(cc *ssa.CallCommon) bool { return calleeIs(cc, inner) }) {
			if v, ok := s.(ssa.Value); ok {
				innerKey = fl.K.Key(v)
			}
		}
		n := 0
		for _, ds := range deepSites(fl, func(cc *ssa.CallCommon) bool { return calleeIs(cc, prune) }, 0) {
			s := ds.Site
			n++
			ok := innerKey != "" && errNilOf(ds.Facts, is(innerKey))
			// the committed block handed to PruneToHeight is the one recorded by this commit: read from the view state
			// after commitInner ran (or the committed block itself), not a copy taken before
			{
				var innerCall ssa.Instruction
				for _, ic := range callsIn(cm, false, func(cc *ssa.CallCommon) bool { return calleeIs(cc, inner) }) {
					innerCall = ic
				}
				fresh, stale := false, ""
				if len(s.Common().Args) > 1 {
					sliceEnterHelpers, sliceProg = funcPkgPath(cm), p
					backwardSliceOpt(s.Common().Args[1], true, func(x ssa.Value) bool {
						if x == ssa.Value(cm.Params[1]) {
							fresh = true
							return true
						}
						call, isCall := x.(*ssa.Call)
						if !isCall || call.Call.StaticCallee() == nil || call.Call.StaticCallee().Name() != "CommittedBlock" {
							return false
						}
						if call.Parent() == cm && innerCall != nil && !precedes(innerCall, call) {
							stale = p.InstrPos(call)
						} else {
							fresh = true
						}
						return true
					})
					sliceEnterHelpers, sliceProg = "", nil
				}
				c.Check(fresh && stale == "", "C13.8", "Committer.commit: pruning is relative to the block just committed", p.Pos(s.Pos()),
					"PruneToHeight receives viewStates.CommittedBlock() as read after commitInner (or the committed block itself)",
					"PruneToHeight receives the committed block as it was before this commit (read at "+stale+"): its parent chain covers none of the views just committed, so every block committed by this call is reported as abandoned")
			}
			c.Check(ok, "C13.8", "Committer.commit: pruning follows a successful commit of the chain", p.Pos(s.Pos()),
				"PruneToHeight(committed, block.View()) is reached only under commitInner(...) == nil",
				"PruneToHeight is reachable after commitInner failed: nothing up to block.View() was committed, yet the blocks on that chain are reported as abandoned (aborted to their clients) and are committed later")
		}
		if n == 0 {
			c.Unresolved("C13.8", "Committer.commit", "no PruneToHeight call")
		}
	} else {
		c.Unresolved("C13.8", "Committer.commit", "anchor missing")
	}

	// Extends polarity
	c13ExtendsWalk(c, ext)
}

// c13ExtendsWalk (C13.6): Extends answers true only under hash equality of the block the walk
// arrived at and the target, and the walk steps to the block stored under the current block's
// parent hash only while the target's view is below the current block's view. The walk may sit
// in Extends or in a private helper of the package it delegates to; the look-up is Blockchain.Get
// itself or a function parameter that Extends binds to the method value chain.Get.
func c13ExtendsWalk(c *Ctx, ext *ssa.Function) {
	p := c.P
	get := p.Method("security/blockchain", "Blockchain", "Get")
	// the function holding the walk: Extends, or the helper it calls whose body has the loop
	var walker *ssa.Function
	var via *ssa.Call // Extends' call of the walker (nil: the walk is in Extends)
	isStep := func(fn *ssa.Function, in ssa.Instruction) bool {
		call, ok := in.(*ssa.Call)
		if !ok {
			return false
		}
		if calleeIs(&call.Call, get) {
			return true
		}
		_, isParam := call.Call.Value.(*ssa.Parameter)
		return isParam && call.Call.StaticCallee() == nil && !call.Call.IsInvoke()
	}
	for _, hf := range helperClosure(p, ext, 2) {
		if funcPkgPath(hf) != funcPkgPath(ext) || hf == get {
			continue
		}
		has := false
		eachInstr(hf, func(in ssa.Instruction) {
			if isStep(hf, in) && inLoop(in.Block()) {
				has = true
			}
		})
		if has && walker == nil {
			walker = hf
		}
	}
	if walker == nil {
		c.Undecided("C13.6", "Extends: descends by parent hash while the view is higher, answers by hash equality", p.FuncPos(ext), "no loop that looks up parent blocks found in Extends or its helpers")
		return
	}
	if walker != ext {
		for _, s := range callsIn(ext, false, func(cc *ssa.CallCommon) bool { return calleeIs(cc, walker) }) {
			if call, ok := s.(*ssa.Call); ok {
				via = call
			}
		}
	}
	// parameter roles in the walker: which parameter is Extends' target
	targetKey := "p2"
	if via != nil {
		targetKey = ""
		ek := NewKeyer(p, ext)
		for i, a := range via.Call.Args {
			if ek.Key(a) == "p2" {
				targetKey = "p" + itoa(i)
			}
			// View(target) passed as a value
			if ek.Key(a) == kBlockView+"p2)" {
				targetKey = "view:p" + itoa(i)
			}
		}
	}
	wfl := NewFlow(p, walker)
	viewOfTarget := func(k string) bool {
		if strings.HasPrefix(targetKey, "view:") {
			return k == targetKey[5:]
		}
		return k == kBlockView+targetKey+")"
	}
	// (1) the step
	step, getOK := false, true
	eachInstr(walker, func(in ssa.Instruction) {
		if !isStep(walker, in) {
			return
		}
		call := in.(*ssa.Call)
		arg := call.Call.Args[len(call.Call.Args)-1]
		if !strings.HasPrefix(wfl.K.Key(arg), kBlockParent) {
			return
		}
		if hasCmp(wfl.At(in), "<", viewOfTarget, func(k string) bool { return strings.HasPrefix(k, kBlockView) }) {
			step = true
		}
		// a look-up through a function parameter: Extends binds it to chain.Get
		if prm, isParam := call.Call.Value.(*ssa.Parameter); isParam {
			getOK = false
			if via != nil {
				for i, q := range walker.Params {
					if q == prm && i < len(via.Call.Args) {
						if f := funcOfValue(via.Call.Args[i]); f != nil && (f == get || strings.HasPrefix(f.Name(), "Get$bound") && f.Synthetic != "") {
							getOK = true
						}
					}
				}
			}
		}
	})
	// (2) true only under hash equality with the target
	ok := true
	efl := NewFlow(p, ext)
	ways := trueEdges(efl)
	if len(ways) == 0 {
		ok = false
	}
	for _, w := range ways {
		if !hasCmp(w, "==", func(k string) bool { return strings.HasPrefix(k, kBlockHash) && k != kBlockHash+"p2)" }, is(kBlockHash+"p2)")) {
			ok = false
		}
	}
	c.Check(ok && step && getOK, "C13.6", "Extends: descends by parent hash while the view is higher, answers by hash equality", p.FuncPos(ext),
		"true is returned only under current.Hash() == target.Hash(); the walk follows Get(current.Parent()) only under target.View() < current.View()",
		"hash-equality on true results: "+boolStr(ok)+", guarded parent step: "+boolStr(step)+", look-up is Blockchain.Get: "+boolStr(getOK))
}

// c13Senders: every production implementation of core.Sender.RequestBlock returns only
// hash-validated blocks.
func c13Senders(c *Ctx) { c13SendersFor(c, "C13.1") }

func c13SendersFor(c *Ctx, rule string) {
	p := c.P
	iface := p.Iface("core", "Sender")
	impls := p.Implementations(iface, false)
	if len(impls) == 0 {
		c.Unresolved(rule, "core.Sender", "no implementations found")
		return
	}
	seen := map[*ssa.Function]bool{}
	for _, t := range impls {
		fn := p.MethodOf(t, "RequestBlock")
		if fn == nil || seen[fn] {
			continue
		}
		seen[fn] = true
		fl := NewFlow(p, fn)
		name := shortName(fn)
		var bad []string
		n := 0
		for _, r := range returnsOf(fn) {
			if !fl.Reachable(r.Block()) {
				continue
			}
			if isBoolConst(retValue(r, 1), false) {
				continue
			}
			n++
			k := fl.K.Key(retValue(r, 0))
			switch {
			case strings.HasPrefix(k, "hs/internal/proto/hotstuffpb.BlockFromProto((*hs/internal/proto/hotstuffpb.Configuration).RequestBlock("):
				// validated by the quorum function: checked below; the request must carry the hash parameter
				okReq := false
				eachInstr(fn, func(in ssa.Instruction) {
					a, isA := in.(*ssa.Alloc)
					if !isA || !strings.HasSuffix(a.Type().String(), "hotstuffpb.BlockHash") {
						return
					}
					if hv := complitField(a, "Hash"); hv != nil && strings.Contains(fl.K.Key(hv), "p2") && strings.Contains(k, fl.K.Key(a)) {
						okReq = true
					}
				})
				if !okReq {
					bad = append(bad, "request does not carry the hash parameter: "+k)
				}
			case strings.HasPrefix(k, "(*hs/security/blockchain.Blockchain).LocalGet(") && strings.Contains(k, ", p2)") && strings.HasSuffix(k, "#0"):
				// local lookup under the requested hash (twins)
			default:
				// a leaf through phi?
				okAll := true
				for _, lf := range leaves(fl, retValue(r, 0), r) {
					lk := lf.KeyIn(fl)
					if !(strings.HasPrefix(lk, "(*hs/security/blockchain.Blockchain).LocalGet(") && strings.Contains(lk, ", p2)")) && lk != "nil" {
						okAll = false
					}
				}
				if !okAll {
					bad = append(bad, "returns "+k)
				}
			}
		}
		c.Check(len(bad) == 0 && n > 0, rule, name+": returns only the requested block", p.FuncPos(fn),
			"every (block, true) return is the decoded reply of the hash-validating quorum call for that hash, or a local lookup under that hash", join(bad))
	}
	// the quorum function compares hashes
	qf := p.Method("network", "qspec", "RequestBlockQF")
	if qf == nil {
		c.Unresolved(rule, "qspec.RequestBlockQF", "anchor missing")
		return
	}
	fl := NewFlow(p, qf)
	var bad []string
	n := 0
	// the compared hash is filled from the request
	copiedHere := false
	eachInstr(qf, func(in ssa.Instruction) {
		if call, ok := in.(*ssa.Call); ok {
			if b, ok := call.Call.Value.(*ssa.Builtin); ok && b.Name() == "copy" && strings.Contains(fl.K.Key(call.Call.Args[1]), "BlockHash).GetHash(p1)") {
				copiedHere = true
			}
		}
	})
	for _, r := range returnsOf(qf) {
		if !fl.Reachable(r.Block()) || isBoolConst(retValue(r, 1), false) {
			continue
		}
		n++
		bk := fl.K.Key(retValue(r, 0))
		facts := fl.At(r)
		// h == BlockFromProto(b).Hash() where h is filled from in.GetHash() (in place, or by a
		// private helper of the package that returns the converted hash)
		fromRequest := func(k string) bool {
			if strings.HasPrefix(k, "*alloc@") || strings.HasPrefix(k, "alloc@") || strings.Contains(k, "&[") {
				return copiedHere
			}
			found := false
			sliceEnterHelpers, sliceProg = funcPkgPath(qf), p
			eachInstr(qf, func(in ssa.Instruction) {
				v, isVal := in.(ssa.Value)
				if !isVal || found || fl.K.Key(v) != k {
					return
				}
				found = backwardSlice(v, func(x ssa.Value) bool {
					call, ok := x.(*ssa.Call)
					if !ok || call.Call.StaticCallee() == nil || !strings.HasSuffix(call.Call.StaticCallee().String(), "BlockHash).GetHash") || len(call.Call.Args) == 0 {
						return false
					}
					return backwardSlice(call.Call.Args[0], func(y ssa.Value) bool { return len(qf.Params) > 1 && y == qf.Params[1] })
				})
			})
			sliceEnterHelpers, sliceProg = "", nil
			return found
		}
		ok := hasCmp(facts, "==", fromRequest,
			func(k string) bool {
				return strings.HasPrefix(k, kBlockHash+"hs/internal/proto/hotstuffpb.BlockFromProto("+bk+")")
			})
		if !ok {
			// `return findReply(replies, func(b) bool { return h == BlockFromProto(b).Hash() })`: a private search helper
			// that hands back an element only if its function parameter accepted it, called with the hash comparison
			if ex, isEx := retValue(r, 0).(*ssa.Extract); isEx && ex.Index == 0 {
				if call, isCall := ex.Tuple.(*ssa.Call); isCall {
					if hf := call.Call.StaticCallee(); hf != nil && hf.Blocks != nil && funcPkgPath(hf) == funcPkgPath(qf) && hf.Object() != nil && !hf.Object().Exported() {
						hfl := NewFlow(p, hf)
						for i, prm := range hf.Params {
							if _, isSig := prm.Type().Underlying().(*types.Signature); !isSig || i >= len(call.Call.Args) {
								continue
							}
							accepted, nr := true, 0
							for _, hr := range returnsOf(hf) {
								if !hfl.Reachable(hr.Block()) || len(hr.Results) != 2 || isBoolConst(retValue(hr, 1), false) {
									continue
								}
								nr++
								rk := hfl.K.Key(retValue(hr, 0))
								if !isBoolConst(retValue(hr, 1), true) || !trueOf(hfl.At(hr), func(k string) bool { return strings.HasPrefix(k, "dyn p"+itoa(i)+"("+rk+")") }) {
									accepted = false
								}
							}
							if !accepted || nr == 0 {
								continue
							}
							pf, okP := predicateFacts(fl, call.Call.Args[i])
							if !okP {
								continue
							}
							for _, f := range pf {
								isElemHash := func(k string) bool {
									return strings.HasPrefix(k, kBlockHash+"hs/internal/proto/hotstuffpb.BlockFromProto(elem)")
								}
								if f.Op == "==" && (fromRequest(f.L) && isElemHash(f.R) || fromRequest(f.R) && isElemHash(f.L)) {
									ok = true
								}
							}
						}
					}
				}
			}
		}
		if !ok {
			bad = append(bad, p.Pos(r.Pos())+" returns "+bk+"; facts: "+join(facts.Sorted()))
		}
	}
	c.Check(len(bad) == 0 && n > 0, rule, "qspec.RequestBlockQF: reply accepted only if its hash is the requested one", p.FuncPos(qf),
		"(b, true) is returned only under h == BlockFromProto(b).Hash(), h copied from the request", "request hash copied in place: "+boolStr(copiedHere)+"; "+join(bad))
	_ = types.Typ
}

func c13Prune(c *Ctx, prune *ssa.Function) {
	p := c.P
	fl := NewFlow(p, prune)
	// the append(s) to the result
	var appends []*ssa.Call
	eachInstr(prune, func(in ssa.Instruction) {
		call, ok := in.(*ssa.Call)
		if !ok {
			return
		}
		if b, ok := call.Call.Value.(*ssa.Builtin); ok && b.Name() == "append" && call.Type().String() == "[]*"+modPath+".Block" {
			appends = append(appends, call)
		}
	})
	if len(appends) == 0 {
		c.Undecided("C13.4", "PruneToHeight", p.FuncPos(prune), "no append to the abandoned-blocks result found")
		return
	}
	for _, ap := range appends {
		facts := fl.At(ap)
		// exemption sets consulted by the guarding conditions: maps built in PruneToHeight, or built
		// and returned by a private helper of the package (the part of the function that walks the
		// committed chain may live in a constructor)
		maps := map[string]ssa.Value{}
		builtIn := map[string]*ssa.Function{}
		consulted := func(key string) bool {
			for f := range facts {
				if strings.Contains(f.L, key) || strings.Contains(f.R, key) {
					return true
				}
			}
			return false
		}
		eachInstr(prune, func(in ssa.Instruction) {
			switch x := in.(type) {
			case *ssa.MakeMap:
				if k := fl.K.Key(x); consulted(k) {
					maps[k] = x
				}
			case *ssa.Call:
				cal := x.Call.StaticCallee()
				if cal == nil || cal.Blocks == nil || cal.Object() == nil || cal.Object().Exported() || funcPkgPath(cal) != funcPkgPath(prune) {
					return
				}
				if _, isMap := x.Type().Underlying().(*types.Map); !isMap {
					return
				}
				var mk *ssa.MakeMap
				for _, r := range returnsOf(cal) {
					m, ok := retValue(r, 0).(*ssa.MakeMap)
					if !ok || (mk != nil && mk != m) {
						return
					}
					mk = m
				}
				if k := fl.K.Key(x); mk != nil && consulted(k) {
					maps[k] = mk
					builtIn[k] = cal
				}
			}
		})
		if len(maps) == 0 {
			c.Undecided("C13.4", "PruneToHeight: committed-chain exemption", p.InstrPos(ap), "the decision to report a block does not consult a locally built exemption set; idiom not recognised")
			continue
		}
		// polarity: a block is reported when it is *not* what the exemption set holds for its view / hash
		okPol := false
		for mk0 := range maps {
			for f := range facts {
				if (strings.Contains(f.L, mk0) || strings.Contains(f.R, mk0)) && (f.Op == "!=" || f.Op == "false") {
					okPol = true
				}
			}
		}
		c.Check(okPol, "C13.4/polarity", "PruneToHeight: reports the blocks that are not on the committed chain", p.InstrPos(ap),
			"the report is reached only on the side of the test where the block differs from (is absent from) the committed chain's entry",
			"the report is on the side of the test where the block IS the committed chain's entry: committed blocks are reported as abandoned and abandoned ones are not")
		var tainted []string
		nUpd := 0
		sliceEnterHelpers, sliceProg = funcPkgPath(prune), p
		for mk0, mv := range maps {
			host := prune
			if h := builtIn[mk0]; h != nil {
				host = h
			}
			hk := fl.K
			if host != prune {
				hk = NewKeyer(p, host)
			}
			eachInstr(host, func(in ssa.Instruction) {
				mu, ok := in.(*ssa.MapUpdate)
				if !ok {
					return
				}
				if host == prune && hk.Key(mu.Map) != mk0 {
					return
				}
				if host != prune && mu.Map != mv {
					return
				}
				nUpd++
				for _, v := range []ssa.Value{mu.Key, mu.Value} {
					if backwardSlice(v, func(x ssa.Value) bool {
						// any read of the per-view index (in PruneToHeight or, through a parameter, in the helper)
						if ld, ok := x.(*ssa.UnOp); ok {
							if a, ok := ld.X.(*ssa.FieldAddr); ok {
								return fieldName(a.X.Type(), a.Field) == kBC+"blockAtHeight"
							}
						}
						return false
					}) {
						tainted = append(tainted, p.InstrPos(mu)+": "+hk.Key(mu.Map)+"["+shortVal(hk.Key(mu.Key))+"]")
					}
				}
			})
		}
		sliceEnterHelpers, sliceProg = "", nil
		c.Check(len(tainted) == 0 && nUpd > 0, "C13.4", "PruneToHeight: committed chain derived by hash links only", p.InstrPos(ap),
			"the "+itoa(nUpd)+" update(s) of the exemption set do not depend on the per-view index blockAtHeight",
			"the set of committed views is computed through blockAtHeight, which holds one block per view and is overwritten under equivocation: a committed block can be reported as abandoned ("+join(tainted)+")")
		// C13.5 reported at most once: delete(blockAtHeight, h) before the next iteration / return
		var viewKey string
		storedInto(sliceBase(ap.Call.Args[1]), func(e ssa.Value) bool {
			k := fl.K.Key(e)
			if strings.HasPrefix(k, "p0->"+kBC+"blockAtHeight[") {
				viewKey = strings.TrimSuffix(strings.TrimPrefix(k, "p0->"+kBC+"blockAtHeight["), "]#0")
			}
			return false
		})
		w := cfgSearch(fl, ap, nil, func(in ssa.Instruction) bool {
			if isReturn(in) {
				return true
			}
			lk, ok := in.(*ssa.Lookup)
			return ok && strings.HasSuffix(fl.K.Key(lk.X), kBC+"blockAtHeight")
		}, func(in ssa.Instruction) bool {
			call, ok := in.(*ssa.Call)
			if !ok {
				return false
			}
			b, ok := call.Call.Value.(*ssa.Builtin)
			return ok && b.Name() == "delete" && strings.HasSuffix(fl.K.Key(call.Call.Args[0]), kBC+"blockAtHeight") && fl.K.Key(call.Call.Args[1]) == viewKey
		}, nil)
		if w != nil && viewKey != "" {
			// the entry may be taken out of the index right after it was read, before it is judged:
			// lookup, delete of the same view, then the report, each dominating the next
			var lookups, deletes []ssa.Instruction
			eachInstr(fl.Fn, func(in ssa.Instruction) {
				switch x := in.(type) {
				case *ssa.Lookup:
					if strings.HasSuffix(fl.K.Key(x.X), kBC+"blockAtHeight") && fl.K.Key(x.Index) == viewKey {
						lookups = append(lookups, in)
					}
				case *ssa.Call:
					if b, ok := x.Call.Value.(*ssa.Builtin); ok && b.Name() == "delete" && strings.HasSuffix(fl.K.Key(x.Call.Args[0]), kBC+"blockAtHeight") && fl.K.Key(x.Call.Args[1]) == viewKey {
						deletes = append(deletes, in)
					}
				}
			})
			for _, l := range lookups {
				for _, d := range deletes {
					if precedes(l, d) && precedes(d, ap) {
						w = nil
					}
				}
			}
		}
		c.Check(viewKey != "" && w == nil, "C13.5", "PruneToHeight: a reported view is removed from the index", p.InstrPos(ap),
			"after reporting blockAtHeight[h], delete(blockAtHeight, h) runs before the next view is examined or the function returns",
			"a reported block can stay in the per-view index and be reported again")
	}
	// prune height advances to the new height on every normal return
	okPH := false
	eachInstr(prune, func(in ssa.Instruction) {
		if st, ok := in.(*ssa.Store); ok {
			if fa, ok := st.Addr.(*ssa.FieldAddr); ok && fieldName(fa.X.Type(), fa.Field) == kBC+"pruneHeight" {
				if _, isParam := st.Val.(*ssa.Parameter); isParam {
					okPH = true
				}
			}
		}
	})
	c.Check(okPH, "C13.5", "PruneToHeight: prune height advances", p.FuncPos(prune), "pruneHeight := height", "pruneHeight is not advanced: views would be re-examined")
}
