package main

// Structural keys for SSA values ("terms"). go/ssa performs no common-subexpression
// elimination, so the same source expression evaluated twice yields two values; rules
// need to recognise that `proposal.Block.View()` in a guard and in a later use denote
// the same thing. A key is a canonical string of the value's defining expression over
// parameters, free variables, constants, field paths and calls (callees by resolved
// full name). Calls that are not getter-like carry a unique instruction id, so two
// reads of mutable state at different times are never identified.

import (
	"fmt"
	"go/token"
	"go/types"
	"regexp"
	"strings"

	"golang.org/x/tools/go/ssa"
)

// Keyer computes keys for the values of one function.
type Keyer struct {
	fwdDepth     int
	fwdOK        map[*ssa.Alloc]bool
	P            *Prog
	Fn           *ssa.Function
	memo         map[ssa.Value]string
	visit        map[ssa.Value]bool
	ids          map[ssa.Instruction]string
	spill        map[*ssa.Alloc]ssa.Value // allocs that only hold a spilled value
	captured     map[*ssa.Alloc]bool
	Opaque       map[*ssa.Function]bool // callees never inlined (rules refer to them by name)
	fieldSpill   map[*ssa.Alloc]ssa.Value
	fieldWritten map[*ssa.Alloc]map[int]bool
	// NormGetters keys calls of generated protobuf getters like loads of the field they return.
	NormGetters bool
}

func NewKeyer(p *Prog, fn *ssa.Function) *Keyer {
	k := &Keyer{P: p, Fn: fn, memo: map[ssa.Value]string{}, visit: map[ssa.Value]bool{},
		ids: map[ssa.Instruction]string{}, spill: map[*ssa.Alloc]ssa.Value{}, captured: map[*ssa.Alloc]bool{}}
	for bi, b := range fn.Blocks {
		for ii, in := range b.Instrs {
			k.ids[in] = fmt.Sprintf("b%di%d", bi, ii)
		}
	}
	k.findSpills()
	return k
}

// rootAlloc follows FieldAddr/IndexAddr chains down to an Alloc.
func rootAlloc(v ssa.Value) *ssa.Alloc {
	for {
		switch x := v.(type) {
		case *ssa.Alloc:
			return x
		case *ssa.FieldAddr:
			v = x.X
		case *ssa.IndexAddr:
			v = x.X
		default:
			return nil
		}
	}
}

func (k *Keyer) findSpills() {
	whole := map[*ssa.Alloc][]ssa.Value{}
	partial := map[*ssa.Alloc]bool{}
	for _, b := range k.Fn.Blocks {
		for _, in := range b.Instrs {
			switch x := in.(type) {
			case *ssa.Store:
				if a, ok := x.Addr.(*ssa.Alloc); ok {
					whole[a] = append(whole[a], x.Val)
				} else if a := rootAlloc(x.Addr); a != nil {
					partial[a] = true
				}
			case *ssa.MakeClosure:
				cl, _ := x.Fn.(*ssa.Function)
				for i, bnd := range x.Bindings {
					if a, ok := bnd.(*ssa.Alloc); ok {
						// a local captured by a closure that never writes it is still a plain spill
						if cl == nil || i >= len(cl.FreeVars) || freeVarWritten(cl, cl.FreeVars[i], 0) {
							k.captured[a] = true
						}
					}
				}
			}
		}
	}
	for a, vs := range whole {
		if len(vs) == 1 && !partial[a] && !k.captured[a] {
			k.spill[a] = vs[0]
		}
	}
	// field-sensitive refinement: a struct local holding a copy of one value (typically a by-value
	// parameter) of which only some fields are assigned later (`vote.Deferred = true`): the other
	// fields still are the fields of the copied value.
	k.fieldSpill = map[*ssa.Alloc]ssa.Value{}
	k.fieldWritten = map[*ssa.Alloc]map[int]bool{}
	for a, vs := range whole {
		if len(vs) != 1 || !partial[a] || k.captured[a] {
			continue
		}
		if _, isStruct := a.Type().Underlying().(*types.Pointer).Elem().Underlying().(*types.Struct); !isStruct {
			continue
		}
		written := map[int]bool{}
		ok := true
		for _, b := range k.Fn.Blocks {
			for _, in := range b.Instrs {
				st, isSt := in.(*ssa.Store)
				if !isSt || st.Addr == ssa.Value(a) || rootAlloc(st.Addr) != a {
					continue
				}
				// first-level selector below the alloc
				v := st.Addr
				for {
					var base ssa.Value
					switch x := v.(type) {
					case *ssa.FieldAddr:
						base = x.X
						if base == ssa.Value(a) {
							written[x.Field] = true
						}
					case *ssa.IndexAddr:
						base = x.X
						if base == ssa.Value(a) {
							ok = false
						}
					}
					if base == nil || base == ssa.Value(a) {
						break
					}
					v = base
				}
			}
		}
		// the address must not escape (passed to a call, stored, captured): only loads and field selections
		if refs := a.Referrers(); refs != nil {
			for _, r := range *refs {
				switch x := r.(type) {
				case *ssa.Store:
					if x.Val == ssa.Value(a) {
						ok = false
					}
				case *ssa.FieldAddr, *ssa.UnOp, *ssa.DebugRef:
				default:
					ok = false
				}
			}
		}
		if ok {
			k.fieldSpill[a] = vs[0]
			k.fieldWritten[a] = written
		}
	}
}

// freeVarWritten reports whether closure cl (or a nested closure it passes the
// variable on to) stores through the captured variable fv.
func freeVarWritten(cl *ssa.Function, fv *ssa.FreeVar, depth int) bool {
	if depth > 3 || fv.Referrers() == nil {
		return depth > 3
	}
	var chase func(v ssa.Value) bool
	chase = func(v ssa.Value) bool {
		refs := v.Referrers()
		if refs == nil {
			return false
		}
		for _, r := range *refs {
			switch x := r.(type) {
			case *ssa.Store:
				if x.Addr == v {
					return true
				}
			case *ssa.FieldAddr:
				if chase(x) {
					return true
				}
			case *ssa.IndexAddr:
				if chase(x) {
					return true
				}
			case *ssa.MakeClosure:
				inner, _ := x.Fn.(*ssa.Function)
				for i, b := range x.Bindings {
					if b == v {
						if inner == nil || i >= len(inner.FreeVars) || freeVarWritten(inner, inner.FreeVars[i], depth+1) {
							return true
						}
					}
				}
			case ssa.CallInstruction:
				// passed as an argument (pointer escapes to a callee): assume written
				for _, a := range x.Common().Args {
					if a == v {
						return true
					}
				}
			}
		}
		return false
	}
	return chase(fv)
}

func shorten(s string) string { return strings.ReplaceAll(s, modPath, "hs") }

func fieldName(structT types.Type, idx int) string {
	t := structT
	if p, ok := t.Underlying().(*types.Pointer); ok {
		t = p.Elem()
	}
	st, ok := t.Underlying().(*types.Struct)
	if !ok || idx >= st.NumFields() {
		return fmt.Sprintf("f%d", idx)
	}
	owner := ""
	if n, ok := types.Unalias(t).(*types.Named); ok {
		owner = n.Obj().Name()
		if n.Obj().Pkg() != nil {
			owner = shorten(n.Obj().Pkg().Path()) + "." + owner
		}
	}
	return owner + "." + st.Field(idx).Name()
}

// fieldVar returns the types.Var of a FieldAddr/Field.
func fieldVar(structT types.Type, idx int) *types.Var {
	t := structT
	if p, ok := t.Underlying().(*types.Pointer); ok {
		t = p.Elem()
	}
	st, ok := t.Underlying().(*types.Struct)
	if !ok || idx >= st.NumFields() {
		return nil
	}
	return st.Field(idx)
}

// Key returns the structural key of v.
func (k *Keyer) Key(v ssa.Value) string {
	if v == nil {
		return "<none>"
	}
	if s, ok := k.memo[v]; ok {
		return s
	}
	if k.visit[v] {
		if ph, ok := v.(*ssa.Phi); ok {
			return "phi@" + k.ids[ph]
		}
		return k.opaque(v)
	}
	k.visit[v] = true
	s := k.key(v)
	delete(k.visit, v)
	k.memo[v] = s
	return s
}

func (k *Keyer) opaque(v ssa.Value) string {
	if in, ok := v.(ssa.Instruction); ok {
		return "v@" + k.ids[in]
	}
	return "v@" + v.Name()
}

func (k *Keyer) key(v ssa.Value) string {
	switch x := v.(type) {
	case *ssa.Parameter:
		for i, p := range k.Fn.Params {
			if p == x {
				return fmt.Sprintf("p%d", i)
			}
		}
		return "p?" + x.Name()
	case *ssa.FreeVar:
		return "fv:" + x.Name()
	case *ssa.Const:
		if x.IsNil() {
			return "nil"
		}
		if x.Value == nil {
			return "zero"
		}
		return "c:" + x.Value.ExactString()
	case *ssa.Global:
		return "g:" + shorten(x.String())
	case *ssa.Function:
		return "fn:" + shorten(x.String())
	case *ssa.Builtin:
		return "builtin:" + x.Name()
	case *ssa.Alloc:
		if sv, ok := k.spill[x]; ok {
			return "&[" + k.Key(sv) + "]"
		}
		return "alloc@" + k.ids[x]
	case *ssa.FieldAddr:
		if a, ok := x.X.(*ssa.Alloc); ok {
			if sv, ok := k.fieldSpill[a]; ok && !k.fieldWritten[a][x.Field] {
				return "&" + k.Key(sv) + "." + fieldName(x.X.Type(), x.Field)
			}
		}
		return "&" + k.path(x.X, fieldName(x.X.Type(), x.Field))
	case *ssa.Field:
		return k.Key(x.X) + "." + fieldName(x.X.Type(), x.Field)
	case *ssa.UnOp:
		switch x.Op {
		case token.MUL:
			// a load of a local that never escapes, right after a store to it in the same block, is the stored value
			// (`err = f(); if err != nil`, with err a named result assigned several times)
			if al, ok := x.X.(*ssa.Alloc); ok && !k.captured[al] && k.fwdLoad(al) {
				b := x.Block()
				pos := -1
				for i, in := range b.Instrs {
					if in == ssa.Instruction(x) {
						pos = i
					}
				}
				for i := pos - 1; i >= 0; i-- {
					if st, ok := b.Instrs[i].(*ssa.Store); ok && st.Addr == ssa.Value(al) {
						if sk := k.Key(st.Val); !strings.Contains(sk, "alloc@"+k.ids[al]) {
							return sk
						}
						break
					}
				}
			}
			xs := k.Key(x.X)
			if strings.HasPrefix(xs, "&[") && strings.HasSuffix(xs, "]") && balanced(xs[2:len(xs)-1]) {
				return xs[2 : len(xs)-1]
			}
			if strings.HasPrefix(xs, "&") && !strings.HasPrefix(xs, "&[") {
				return xs[1:]
			}
			return "*" + xs
		case token.NOT:
			return "!" + k.Key(x.X)
		case token.ARROW:
			return "<-" + k.Key(x.X) + "@" + k.ids[x]
		default:
			return x.Op.String() + k.Key(x.X)
		}
	case *ssa.BinOp:
		return "(" + k.Key(x.X) + " " + x.Op.String() + " " + k.Key(x.Y) + ")"
	case *ssa.Extract:
		return k.Key(x.Tuple) + "#" + fmt.Sprint(x.Index)
	case *ssa.Phi:
		first := ""
		same := true
		for i, e := range x.Edges {
			s := k.Key(e)
			if i == 0 {
				first = s
			} else if s != first {
				same = false
			}
		}
		if same && first != "" && !strings.Contains(first, "phi@"+k.ids[x]) {
			return first
		}
		return "phi@" + k.ids[x]
	case *ssa.Convert:
		return k.Key(x.X)
	case *ssa.ChangeType:
		return k.Key(x.X)
	case *ssa.ChangeInterface:
		return k.Key(x.X)
	case *ssa.MakeInterface:
		return k.Key(x.X)
	case *ssa.SliceToArrayPointer:
		return k.Key(x.X)
	case *ssa.TypeAssert:
		return "assert[" + shorten(types.TypeString(x.AssertedType, nil)) + "](" + k.Key(x.X) + ")"
	case *ssa.Lookup:
		return k.Key(x.X) + "[" + k.Key(x.Index) + "]"
	case *ssa.Index:
		return k.Key(x.X) + "[" + k.Key(x.Index) + "]"
	case *ssa.IndexAddr:
		return "&" + k.Key(x.X) + "[" + k.Key(x.Index) + "]"
	case *ssa.Slice:
		return k.Key(x.X) + "[" + k.Key(x.Low) + ":" + k.Key(x.High) + "]"
	case *ssa.MakeClosure:
		return "closure:" + shorten(x.Fn.(*ssa.Function).String())
	case *ssa.Call:
		return k.callKey(x)
	case *ssa.MakeMap, *ssa.MakeSlice, *ssa.MakeChan:
		return "make@" + k.ids[x.(ssa.Instruction)]
	}
	return k.opaque(v)
}

func balanced(s string) bool {
	d := 0
	for _, r := range s {
		switch r {
		case '[':
			d++
		case ']':
			d--
			if d < 0 {
				return false
			}
		}
	}
	return d == 0
}

// path renders base->field for pointer bases, base.field through a spilled value.
func (k *Keyer) path(base ssa.Value, f string) string {
	bs := k.Key(base)
	if strings.HasPrefix(bs, "&[") && strings.HasSuffix(bs, "]") && balanced(bs[2:len(bs)-1]) {
		return bs[2:len(bs)-1] + "." + f
	}
	if strings.HasPrefix(bs, "&") && !strings.HasPrefix(bs, "&[") {
		// address of a field of something: (&x.f)->g == x.f.g
		return bs[1:] + "." + f
	}
	return bs + "->" + f
}

func (k *Keyer) callKey(c *ssa.Call) string {
	args := make([]string, 0, len(c.Call.Args)+1)
	var name string
	unique := true
	if c.Call.IsInvoke() {
		args = append(args, k.Key(c.Call.Value))
		name = "invoke " + shorten(c.Call.Method.FullName())
		if k.getterLikeIface(c.Call.Method) {
			unique = false
		}
	} else if callee := c.Call.StaticCallee(); callee != nil {
		name = shorten(callee.String())
		if getterLike(callee) {
			unique = false
		}
		// a pure forwarder of the module (`func (x) certifiedBy(b) (*Block, bool) { return x.chain.Get(b.QC().Hash()) }`)
		// is the call it forwards to, with the parameters replaced by the arguments
		if inner := forwardedCall(k.P, callee); inner != nil && k.fwdDepth < 2 {
			ck := NewKeyer(k.P, callee)
			ck.NormGetters = k.NormGetters
			ck.fwdDepth = k.fwdDepth + 1
			ik := ck.callKey(inner)
			if at := strings.LastIndex(ik, ")@b"); at >= 0 && !strings.ContainsAny(ik[at+2:], " ,()[]") {
				ik = ik[:at+1] // the forwarded call's own site id; the forwarder's call site takes its place
			}
			args := make([]string, len(c.Call.Args))
			for i, a := range c.Call.Args {
				args[i] = k.Key(a)
			}
			ik = localIDRe.ReplaceAllString(ik, "@~"+callee.Name()+":b${1}i${2}")
			ik = paramRe.ReplaceAllStringFunc(ik, func(m string) string {
				i := 0
				for _, ch := range m[1:] {
					i = i*10 + int(ch-'0')
				}
				if i < len(args) {
					return args[i]
				}
				return m
			})
			// `&[p0]->f` (the address of a spilled value parameter, dereferenced) is `p0.f`
			ik = addrDerefRe.ReplaceAllString(ik, "$1.")
			if unique {
				ik += "@" + k.ids[c]
			}
			return ik
		}
		if k.NormGetters && strings.HasPrefix(callee.Name(), "Get") && len(c.Call.Args) == 1 && callee.Signature.Recv() != nil && k.P.isGenerated(callee) {
			if f := accessorField(k.P, callee); f != "" {
				return k.Key(c.Call.Args[0]) + "->" + f
			}
		}
	} else if b, ok := c.Call.Value.(*ssa.Builtin); ok {
		name = "builtin " + b.Name()
		if b.Name() == "len" || b.Name() == "cap" {
			unique = true // lengths change; keep them per-site
		}
	} else if m, recv := k.boundMethodParam(c.Call.Value); m != nil {
		// a call of a function parameter that is, at every call of this private function, the same bound
		// method (`findHighest(qcs, c.VerifyQuorumCert)`): it is a call of that method
		name = shorten(m.String())
		args = append(args, recv)
	} else {
		name = "dyn " + k.Key(c.Call.Value)
	}
	for _, a := range c.Call.Args {
		args = append(args, k.Key(a))
	}
	s := name + "(" + strings.Join(args, ", ") + ")"
	if unique {
		s += "@" + k.ids[c]
	}
	return s
}

// getterLikeIface: interface methods with no parameters that are plain accessors in
// every module implementation (Participants, ToBytes, Len, Signer ...).
func (k *Keyer) getterLikeIface(m *types.Func) bool {
	sig := m.Type().(*types.Signature)
	if sig.Params().Len() != 0 || sig.Results().Len() != 1 {
		return false
	}
	switch m.Name() {
	case "Participants", "ToBytes", "Len", "Signer", "Public":
		return true
	}
	return false
}

var getterMemo = map[*ssa.Function]int{}

// getterLike reports functions whose result is a function of their arguments and of
// memory reachable from them, with no writes, no locking, no calls except to other
// getter-like functions: struct accessors such as (*Block).View or QuorumCert.View.
func getterLike(fn *ssa.Function) bool {
	if v, ok := getterMemo[fn]; ok {
		return v == 1
	}
	getterMemo[fn] = 0 // recursion guard: assume not
	res := getterLike1(fn)
	if res {
		getterMemo[fn] = 1
	}
	return res
}

func getterLike1(fn *ssa.Function) bool {
	// a small table of pure library calls
	switch fn.String() {
	case "bytes.Equal", "math.Ceil":
		return true
	}
	if fn.Blocks == nil {
		return false
	}
	if !inModule(funcPkgPath(fn)) {
		return false
	}
	if fn.Signature.Results().Len() == 0 {
		return false
	}
	n := 0
	for _, b := range fn.Blocks {
		for _, in := range b.Instrs {
			n++
			switch x := in.(type) {
			case *ssa.Store:
				// stores into own locals (spills) are fine
				if rootAlloc(x.Addr) == nil {
					return false
				}
			case *ssa.MapUpdate, *ssa.Send, *ssa.Go, *ssa.Defer, *ssa.Select, *ssa.Panic, *ssa.RunDefers:
				return false
			case *ssa.Call:
				if x.Call.IsInvoke() {
					return false
				}
				callee := x.Call.StaticCallee()
				if callee == nil {
					if b, ok := x.Call.Value.(*ssa.Builtin); ok && (b.Name() == "len" || b.Name() == "cap") {
						continue
					}
					return false
				}
				if !getterLike(callee) {
					return false
				}
			}
		}
	}
	return n < 40
}

var fwdMemo = map[*ssa.Function]*ssa.Call{}
var fwdSeen = map[*ssa.Function]bool{}

// forwardedCall: fn is an unexported, non-generic function of the module whose single block
// computes the arguments of one call with getters / field reads only and returns exactly that
// call's result(s). The call is returned (nil otherwise).
func forwardedCall(p *Prog, fn *ssa.Function) *ssa.Call {
	if fwdSeen[fn] {
		return fwdMemo[fn]
	}
	fwdSeen[fn] = true
	if fn.Blocks == nil || len(fn.Blocks) != 1 || fn.Object() == nil || fn.Object().Exported() || fn.Synthetic != "" || !inModule(funcPkgPath(fn)) || fn.TypeParams().Len() > 0 {
		return nil
	}
	var inner *ssa.Call
	for _, in := range fn.Blocks[0].Instrs {
		switch x := in.(type) {
		case *ssa.Call:
			if cal := x.Call.StaticCallee(); cal != nil && getterLike(cal) && !x.Call.IsInvoke() {
				continue
			}
			if x.Call.IsInvoke() {
				return nil
			}
			if inner != nil {
				return nil
			}
			inner = x
		case *ssa.FieldAddr, *ssa.Field, *ssa.UnOp, *ssa.Extract, *ssa.DebugRef, *ssa.Return, *ssa.ChangeType, *ssa.Convert:
		default:
			return nil
		}
	}
	if inner == nil || inner.Call.StaticCallee() == nil || inner.Call.StaticCallee() == fn {
		return nil
	}
	ret, ok := fn.Blocks[0].Instrs[len(fn.Blocks[0].Instrs)-1].(*ssa.Return)
	if !ok {
		return nil
	}
	if tup, isTup := inner.Type().(*types.Tuple); isTup {
		if len(ret.Results) != tup.Len() {
			return nil
		}
		for i, r := range ret.Results {
			ex, ok := r.(*ssa.Extract)
			if !ok || ex.Tuple != ssa.Value(inner) || ex.Index != i {
				return nil
			}
		}
	} else if len(ret.Results) != 1 || ret.Results[0] != ssa.Value(inner) {
		return nil
	}
	fwdMemo[fn] = inner
	return inner
}

// fwdLoad: the local is only stored to and loaded from (its address goes nowhere else), so a load
// sees the last store on the path.
func (k *Keyer) fwdLoad(al *ssa.Alloc) bool {
	if v, ok := k.fwdOK[al]; ok {
		return v
	}
	if k.fwdOK == nil {
		k.fwdOK = map[*ssa.Alloc]bool{}
	}
	ok := true
	if refs := al.Referrers(); refs != nil {
		for _, r := range *refs {
			switch x := r.(type) {
			case *ssa.Store:
				if x.Addr != ssa.Value(al) {
					ok = false
				}
			case *ssa.UnOp:
				if x.Op != token.MUL {
					ok = false
				}
			case *ssa.DebugRef:
			default:
				ok = false
			}
		}
	}
	k.fwdOK[al] = ok
	return ok
}

// callKeyPrefix: the prefix of the key of a call of fn: its name, or -- when fn merely forwards to
// another function of the module (forwardedCall) -- that function's name, as the Keyer renders it.
func callKeyPrefix(p *Prog, fn *ssa.Function) string {
	for i := 0; i < 3 && fn != nil; i++ {
		inner := forwardedCall(p, fn)
		if inner == nil || inner.Call.StaticCallee() == nil {
			break
		}
		fn = inner.Call.StaticCallee()
	}
	return shorten(fn.String()) + "("
}

var addrDerefRe = regexp.MustCompile(`&\[(p\d+)\]->`)

var boundParamMemo = map[*ssa.Parameter]*ssa.Function{}
var boundParamSeen = map[*ssa.Parameter]bool{}

// boundMethodParam: v is a function-typed parameter of the keyer's function, an unexported function of the module
// never used as a value, and every call of it passes a method value of one and the same method. Returns the
// method and a placeholder key for its receiver.
func (k *Keyer) boundMethodParam(v ssa.Value) (*ssa.Function, string) {
	prm, ok := v.(*ssa.Parameter)
	if !ok || k.Fn == nil || prm.Parent() != k.Fn {
		return nil, ""
	}
	if _, isSig := prm.Type().Underlying().(*types.Signature); !isSig {
		return nil, ""
	}
	idx := -1
	for i, q := range k.Fn.Params {
		if q == prm {
			idx = i
		}
	}
	recv := "bound:p" + itoa(idx)
	if boundParamSeen[prm] {
		return boundParamMemo[prm], recv
	}
	boundParamSeen[prm] = true
	fn := k.Fn
	if idx < 0 || fn.Object() == nil || fn.Object().Exported() || fn.Parent() != nil || !inModule(funcPkgPath(fn)) {
		return nil, ""
	}
	ci := callIndexOf(k.P)
	if ci.asValue[fn] || len(ci.callers[fn]) == 0 {
		return nil, ""
	}
	var m *ssa.Function
	for _, r := range ci.callers[fn] {
		call, ok := r.Instr.(ssa.CallInstruction)
		if !ok || idx >= len(call.Common().Args) {
			return nil, ""
		}
		mc, ok := call.Common().Args[idx].(*ssa.MakeClosure)
		if !ok || len(mc.Bindings) != 1 {
			return nil, ""
		}
		w, ok := mc.Fn.(*ssa.Function)
		if !ok || !strings.HasPrefix(w.Synthetic, "bound method wrapper") || w.Object() == nil {
			return nil, ""
		}
		tf, ok := w.Object().(*types.Func)
		if !ok {
			return nil, ""
		}
		target := k.P.SSA.FuncValue(tf)
		if target == nil || (m != nil && m != target) {
			return nil, ""
		}
		m = target
	}
	boundParamMemo[prm] = m
	return m, recv
}
