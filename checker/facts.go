package main

// Must-facts: a forward dataflow over the SSA control-flow graph computing, for every
// block, the set of branch conditions (normalised comparisons and boolean call
// results) that hold on EVERY path from the function entry to that block. This single
// engine decides guard dominance (A1), comparison polarity (A8) and ordering facts:
// "the signing call is reached only on paths where blockView > lastVotedView" is a
// statement about all paths of the CFG, i.e. about all inputs and states.

import (
	"go/token"
	"go/types"
	"sort"
	"strings"

	"golang.org/x/tools/go/ssa"
)

// Fact is a normalised atomic condition.
// Comparisons: Op in {"==","!=","<","<="} (a>b is stored as b<a); for == and != the
// operands are ordered lexicographically. Booleans: Op "true"/"false" with R == "".
// Ordering facts: Op "after" with L = key of a call that has been executed on every path.
type Fact struct{ Op, L, R string }

func (f Fact) String() string {
	if f.R == "" {
		return f.Op + "(" + f.L + ")"
	}
	return f.L + " " + f.Op + " " + f.R
}

func mkCmp(op token.Token, l, r string, truth bool) (Fact, bool) {
	if !truth {
		switch op {
		case token.EQL:
			op = token.NEQ
		case token.NEQ:
			op = token.EQL
		case token.LSS:
			op = token.GEQ
		case token.LEQ:
			op = token.GTR
		case token.GTR:
			op = token.LEQ
		case token.GEQ:
			op = token.LSS
		default:
			return Fact{}, false
		}
	}
	switch op {
	case token.EQL, token.NEQ:
		if l > r {
			l, r = r, l
		}
		return Fact{op.String(), l, r}, true
	case token.LSS:
		return Fact{"<", l, r}, true
	case token.LEQ:
		return Fact{"<=", l, r}, true
	case token.GTR:
		return Fact{"<", r, l}, true
	case token.GEQ:
		return Fact{"<=", r, l}, true
	}
	return Fact{}, false
}

// FactSet is a set of facts.
type FactSet map[Fact]bool

func (s FactSet) clone() FactSet {
	o := make(FactSet, len(s))
	for f := range s {
		o[f] = true
	}
	return o
}

func (s FactSet) Sorted() []string {
	var out []string
	for f := range s {
		out = append(out, f.String())
	}
	sort.Strings(out)
	return out
}

// Has reports whether some fact satisfies pred.
func (s FactSet) Has(pred func(Fact) bool) bool {
	for f := range s {
		if pred(f) {
			return true
		}
	}
	return false
}

// Flow holds the result of the must-facts analysis for one function.
type Flow struct {
	P    *Prog
	Fn   *ssa.Function
	K    *Keyer
	in   map[*ssa.BasicBlock]FactSet // nil entry = unreachable / top
	mods *modSets
}

// decompose turns a condition value with a truth value into facts.
func (fl *Flow) decompose(v ssa.Value, truth bool, out *[]Fact) {
	switch x := v.(type) {
	case *ssa.UnOp:
		if x.Op == token.NOT {
			fl.decompose(x.X, !truth, out)
			return
		}
	case *ssa.BinOp:
		switch x.Op {
		case token.EQL, token.NEQ, token.LSS, token.LEQ, token.GTR, token.GEQ:
			if f, ok := mkCmp(x.Op, fl.K.Key(x.X), fl.K.Key(x.Y), truth); ok {
				*out = append(*out, f)
				// x != nil for an Extract #0 of a comma-ok form is covered below
			}
			return
		}
	case *ssa.Phi:
		// value-level && / ||: phi of constants and one sub-condition is common, e.g.
		//   t = phi [entry: false, rhs: cond]   for  a && cond   (true iff a and cond)
		// If phi is true and every other edge is the constant false, the non-constant
		// edges' conditions hold; symmetric for false/true.
		var nonConst []ssa.Value
		allOther := true
		for _, e := range x.Edges {
			if c, ok := e.(*ssa.Const); ok && c.Value != nil {
				if (c.Value.ExactString() == "true") == truth {
					allOther = false
				}
				continue
			}
			nonConst = append(nonConst, e)
		}
		if allOther && len(nonConst) == 1 {
			fl.decompose(nonConst[0], truth, out)
			// the block of the non-constant edge was reached: its own entry facts hold too,
			// but we do not add them here (conservative).
		}
	}
	op := "false"
	if truth {
		op = "true"
	}
	*out = append(*out, Fact{op, fl.K.Key(v), ""})
	// ok-result of a comma-ok type assertion implies the operand is non-nil
	if ex, ok := v.(*ssa.Extract); ok && truth && ex.Index == 1 {
		if ta, ok := ex.Tuple.(*ssa.TypeAssert); ok {
			if f, ok := mkCmp(token.NEQ, fl.K.Key(ta.X), "nil", true); ok {
				*out = append(*out, f)
			}
		}
	}
}

// edgeFacts returns the facts established by taking the edge from -> to.
func (fl *Flow) edgeFacts(from, to *ssa.BasicBlock) []Fact {
	if len(from.Instrs) == 0 {
		return nil
	}
	iff, ok := from.Instrs[len(from.Instrs)-1].(*ssa.If)
	if !ok || len(from.Succs) != 2 {
		return nil
	}
	if from.Succs[0] == from.Succs[1] {
		return nil
	}
	var out []Fact
	fl.decompose(iff.Cond, to == from.Succs[0], &out)
	return out
}

// transfer applies the effects of one instruction on a fact set (in place).
func (fl *Flow) transfer(s FactSet, in ssa.Instruction) {
	switch x := in.(type) {
	case *ssa.Store:
		if u, ok := x.Val.(*ssa.UnOp); ok && u.X == x.Addr {
			break // `return x` with named results stores the variable into itself
		}
		fl.killAddr(s, x.Addr)
	case *ssa.MapUpdate:
		fl.killSub(s, fl.K.Key(x.Map))
	case *ssa.Call:
		fl.killCall(s, &x.Call)
		s[Fact{"after", fl.K.Key(x), ""}] = true
	case *ssa.Defer:
		// deferred call runs at exit; no effect here
	case *ssa.Go:
		fl.killCall(s, &x.Call)
	}
}

func (fl *Flow) killSub(s FactSet, sub string) {
	if sub == "" {
		return
	}
	for f := range s {
		if f.Op == "after" {
			continue
		}
		if strings.Contains(f.L, sub) || strings.Contains(f.R, sub) {
			delete(s, f)
		}
	}
}

func (fl *Flow) killAddr(s FactSet, addr ssa.Value) {
	switch a := addr.(type) {
	case *ssa.FieldAddr:
		fl.killSub(s, fieldName(a.X.Type(), a.Field))
	case *ssa.Alloc:
		if _, sp := fl.K.spill[a]; !sp {
			fl.killSub(s, fl.K.Key(a))
		}
	case *ssa.IndexAddr:
		fl.killSub(s, fl.K.Key(a.X)+"[")
	default:
		// store through an arbitrary pointer: kill loads through the same key
		fl.killSub(s, "*"+fl.K.Key(addr))
	}
}

func (fl *Flow) killCall(s FactSet, c *ssa.CallCommon) {
	// fields possibly written by the callee (transitively)
	for f := range fl.mods.ofCall(c) {
		fl.killSub(s, f)
	}
	// captured locals may be written by any closure call
	for a := range fl.K.captured {
		fl.killSub(s, fl.K.Key(a))
	}
}

// NewFlow runs the analysis.
func NewFlow(p *Prog, fn *ssa.Function) *Flow { return NewFlowOpt(p, fn, false) }

// NewFlowOpt: with normGetters, protobuf getter calls are keyed as field loads.
func NewFlowOpt(p *Prog, fn *ssa.Function, normGetters bool) *Flow {
	fl := &Flow{P: p, Fn: fn, K: NewKeyer(p, fn), in: map[*ssa.BasicBlock]FactSet{}, mods: modSetsOf(p)}
	fl.K.NormGetters = normGetters
	if len(fn.Blocks) == 0 {
		return fl
	}
	entry := fn.Blocks[0]
	fl.in[entry] = FactSet{}
	work := []*ssa.BasicBlock{entry}
	inWork := map[*ssa.BasicBlock]bool{entry: true}
	outOf := func(b *ssa.BasicBlock) FactSet {
		s := fl.in[b].clone()
		for _, in := range b.Instrs {
			fl.transfer(s, in)
		}
		return s
	}
	for len(work) > 0 {
		b := work[0]
		work = work[1:]
		inWork[b] = false
		out := outOf(b)
		for _, succ := range b.Succs {
			cand := out.clone()
			for _, f := range fl.edgeFacts(b, succ) {
				cand[f] = true
			}
			old, seen := fl.in[succ]
			var nw FactSet
			if !seen {
				nw = cand
			} else {
				nw = FactSet{}
				for f := range old {
					if cand[f] {
						nw[f] = true
					}
				}
			}
			if !seen || len(nw) != len(old) {
				fl.in[succ] = nw
				if !inWork[succ] {
					work = append(work, succ)
					inWork[succ] = true
				}
			}
		}
	}
	return fl
}

// Reachable reports whether the block is reachable from the entry.
func (fl *Flow) Reachable(b *ssa.BasicBlock) bool { _, ok := fl.in[b]; return ok }

// At returns the facts that hold on every path just before the instruction executes.
func (fl *Flow) At(in ssa.Instruction) FactSet {
	b := in.Block()
	base, ok := fl.in[b]
	if !ok {
		return nil
	}
	s := base.clone()
	for _, i := range b.Instrs {
		if i == in {
			break
		}
		fl.transfer(s, i)
	}
	return s
}

// AtBlockStart returns the facts holding at the entry of a block.
func (fl *Flow) AtBlockStart(b *ssa.BasicBlock) FactSet {
	base, ok := fl.in[b]
	if !ok {
		return nil
	}
	return base.clone()
}

// AtEdge returns the facts that hold after taking the CFG edge from -> to.
func (fl *Flow) AtEdge(from, to *ssa.BasicBlock) FactSet {
	base, ok := fl.in[from]
	if !ok {
		return nil
	}
	s := base.clone()
	for _, i := range from.Instrs {
		fl.transfer(s, i)
	}
	for _, f := range fl.edgeFacts(from, to) {
		s[f] = true
	}
	return s
}

// ---- mod sets: struct fields possibly stored to by a function, transitively ----

type modSets struct {
	p    *Prog
	memo map[*ssa.Function]map[string]bool
	busy map[*ssa.Function]bool
	impl map[string][]*ssa.Function // interface method full name -> module implementations
}

var modSetsCache = map[*Prog]*modSets{}

func modSetsOf(p *Prog) *modSets {
	if m, ok := modSetsCache[p]; ok {
		return m
	}
	m := &modSets{p: p, memo: map[*ssa.Function]map[string]bool{}, busy: map[*ssa.Function]bool{}, impl: map[string][]*ssa.Function{}}
	modSetsCache[p] = m
	return m
}

func (m *modSets) of(fn *ssa.Function) map[string]bool {
	if fn == nil || fn.Blocks == nil || !inModule(funcPkgPath(fn)) {
		return nil
	}
	if r, ok := m.memo[fn]; ok {
		return r
	}
	if m.busy[fn] {
		return nil
	}
	m.busy[fn] = true
	res := map[string]bool{}
	for _, b := range fn.Blocks {
		for _, in := range b.Instrs {
			switch x := in.(type) {
			case *ssa.Store:
				if fa, ok := x.Addr.(*ssa.FieldAddr); ok {
					if a := rootAlloc(fa); a == nil || a.Heap {
						res[fieldName(fa.X.Type(), fa.Field)] = true
					}
				}
			case *ssa.MapUpdate:
				if u, ok := x.Map.(*ssa.UnOp); ok {
					if fa, ok := u.X.(*ssa.FieldAddr); ok {
						res[fieldName(fa.X.Type(), fa.Field)] = true
					}
				}
			case ssa.CallInstruction:
				for f := range m.ofCall(x.Common()) {
					res[f] = true
				}
			}
		}
	}
	for _, a := range fn.AnonFuncs {
		for f := range m.of(a) {
			res[f] = true
		}
	}
	delete(m.busy, fn)
	m.memo[fn] = res
	return res
}

func (m *modSets) ofCall(c *ssa.CallCommon) map[string]bool {
	if c.IsInvoke() {
		res := map[string]bool{}
		for _, fn := range m.implsOfCall(c) {
			for f := range m.of(fn) {
				res[f] = true
			}
		}
		return res
	}
	if callee := c.StaticCallee(); callee != nil {
		return m.of(callee)
	}
	if mc, ok := c.Value.(*ssa.MakeClosure); ok {
		return m.of(mc.Fn.(*ssa.Function))
	}
	return nil
}

// implsOfCall resolves an interface call by the static type of its receiver value
// (more precise than the method's declaring interface when interfaces are embedded).
func (m *modSets) implsOfCall(c *ssa.CallCommon) []*ssa.Function {
	iface, ok := c.Value.Type().Underlying().(*types.Interface)
	if !ok {
		return m.implsOf(c.Method)
	}
	key := c.Value.Type().String() + "." + c.Method.Name()
	if r, ok := m.impl[key]; ok {
		return r
	}
	var out []*ssa.Function
	for _, n := range m.p.Implementations(iface, false) {
		if fn := m.p.MethodOf(n, c.Method.Name()); fn != nil {
			out = append(out, fn)
		}
	}
	// instantiated generic types (e.g. crypto.Multi[T])
	for _, f := range m.p.ModFuncs {
		if f.Name() == c.Method.Name() && f.Origin() != nil && f.Signature.Recv() != nil && f.Synthetic == "" {
			rt := f.Signature.Recv().Type()
			if types.Implements(rt, iface) || types.Implements(types.NewPointer(rt), iface) {
				out = append(out, f)
			}
		}
	}
	m.impl[key] = out
	return out
}

// implsOf returns the module functions that may be the target of an interface method
// call (by method name and identical signature over all module types).
func (m *modSets) implsOf(meth *types.Func) []*ssa.Function {
	key := meth.FullName()
	if r, ok := m.impl[key]; ok {
		return r
	}
	var out []*ssa.Function
	recv := meth.Type().(*types.Signature).Recv()
	var iface *types.Interface
	if recv != nil {
		iface, _ = recv.Type().Underlying().(*types.Interface)
	}
	if iface != nil {
		for _, n := range m.p.Implementations(iface, false) {
			if fn := m.p.MethodOf(n, meth.Name()); fn != nil {
				out = append(out, fn)
			}
		}
	}
	m.impl[key] = out
	return out
}
