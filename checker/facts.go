package main

// Must-facts: a forward dataflow over the SSA control-flow graph computing, for every
// block, the set of branch conditions (normalised comparisons and boolean call
// results) that hold on EVERY path from the function entry to that block. This single
// engine decides guard dominance (A1), comparison polarity (A8) and ordering facts:
// "the signing call is reached only on paths where blockView > lastVotedView" is a
// statement about all paths of the CFG, i.e. about all inputs and states.

import (
	"go/constant"
	"go/token"
	"go/types"
	"regexp"
	"sort"
	"strings"

	"golang.org/x/tools/go/ssa"
)

// Fact is a normalised atomic condition.
// Comparisons: Op in {"==","!=","<","<="} (a>b is stored as b<a); for == and != the
// operands are ordered lexicographically. Booleans: Op "true"/"false" with R == "".
// Ordering facts: Op "after" with L = key of a call that has been executed on every path.
type Fact struct{ Op, L, R string }

func (f Fact) String() string {
	if f.R == "" {
		return f.Op + "(" + f.L + ")"
	}
	return f.L + " " + f.Op + " " + f.R
}

func mkCmp(op token.Token, l, r string, truth bool) (Fact, bool) {
	if !truth {
		switch op {
		case token.EQL:
			op = token.NEQ
		case token.NEQ:
			op = token.EQL
		case token.LSS:
			op = token.GEQ
		case token.LEQ:
			op = token.GTR
		case token.GTR:
			op = token.LEQ
		case token.GEQ:
			op = token.LSS
		default:
			return Fact{}, false
		}
	}
	switch op {
	case token.EQL, token.NEQ:
		if l > r {
			l, r = r, l
		}
		return Fact{op.String(), l, r}, true
	case token.LSS:
		return Fact{"<", l, r}, true
	case token.LEQ:
		return Fact{"<=", l, r}, true
	case token.GTR:
		return Fact{"<", r, l}, true
	case token.GEQ:
		return Fact{"<=", r, l}, true
	}
	return Fact{}, false
}

// FactSet is a set of facts.
type FactSet map[Fact]bool

func (s FactSet) clone() FactSet {
	o := make(FactSet, len(s))
	for f := range s {
		o[f] = true
	}
	return o
}

func (s FactSet) Sorted() []string {
	var out []string
	for f := range s {
		out = append(out, f.String())
	}
	sort.Strings(out)
	return out
}

// Has reports whether some fact satisfies pred.
func (s FactSet) Has(pred func(Fact) bool) bool {
	for f := range s {
		if pred(f) {
			return true
		}
	}
	return false
}

// Flow holds the result of the must-facts analysis for one function.
type Flow struct {
	P    *Prog
	Fn   *ssa.Function
	K    *Keyer
	in   map[*ssa.BasicBlock]FactSet // nil entry = unreachable / top
	mods *modSets
}

// decompose turns a condition value with a truth value into facts.
func (fl *Flow) decompose(v ssa.Value, truth bool, out *[]Fact) {
	switch x := v.(type) {
	case *ssa.UnOp:
		if x.Op == token.NOT {
			fl.decompose(x.X, !truth, out)
			return
		}
	case *ssa.BinOp:
		switch x.Op {
		case token.EQL, token.NEQ, token.LSS, token.LEQ, token.GTR, token.GEQ:
			if f, ok := mkCmp(x.Op, fl.K.Key(x.X), fl.K.Key(x.Y), truth); ok {
				*out = append(*out, f)
				// x != nil for an Extract #0 of a comma-ok form is covered below
				if f.Op == "==" {
					// `helper(...) == nil` for an error-returning helper of this package: what holds whenever it returns nil
					switch {
					case isNilConst(x.Y):
						*out = append(*out, fl.summaryFacts(x.X, "nil")...)
					case isNilConst(x.X):
						*out = append(*out, fl.summaryFacts(x.Y, "nil")...)
					default:
						// `classify(...) == someConstant` for a classifier of this package that returns constants only
						if c, isC := x.Y.(*ssa.Const); isC && c.Value != nil {
							*out = append(*out, fl.summaryFacts(x.X, "const:"+fl.K.Key(c))...)
						} else if c, isC := x.X.(*ssa.Const); isC && c.Value != nil {
							*out = append(*out, fl.summaryFacts(x.Y, "const:"+fl.K.Key(c))...)
						}
					}
				}
			}
			return
		}
	case *ssa.Phi:
		// value-level && / ||: phi of constants and one sub-condition is common, e.g.
		//   t = phi [entry: false, rhs: cond]   for  a && cond   (true iff a and cond)
		// If phi is true and every other edge is the constant false, the non-constant
		// edges' conditions hold; symmetric for false/true.
		var nonConst []ssa.Value
		allOther := true
		for _, e := range x.Edges {
			if c, ok := e.(*ssa.Const); ok && c.Value != nil {
				if (c.Value.ExactString() == "true") == truth {
					allOther = false
				}
				continue
			}
			nonConst = append(nonConst, e)
		}
		if allOther && len(nonConst) == 1 {
			fl.decompose(nonConst[0], truth, out)
			// the block of the non-constant edge was reached: its own entry facts hold too,
			// but we do not add them here (conservative).
		}
	}
	op := "false"
	if truth {
		op = "true"
	}
	*out = append(*out, Fact{op, fl.K.Key(v), ""})
	// boolean helper of this package: what holds whenever it returns that value
	*out = append(*out, fl.summaryFacts(v, op)...)
	// ok-result of a comma-ok type assertion implies the operand is non-nil
	if ex, ok := v.(*ssa.Extract); ok && truth && ex.Index == 1 {
		if ta, ok := ex.Tuple.(*ssa.TypeAssert); ok {
			if f, ok := mkCmp(token.NEQ, fl.K.Key(ta.X), "nil", true); ok {
				*out = append(*out, f)
			}
		}
	}
}

// edgeFacts returns the facts established by taking the edge from -> to.
func (fl *Flow) edgeFacts(from, to *ssa.BasicBlock) []Fact {
	if len(from.Instrs) == 0 {
		return nil
	}
	if _, reachable := fl.in[from]; !reachable || deadEdge(from, to) {
		return nil // an edge that is never taken establishes nothing
	}
	iff, ok := from.Instrs[len(from.Instrs)-1].(*ssa.If)
	if !ok || len(from.Succs) != 2 {
		return nil
	}
	if from.Succs[0] == from.Succs[1] {
		return nil
	}
	var out []Fact
	fl.decompose(iff.Cond, to == from.Succs[0], &out)
	return out
}

// transfer applies the effects of one instruction on a fact set (in place).
func (fl *Flow) transfer(s FactSet, in ssa.Instruction) {
	switch x := in.(type) {
	case *ssa.Store:
		if u, ok := x.Val.(*ssa.UnOp); ok && u.X == x.Addr {
			break // `return x` with named results stores the variable into itself
		}
		fl.killAddr(s, x.Addr)
	case *ssa.MapUpdate:
		fl.killSub(s, fl.K.Key(x.Map))
	case *ssa.Call:
		fl.killCall(s, &x.Call)
		s[Fact{"after", fl.K.Key(x), ""}] = true
		for _, f := range fl.summaryFacts(x, "all") {
			s[f] = true
		}
	case *ssa.Defer:
		// deferred call runs at exit; no effect here
	case *ssa.Go:
		fl.killCall(s, &x.Call)
	}
}

func (fl *Flow) killSub(s FactSet, sub string) {
	if sub == "" {
		return
	}
	// a side that is, as a whole, the result of one particular call (`helper(x, p0->f)@b2i3`, possibly `#k`) is a value:
	// memory named in its arguments only identifies the call, a later write to it does not change the result
	mentions := func(k string) bool {
		if !strings.Contains(k, sub) {
			return false
		}
		return !(callResultRe.MatchString(k) && !strings.HasPrefix(k, "*") && !strings.HasPrefix(k, "&"))
	}
	for f := range s {
		if f.Op == "after" {
			continue
		}
		if mentions(f.L) || mentions(f.R) {
			delete(s, f)
		}
	}
}

var callResultRe = regexp.MustCompile(`\)@b\d+i\d+(#\d+)?$`)

func (fl *Flow) killAddr(s FactSet, addr ssa.Value) {
	switch a := addr.(type) {
	case *ssa.FieldAddr:
		fl.killSub(s, fieldName(a.X.Type(), a.Field))
	case *ssa.Alloc:
		if _, sp := fl.K.spill[a]; !sp {
			fl.killSub(s, fl.K.Key(a))
		}
	case *ssa.IndexAddr:
		fl.killSub(s, fl.K.Key(a.X)+"[")
	default:
		// store through an arbitrary pointer: kill loads through the same key
		fl.killSub(s, "*"+fl.K.Key(addr))
	}
}

func (fl *Flow) killCall(s FactSet, c *ssa.CallCommon) {
	// fields possibly written by the callee (transitively)
	for f := range fl.mods.ofCall(c) {
		fl.killSub(s, f)
	}
	// captured locals may be written by any closure call
	for a := range fl.K.captured {
		fl.killSub(s, fl.K.Key(a))
	}
}

// NewFlow runs the analysis.
func NewFlow(p *Prog, fn *ssa.Function) *Flow { return NewFlowOpt(p, fn, false) }

// NewFlowOpt: with normGetters, protobuf getter calls are keyed as field loads.
func NewFlowOpt(p *Prog, fn *ssa.Function, normGetters bool) *Flow {
	fl := &Flow{P: p, Fn: fn, K: NewKeyer(p, fn), in: map[*ssa.BasicBlock]FactSet{}, mods: modSetsOf(p)}
	fl.K.NormGetters = normGetters
	if len(fn.Blocks) == 0 {
		return fl
	}
	entry := fn.Blocks[0]
	fl.in[entry] = contextFacts(p, fn, fl.K)
	work := []*ssa.BasicBlock{entry}
	inWork := map[*ssa.BasicBlock]bool{entry: true}
	outOf := func(b *ssa.BasicBlock) FactSet {
		s := fl.in[b].clone()
		for _, in := range b.Instrs {
			fl.transfer(s, in)
		}
		return s
	}
	for len(work) > 0 {
		b := work[0]
		work = work[1:]
		inWork[b] = false
		out := outOf(b)
		for _, succ := range b.Succs {
			if deadEdge(b, succ) {
				continue // the untaken side of a branch on a constant
			}
			cand := out.clone()
			for _, f := range fl.edgeFacts(b, succ) {
				cand[f] = true
			}
			old, seen := fl.in[succ]
			var nw FactSet
			if !seen {
				nw = cand
			} else {
				nw = FactSet{}
				for f := range old {
					if cand[f] {
						nw[f] = true
					}
				}
			}
			if !seen || len(nw) != len(old) {
				fl.in[succ] = nw
				if !inWork[succ] {
					work = append(work, succ)
					inWork[succ] = true
				}
			}
		}
	}
	return fl
}

// Reachable reports whether the block is reachable from the entry.
func (fl *Flow) Reachable(b *ssa.BasicBlock) bool { _, ok := fl.in[b]; return ok }

// At returns the facts that hold on every path just before the instruction executes.
func (fl *Flow) At(in ssa.Instruction) FactSet {
	b := in.Block()
	base, ok := fl.in[b]
	if !ok {
		return nil
	}
	s := base.clone()
	for _, i := range b.Instrs {
		if i == in {
			break
		}
		fl.transfer(s, i)
	}
	return s
}

// AtBlockStart returns the facts holding at the entry of a block.
func (fl *Flow) AtBlockStart(b *ssa.BasicBlock) FactSet {
	base, ok := fl.in[b]
	if !ok {
		return nil
	}
	return base.clone()
}

// AtEdge returns the facts that hold after taking the CFG edge from -> to.
func (fl *Flow) AtEdge(from, to *ssa.BasicBlock) FactSet {
	base, ok := fl.in[from]
	if !ok {
		return nil
	}
	s := base.clone()
	for _, i := range from.Instrs {
		fl.transfer(s, i)
	}
	for _, f := range fl.edgeFacts(from, to) {
		s[f] = true
	}
	return s
}

// ---- mod sets: struct fields possibly stored to by a function, transitively ----

type modSets struct {
	p    *Prog
	memo map[*ssa.Function]map[string]bool
	busy map[*ssa.Function]bool
	impl map[string][]*ssa.Function // interface method full name -> module implementations
}

var modSetsCache = map[*Prog]*modSets{}

func modSetsOf(p *Prog) *modSets {
	if m, ok := modSetsCache[p]; ok {
		return m
	}
	m := &modSets{p: p, memo: map[*ssa.Function]map[string]bool{}, busy: map[*ssa.Function]bool{}, impl: map[string][]*ssa.Function{}}
	modSetsCache[p] = m
	return m
}

func (m *modSets) of(fn *ssa.Function) map[string]bool {
	if fn == nil || fn.Blocks == nil || !inModule(funcPkgPath(fn)) {
		return nil
	}
	if r, ok := m.memo[fn]; ok {
		return r
	}
	if m.busy[fn] {
		return nil
	}
	m.busy[fn] = true
	res := map[string]bool{}
	for _, b := range fn.Blocks {
		for _, in := range b.Instrs {
			switch x := in.(type) {
			case *ssa.Store:
				if fa, ok := x.Addr.(*ssa.FieldAddr); ok {
					if a := rootAlloc(fa); a == nil || a.Heap {
						res[fieldName(fa.X.Type(), fa.Field)] = true
					}
				}
			case *ssa.MapUpdate:
				if u, ok := x.Map.(*ssa.UnOp); ok {
					if fa, ok := u.X.(*ssa.FieldAddr); ok {
						res[fieldName(fa.X.Type(), fa.Field)] = true
					}
				}
			case ssa.CallInstruction:
				for f := range m.ofCall(x.Common()) {
					res[f] = true
				}
			}
		}
	}
	for _, a := range fn.AnonFuncs {
		for f := range m.of(a) {
			res[f] = true
		}
	}
	delete(m.busy, fn)
	m.memo[fn] = res
	return res
}

func (m *modSets) ofCall(c *ssa.CallCommon) map[string]bool {
	if c.IsInvoke() {
		res := map[string]bool{}
		for _, fn := range m.implsOfCall(c) {
			for f := range m.of(fn) {
				res[f] = true
			}
		}
		return res
	}
	if callee := c.StaticCallee(); callee != nil {
		return m.of(callee)
	}
	if mc, ok := c.Value.(*ssa.MakeClosure); ok {
		return m.of(mc.Fn.(*ssa.Function))
	}
	return nil
}

// implsOfCall resolves an interface call by the static type of its receiver value
// (more precise than the method's declaring interface when interfaces are embedded).
func (m *modSets) implsOfCall(c *ssa.CallCommon) []*ssa.Function {
	iface, ok := c.Value.Type().Underlying().(*types.Interface)
	if !ok {
		return m.implsOf(c.Method)
	}
	key := c.Value.Type().String() + "." + c.Method.Name()
	if r, ok := m.impl[key]; ok {
		return r
	}
	var out []*ssa.Function
	for _, n := range m.p.Implementations(iface, false) {
		if fn := m.p.MethodOf(n, c.Method.Name()); fn != nil {
			out = append(out, fn)
		}
	}
	// instantiated generic types (e.g. crypto.Multi[T])
	for _, f := range m.p.ModFuncs {
		if f.Name() == c.Method.Name() && f.Origin() != nil && f.Signature.Recv() != nil && f.Synthetic == "" {
			rt := f.Signature.Recv().Type()
			if types.Implements(rt, iface) || types.Implements(types.NewPointer(rt), iface) {
				out = append(out, f)
			}
		}
	}
	m.impl[key] = out
	return out
}

// implsOf returns the module functions that may be the target of an interface method
// call (by method name and identical signature over all module types).
func (m *modSets) implsOf(meth *types.Func) []*ssa.Function {
	key := meth.FullName()
	if r, ok := m.impl[key]; ok {
		return r
	}
	var out []*ssa.Function
	recv := meth.Type().(*types.Signature).Recv()
	var iface *types.Interface
	if recv != nil {
		iface, _ = recv.Type().Underlying().(*types.Interface)
	}
	if iface != nil {
		for _, n := range m.p.Implementations(iface, false) {
			if fn := m.p.MethodOf(n, meth.Name()); fn != nil {
				out = append(out, fn)
			}
		}
	}
	m.impl[key] = out
	return out
}

// ---- call summaries: facts established by a helper of the same package ----
//
// Extracting a run of checks into a helper (`if !s.validSignatures(msg) { return }`,
// `if err := checkQuorum(sig); err != nil { return err }`) must not change any verdict. For a
// statically resolved callee of the caller's own package the analysis therefore computes,
// from the callee's own must-facts, what holds (a) whenever it returns true, (b) whenever it
// returns false, (c) whenever its error result is nil, (d) after every return; these facts
// are re-expressed in the caller's terms (parameters replaced by the argument keys,
// callee-local ids made unique) and added where the caller learns the outcome.

type fnSummary struct {
	all, ifTrue, ifFalse, ifNil []Fact
	ifConst                     map[string][]Fact // single-result classifiers: what holds whenever the constant is returned
}

var closureDepth int

var (
	summaryCache = map[*ssa.Function]*fnSummary{}
	summaryBusy  = map[*ssa.Function]bool{}
	paramRe      = regexp.MustCompile(`\bp(\d+)\b`)
	localIDRe    = regexp.MustCompile(`@b(\d+)i(\d+)`)
)

func resetSummaries() {
	summaryCache = map[*ssa.Function]*fnSummary{}
	summaryBusy = map[*ssa.Function]bool{}
	ctxMemo = map[*ssa.Function]FactSet{}
	callIdxCache = map[*Prog]*callIndex{}
}

// summaryFacts returns the summary facts of kind ("true","false","nil","all") of the call that
// produced v (v is the call itself or an extract of its last result), in the caller's terms.
func (fl *Flow) summaryFacts(v ssa.Value, kind string) []Fact {
	var call *ssa.Call
	switch x := v.(type) {
	case *ssa.Call:
		call = x
	case *ssa.Extract:
		c, ok := x.Tuple.(*ssa.Call)
		if !ok || x.Index != c.Type().(*types.Tuple).Len()-1 {
			return nil
		}
		call = c
	default:
		return nil
	}
	callee := call.Call.StaticCallee()
	var env map[string]string
	if callee == nil && !call.Call.IsInvoke() && kind != "all" {
		// a call of a function value that is a known literal (a predicate built by a constructor, a local closure)
		if _, isBuiltin := call.Call.Value.(*ssa.Builtin); !isBuiltin && closureDepth < 2 {
			closureDepth++
			callee, env = resolveClosure(fl, call.Call.Value)
			closureDepth--
		}
	}
	if callee == nil || callee == fl.Fn || callee.Blocks == nil || (callee.Synthetic != "" && callee.Origin() == nil) ||
		funcPkgPath(callee) != funcPkgPath(fl.Fn) || !inModule(funcPkgPath(callee)) {
		return nil
	}
	sum := summarise(fl.P, callee)
	if sum == nil {
		return nil
	}
	var src []Fact
	switch kind {
	case "true":
		src = sum.ifTrue
	case "false":
		src = sum.ifFalse
	case "nil":
		src = sum.ifNil
	case "all":
		src = sum.all
	default:
		if strings.HasPrefix(kind, "const:") {
			src = sum.ifConst[kind[len("const:"):]]
		}
	}
	if len(src) == 0 {
		return nil
	}
	args := call.Call.Args
	tag := "@~" + callee.Name() + ":b${1}i${2}"
	subst := func(k string) string {
		k = localIDRe.ReplaceAllString(k, tag)
		k = paramRe.ReplaceAllStringFunc(k, func(m string) string {
			var i int
			for _, ch := range m[1:] {
				i = i*10 + int(ch-'0')
			}
			if i < len(args) {
				return "\x00" + fl.K.Key(args[i]) + "\x01"
			}
			return m
		})
		if env != nil {
			k = derefFvRe.ReplaceAllStringFunc(k, func(m string) string {
				if v, ok := env["*"+m[4:]]; ok {
					return "\x00" + v + "\x01"
				}
				return m
			})
			k = fvRe.ReplaceAllStringFunc(k, func(m string) string {
				if v, ok := env[m[3:]]; ok {
					return "\x00" + v + "\x01"
				}
				return m
			})
		}
		k = strings.ReplaceAll(k, "\x00", "")
		return strings.ReplaceAll(k, "\x01", "")
	}
	out := make([]Fact, 0, len(src))
	for _, f := range src {
		g := Fact{f.Op, subst(f.L), ""}
		if f.R != "" {
			g.R = subst(f.R)
		}
		if (g.Op == "==" || g.Op == "!=") && g.L > g.R {
			g.L, g.R = g.R, g.L
		}
		out = append(out, g)
	}
	return out
}

func summarise(p *Prog, fn *ssa.Function) *fnSummary {
	if s, ok := summaryCache[fn]; ok {
		return s
	}
	if summaryBusy[fn] || len(summaryBusy) > 6 {
		return nil
	}
	n := 0
	for _, b := range fn.Blocks {
		n += len(b.Instrs)
	}
	if n > 400 {
		summaryCache[fn] = nil
		return nil
	}
	summaryBusy[fn] = true
	defer delete(summaryBusy, fn)
	fl := NewFlow(p, fn)
	res := fn.Signature.Results()
	last := res.Len() - 1
	kind := ""
	if last >= 0 {
		switch t := res.At(last).Type(); {
		case types.Identical(t, types.Typ[types.Bool]):
			kind = "bool"
		case t.String() == "error":
			kind = "error"
		}
	}
	var all, ifT, ifF, ifN FactSet
	var ifC map[string]*FactSet
	classifier := true
	meet := func(acc *FactSet, s FactSet) {
		if *acc == nil {
			*acc = s.clone()
			return
		}
		for f := range *acc {
			if !s[f] {
				delete(*acc, f)
			}
		}
	}
	with := func(s FactSet, extra []Fact) FactSet {
		o := s.clone()
		for _, f := range extra {
			o[f] = true
		}
		return o
	}
	for _, r := range returnsOf(fn) {
		if !fl.Reachable(r.Block()) {
			continue
		}
		facts := fl.At(r)
		meet(&all, facts)
		if last < 0 || last >= len(r.Results) {
			continue
		}
		v := retValue(r, last)
		if kind == "" && res.Len() == 1 {
			if cv, isC := v.(*ssa.Const); isC && cv.Value != nil && cv.Value.Kind() == constant.Int {
				if ifC == nil {
					ifC = map[string]*FactSet{}
				}
				k := fl.K.Key(cv)
				if ifC[k] == nil {
					ifC[k] = new(FactSet)
				}
				meet(ifC[k], facts)
			} else {
				classifier = false
			}
		}
		switch kind {
		case "bool":
			switch {
			case isBoolConst(v, true):
				meet(&ifT, facts)
			case isBoolConst(v, false):
				meet(&ifF, facts)
			default:
				var t, f []Fact
				fl.decompose(v, true, &t)
				fl.decompose(v, false, &f)
				meet(&ifT, with(facts, t))
				meet(&ifF, with(facts, f))
			}
		case "error":
			switch {
			case isNilConst(v):
				meet(&ifN, facts)
			case knownNonNilError(v):
			default:
				vk := fl.K.Key(v)
				if facts[Fact{"!=", minStr(vk, "nil"), maxStr(vk, "nil")}] {
					break // `if err != nil { return err }`: this return never delivers nil
				}
				extra := []Fact{eqFact(vk, "nil")}
				extra = append(extra, fl.summaryFacts(v, "nil")...)
				meet(&ifN, with(facts, extra))
			}
		}
	}
	list := func(s FactSet) []Fact {
		var out []Fact
		for f := range s {
			out = append(out, f)
		}
		sort.Slice(out, func(i, j int) bool { return out[i].String() < out[j].String() })
		return out
	}
	sum := &fnSummary{all: list(all), ifTrue: list(ifT), ifFalse: list(ifF), ifNil: list(ifN)}
	if classifier && len(ifC) > 0 {
		sum.ifConst = map[string][]Fact{}
		for k, fs := range ifC {
			sum.ifConst[k] = list(*fs)
		}
	}
	summaryCache[fn] = sum
	return sum
}

// ---- calling-context facts of private helpers ----
//
// The dual of call summaries: a private helper (unexported, never used as a value, only called
// synchronously from its own package) starts with the facts that hold at every one of its call
// sites, re-expressed in its own parameters. `candidates(head)` extracted from a function that
// returned early on `head.QuorumCert().Signature() == nil` still knows that signature is non-nil.

type callIndex struct {
	callers map[*ssa.Function][]Ref
	asValue map[*ssa.Function]bool
}

var (
	callIdxCache = map[*Prog]*callIndex{}
	ctxMemo      = map[*ssa.Function]FactSet{}
	ctxBusy      = map[*ssa.Function]bool{}
	callerLocal  = regexp.MustCompile(`\bp\d+\b|phi@|alloc@|make@|\bfv:|\bv@|\bclosure:|<-`)
)

func callIndexOf(p *Prog) *callIndex {
	if ci, ok := callIdxCache[p]; ok {
		return ci
	}
	ci := &callIndex{callers: map[*ssa.Function][]Ref{}, asValue: map[*ssa.Function]bool{}}
	for _, fn := range p.ModFuncs {
		if fn.Synthetic != "" && !strings.Contains(fn.Synthetic, "bound method wrapper") {
			continue // pointer-receiver and interface wrappers generated by go/ssa are not callers of their own
		}
		eachInstr(fn, func(in ssa.Instruction) {
			var direct *ssa.Function
			if c, ok := in.(ssa.CallInstruction); ok && !c.Common().IsInvoke() {
				if cal := c.Common().StaticCallee(); cal != nil {
					if _, isMC := c.Common().Value.(*ssa.MakeClosure); !isMC {
						direct = cal
						kind := "call"
						switch in.(type) {
						case *ssa.Go:
							kind = "go"
						case *ssa.Defer:
							kind = "defer"
						}
						ci.callers[cal] = append(ci.callers[cal], Ref{fn, in, kind})
					}
				}
			}
			for _, op := range in.Operands(nil) {
				if op == nil || *op == nil {
					continue
				}
				if f, ok := (*op).(*ssa.Function); ok && f != direct {
					ci.asValue[f] = true
				}
			}
		})
	}
	callIdxCache[p] = ci
	return ci
}

func contextFacts(p *Prog, fn *ssa.Function, k *Keyer) FactSet {
	if fn.Parent() != nil || fn.Object() == nil || fn.Object().Exported() || fn.Synthetic != "" || !inModule(funcPkgPath(fn)) {
		return FactSet{}
	}
	if m, ok := ctxMemo[fn]; ok {
		return m.clone()
	}
	if ctxBusy[fn] || len(ctxBusy) > 4 {
		return FactSet{}
	}
	ci := callIndexOf(p)
	refs := ci.callers[fn]
	if ci.asValue[fn] || len(refs) == 0 || len(refs) > 8 {
		ctxMemo[fn] = FactSet{}
		return FactSet{}
	}
	ctxBusy[fn] = true
	defer delete(ctxBusy, fn)
	var acc FactSet
	for _, r := range refs {
		if r.Kind != "call" || funcPkgPath(r.In) != funcPkgPath(fn) || declaredParent(r.In) == fn {
			acc = FactSet{}
			break
		}
		cfl := NewFlow(p, r.In)
		args := r.Instr.(ssa.CallInstruction).Common().Args
		type ak struct {
			key string
			idx int
		}
		var aks []ak
		for i, a := range args {
			key := cfl.K.Key(a)
			if key == "" || key == "nil" || strings.HasPrefix(key, "c:") {
				continue
			}
			aks = append(aks, ak{key, i})
		}
		sort.Slice(aks, func(i, j int) bool { return len(aks[i].key) > len(aks[j].key) })
		toCallee := func(s string) (string, bool) {
			for _, a := range aks {
				s = strings.ReplaceAll(s, a.key, "\x00"+itoa(a.idx)+"\x01")
			}
			if callerLocal.MatchString(s) {
				return "", false
			}
			// results of calls made by the caller keep their identity under a caller-specific tag
			s = localIDRe.ReplaceAllString(s, "@^"+r.In.Name()+":b${1}i${2}")
			s = strings.ReplaceAll(s, "\x00", "p")
			s = strings.ReplaceAll(s, "\x01", "")
			return s, true
		}
		here := FactSet{}
		for f := range cfl.At(r.Instr) {
			if f.Op == "after" {
				continue
			}
			l, ok := toCallee(f.L)
			if !ok {
				continue
			}
			g := Fact{f.Op, l, ""}
			if f.R != "" {
				rr, ok := toCallee(f.R)
				if !ok {
					continue
				}
				g.R = rr
			}
			if (g.Op == "==" || g.Op == "!=") && g.L > g.R {
				g.L, g.R = g.R, g.L
			}
			here[g] = true
		}
		if acc == nil {
			acc = here
		} else {
			for f := range acc {
				if !here[f] {
					delete(acc, f)
				}
			}
		}
	}
	if acc == nil {
		acc = FactSet{}
	}
	_ = k
	ctxMemo[fn] = acc
	return acc.clone()
}
