package main

import (
	"go/token"
	"go/types"
	"regexp"
	"strings"

	"golang.org/x/tools/go/ssa"
)

func init() { register("C16", checkC16) }

func checkC16(c *Ctx) {
	p := c.P
	c.Decided = "every LeaderRotation.GetLeader is free of nondeterminism sources in its whole callee set (no map-order dependence, wall clock, unseeded randomness, channels or goroutines); the stateless schemes additionally write no shared memory, so they are functions of (view, replica count, immutable tree) and agree on every replica; " +
		"round-robin has the closed form (view mod n) + 1 with unit dependence on the view, hence lies in [1, n] and visits every replica once in any n consecutive views; " +
		"the carousel sorts its candidates before a draw seeded by shared seed + view, draws from signers of the committed head's QC that authored none of the last f committed blocks, and otherwise falls back to round-robin; the reputation scheme sorts its weights by id before the seeded draw and only it writes its own history. The carousel draws only when the committed head is exactly chainLength views behind the requested view; the reputation scheme updates a reputation only for a new committed head and returns no leader only for views before the committed horizon."
	c.NotDec = "'exactly one turn' across the uint64 wrap-around; non-emptiness of the carousel's candidate list (needs |signers| > f, a C02 fact); that weightedrand picks deterministically for a given source (library assumption)."
	c.Assume = append(c.Assume, "Blockchain.Get returns the locally stored ancestor for blocks below a committed head (they were stored before the head was committed), so it is cut from the determinism scan of the carousel",
		"weightedrand.Chooser.PickSource is a deterministic function of its weights and source")
	c.Expect("C16.1", 5)

	c16StateGates(c)
	lr := p.Iface("protocol/leaderrotation", "LeaderRotation")
	impls := p.Implementations(lr, false)
	if len(impls) < 5 {
		c.Unresolved("C16.1", "LeaderRotation", "expected five implementations")
	}
	stateless := map[string]bool{"RoundRobin": true, "Fixed": true, "TreeBased": true}
	getBC := p.Method("security/blockchain", "Blockchain", "Get")
	for _, t := range impls {
		fn := p.MethodOf(t, "GetLeader")
		if fn == nil {
			continue
		}
		name := t.Obj().Name()
		es := p.scanEffects(fn, func(cc *ssa.CallCommon) bool {
			if loggerCut(cc) {
				return true
			}
			if calleeIs(cc, getBC) {
				return true
			}
			if cal := cc.StaticCallee(); cal != nil && !inModule(funcPkgPath(cal)) {
				return false
			}
			// ViewStates getters take a lock and read shared state written by the commit path: the value is an input, not an effect
			if cal := cc.StaticCallee(); cal != nil && cal.String() == "(*"+modPath+"/protocol.ViewStates).CommittedBlock" {
				return true
			}
			return false
		})
		c.Stat("functions_scanned", es.funcs)
		c.Check(len(es.nondet) == 0, "C16.1/deterministic", name+".GetLeader", p.FuncPos(fn),
			"no nondeterminism source in the "+itoa(es.funcs)+" module functions reachable from it", join(es.nondet))
		if stateless[name] {
			c.Check(len(es.stores) == 0, "C16.1/stateless", name+".GetLeader", p.FuncPos(fn),
				"writes no non-local memory: the answer depends only on the view, the replica count and the immutable tree", join(es.stores))
		}
	}
	// C16.2 closed form of round robin
	if rr := p.Func("protocol/leaderrotation", "ChooseRoundRobin"); rr != nil {
		ok := false
		detail := "unexpected expression"
		rets := returnsOf(rr)
		if len(rets) == 1 && len(rets[0].Results) == 1 {
			v := rets[0].Results[0]
			for {
				if cv, isC := v.(*ssa.Convert); isC {
					v = cv.X
					continue
				}
				break
			}
			if add, isAdd := v.(*ssa.BinOp); isAdd && add.Op == token.ADD {
				rem, one := add.X, add.Y
				if _, isConst := rem.(*ssa.Const); isConst {
					rem, one = one, rem
				}
				cst, isConst := one.(*ssa.Const)
				// a conversion of the remainder (it is below numReplicas) changes nothing
				for {
					cv, isC := rem.(*ssa.Convert)
					if !isC {
						break
					}
					rem = cv.X
				}
				rb, isRem := rem.(*ssa.BinOp)
				if isConst && isRem && rb.Op == token.REM {
					cv, _ := constInt(cst)
					k := NewKeyer(p, rr)
					dividend := polyOf(rb.X, func(x ssa.Value) string { return k.Key(x) })
					// unit dependence on the view: dividend = +-view + const
					coef := dividend["p0"]
					onlyView := true
					for m := range dividend {
						if m != "p0" && m != "" {
							onlyView = false
						}
					}
					unsigned := false
					if b, isB := rb.X.Type().Underlying().(*types.Basic); isB && b.Info()&types.IsUnsigned != 0 {
						unsigned = true
					}
					// the remainder must be taken in the view's full width: a narrowing conversion of the view
					// before the modulo breaks the rotation when the truncated value wraps
					fullWidth := true
					if vb, isB := rr.Params[0].Type().Underlying().(*types.Basic); isB {
						if rbT, isB2 := rb.X.Type().Underlying().(*types.Basic); isB2 {
							sz := types.SizesFor("gc", "amd64")
							fullWidth = sz.Sizeof(rbT) >= sz.Sizeof(vb)
						}
					}
					ok = cv != nil && cv.Cmp(cv.SetInt64(1)) == 0 && k.Key(rb.Y) == "p1" && (coef == 1 || coef == -1) && onlyView && unsigned && fullWidth
					if !fullWidth {
						detail = "the view is narrowed to " + rb.X.Type().String() + " before the modulo"
					}
					if fullWidth {
						detail = "result = (" + dividend.String() + ") mod numReplicas + 1 over an unsigned type"
					}
				}
			}
		}
		c.Check(ok, "C16.2", "ChooseRoundRobin = (view mod n) + 1", p.FuncPos(rr),
			detail+": in [1, n] since 0 <= x mod n < n, and a bijection on any n consecutive views since the dividend moves by one per view", detail)
	} else {
		c.Unresolved("C16.2", "ChooseRoundRobin", "anchor missing")
	}
	// RoundRobin uses it with the configured replica count
	if gl := p.Method("protocol/leaderrotation", "RoundRobin", "GetLeader"); gl != nil {
		rfl := NewFlow(p, gl)
		ok := false
		for _, r := range returnsOf(gl) {
			// (directly, or through a private helper of the package that takes the configuration)
			for _, kk := range []string{rfl.K.Key(r.Results[0]), expandedKey(rfl, r.Results[0], r)} {
				if strings.HasPrefix(kk, "hs/protocol/leaderrotation.ChooseRoundRobin(p1, (*hs/core.RuntimeConfig).ReplicaCount(") {
					ok = true
				}
			}
		}
		c.Check(ok, "C16.2", "RoundRobin.GetLeader = ChooseRoundRobin(view, ReplicaCount())", p.FuncPos(gl), "uses the configured membership size", "unexpected result expression")
	}
	c16Carousel(c)
	c16Reputation(c)
}

func c16Carousel(c *Ctx) {
	p := c.P
	gl := p.Method("protocol/leaderrotation", "Carousel", "GetLeader")
	if gl == nil {
		c.Unresolved("C16.3", "Carousel.GetLeader", "anchor missing")
		return
	}
	fl := NewFlow(p, gl)
	// results: ChooseRoundRobin(...) or an element of the candidates list
	var candAlloc ssa.Value
	var bad []string
	nDraw := 0
	for _, r := range returnsOf(gl) {
		if !fl.Reachable(r.Block()) {
			continue
		}
		k := fl.K.Key(r.Results[0])
		if strings.HasPrefix(k, "hs/protocol/leaderrotation.ChooseRoundRobin(p1, (*hs/core.RuntimeConfig).ReplicaCount(") ||
			strings.HasPrefix(expandedKey(fl, r.Results[0], r), "hs/protocol/leaderrotation.ChooseRoundRobin(p1, (*hs/core.RuntimeConfig).ReplicaCount(") {
			continue
		}
		u, ok := r.Results[0].(*ssa.UnOp)
		var ia *ssa.IndexAddr
		if ok {
			ia, _ = u.X.(*ssa.IndexAddr)
		}
		if ia == nil {
			bad = append(bad, "returns "+shortVal(k))
			continue
		}
		nDraw++
		if ld, ok := ia.X.(*ssa.UnOp); ok {
			candAlloc = ld.X
		}
		// the index is rnd.Int() % len(candidates) with rnd seeded by SharedRandomSeed()+round
		ik := expandedKey(fl, ia.Index, u)
		if !(strings.HasPrefix(ik, "((*math/rand.Rand).Int(math/rand.New(math/rand.NewSource(((*hs/core.RuntimeConfig).SharedRandomSeed(") && strings.Contains(ik, " + p1))") && strings.Contains(ik, "% builtin len(")) {
			bad = append(bad, "draw index is "+shortVal(ik))
		}
		// sorted before the draw
		sorted := afterOf(fl.At(u), func(s string) bool {
			return strings.HasPrefix(s, "slices.Sort[") && strings.Contains(s, fl.K.Key(ia.X))
		})
		viaHelper := !sorted
		for _, lf := range leaves(fl, ia.X, u) {
			if !viaHelper {
				break
			}
			sorted = true
			lk := lf.KeyIn(fl)
			if !afterOf(lf.Facts, func(s string) bool { return strings.HasPrefix(s, "slices.Sort[") && strings.Contains(s, lk) }) {
				sorted = false
				break
			}
		}
		if !sorted {
			bad = append(bad, "candidates are not sorted before the draw at "+p.InstrPos(u))
		}
	}
	c.Check(len(bad) == 0 && nDraw == 1, "C16.3/draw", "Carousel.GetLeader: sorted candidates, shared seed", p.FuncPos(gl),
		"the leader is ChooseRoundRobin(view, n) or candidates[rnd.Int() % len(candidates)] with candidates sorted first and rnd seeded by SharedRandomSeed()+view", join(bad))
	// candidates: appended inside the ForEach closure over the committed head's QC signers, under !Contains(lastAuthors, id)
	okCand := false
	// argAt: the key, in GetLeader's terms, of what a helper's parameter pi stands for (the argument of its call in GetLeader)
	argAt := func(hf *ssa.Function, pi string) string {
		if hf == gl || !strings.HasPrefix(pi, "p") {
			return pi
		}
		idx := 0
		for _, ch := range pi[1:] {
			if ch < '0' || ch > '9' {
				return pi
			}
			idx = idx*10 + int(ch-'0')
		}
		out := ""
		for _, s := range callsIn(gl, false, func(cc *ssa.CallCommon) bool { return calleeIs(cc, hf) }) {
			if idx < len(s.Common().Args) {
				k := fl.K.Key(s.Common().Args[idx])
				if out != "" && out != k {
					return pi
				}
				out = k
			}
		}
		if out == "" {
			return pi
		}
		return out
	}
	paramIn := regexp.MustCompile(`\bp\d+\b`)
	inGL := func(hf *ssa.Function, k string) string {
		if hf == gl {
			return k
		}
		return paramIn.ReplaceAllStringFunc(k, func(m string) string { return argAt(hf, m) })
	}
	for _, hf := range helperClosure(p, gl, 2) {
		hfl := fl
		if hf != gl {
			hfl = NewFlow(p, hf)
		}
		eachInstr(hf, func(in ssa.Instruction) {
			call, ok := in.(*ssa.Call)
			if !ok || !call.Call.IsInvoke() || call.Call.Method.Name() != "ForEach" {
				return
			}
			recv := inGL(hf, hfl.K.Key(call.Call.Value))
			if !strings.HasPrefix(recv, "invoke (hs.QuorumSignature).Participants("+kQCSig+kBlockQC+"(*hs/protocol.ViewStates).CommittedBlock(") {
				return
			}
			cl := funcOfValue(call.Call.Args[0])
			if cl == nil {
				return
			}
			// a method value of a small local type (`ForEach(eligible.add)`): the method, whose first parameter is the receiver
			elemP := "p0"
			if strings.HasPrefix(cl.Synthetic, "bound method wrapper") && cl.Object() != nil {
				if tf, isF := cl.Object().(*types.Func); isF {
					if m := p.SSA.FuncValue(tf); m != nil && m.Blocks != nil && inModule(funcPkgPath(m)) {
						cl, elemP = m, "p1"
					}
				}
			}
			fcl := NewFlow(p, cl)
			nApp, gated := 0, true
			var appDst *ssa.FreeVar
			elemOK := true
			eachInstr(cl, func(in2 ssa.Instruction) {
				c2, ok := in2.(*ssa.Call)
				if !ok {
					return
				}
				if b, ok := c2.Call.Value.(*ssa.Builtin); ok && b.Name() == "append" {
					nApp++
					if ld, ok := c2.Call.Args[0].(*ssa.UnOp); ok {
						appDst, _ = ld.X.(*ssa.FreeVar)
					}
					var elem string
					storedInto(sliceBase(c2.Call.Args[1]), func(e ssa.Value) bool { elem = fcl.K.Key(e); return false })
					// gate: id is not in the exclusion list (any slice other than the one appended to)
					dst := fcl.K.Key(c2.Call.Args[0])
					if elem != elemP {
						elemOK = false
					}
					if elem != elemP || !falseOf(fcl.At(in2), func(k string) bool {
						return strings.HasPrefix(k, "slices.Contains[") && strings.Contains(k, ", "+elemP+")") && !strings.Contains(k, "("+dst+",")
					}) {
						gated = false
					}
				}
			})
			if nApp == 1 && gated {
				okCand = true
			}
			if nApp == 1 && !gated && elemOK {
				// collect all signers first, then remove the recent authors: slices.DeleteFunc(signers, func(id) bool {
				// return slices.Contains(lastAuthors, id) }) in the function that ran the iteration
				eachInstr(hf, func(in3 ssa.Instruction) {
					dc, ok := in3.(*ssa.Call)
					if !ok || dc.Call.StaticCallee() == nil || !strings.HasPrefix(dc.Call.StaticCallee().String(), "slices.DeleteFunc") || len(dc.Call.Args) != 2 {
						return
					}
					if !precedes(in, in3) && in.Block() != in3.Block() {
						return
					}
					// the list filtered is the one the iteration appended to
					same := false
					if mc, ok := call.Call.Args[0].(*ssa.MakeClosure); ok && appDst != nil {
						if ld, ok := dc.Call.Args[0].(*ssa.UnOp); ok {
							for j, fv := range cl.FreeVars {
								if fv == appDst && j < len(mc.Bindings) && mc.Bindings[j] == ld.X {
									same = true
								}
							}
						}
					}
					pf, okP := predicateFacts(hfl, dc.Call.Args[1])
					if !okP || !same {
						return
					}
					for _, f := range pf {
						if f.Op == "true" && strings.HasPrefix(f.L, "slices.Contains[") && strings.Contains(f.L, ", elem)") {
							okCand = true
						}
					}
				})
			}
		})
	}
	_ = candAlloc
	c.Check(okCand, "C16.3/candidates", "Carousel.GetLeader: candidates = signers of the committed head's QC minus recent authors", p.FuncPos(gl),
		"a signer id is appended to candidates only under !slices.Contains(lastAuthors, id), iterating the participants of CommittedBlock().QuorumCert().Signature()", "candidate construction not recognised")
	// lastAuthors: proposers of the committed head and its ancestors, at most f of them
	okAuth := false
	localOnly := false
	for _, hf := range helperClosure(p, gl, 2) {
		hfl := fl
		if hf != gl {
			hfl = NewFlow(p, hf)
		}
		eachInstr(hf, func(in ssa.Instruction) {
			call, ok := in.(*ssa.Call)
			if !ok {
				return
			}
			if b, ok := call.Call.Value.(*ssa.Builtin); ok && b.Name() == "append" {
				var elem string
				storedInto(sliceBase(call.Call.Args[1]), func(e ssa.Value) bool { elem = hfl.K.Key(e); return false })
				if strings.HasPrefix(elem, "(*hs.Block).Proposer(phi@") {
					// the ancestors are obtained with Blockchain.Get, which fetches what is missing: with the local look-up
					// the excluded authors depend on what this replica happens to have stored
					if ap := call.Call.Args[1]; ap != nil {
						storedInto(sliceBase(ap), func(e ssa.Value) bool {
							if pc, ok := e.(*ssa.Call); ok && len(pc.Call.Args) == 1 {
								if ph, ok := pc.Call.Args[0].(*ssa.Phi); ok {
									for _, ed := range ph.Edges {
										if ex, ok := ed.(*ssa.Extract); ok {
											if lc, ok := ex.Tuple.(*ssa.Call); ok && lc.Call.StaticCallee() != nil && lc.Call.StaticCallee().Name() == "LocalGet" {
												localOnly = true
											}
										}
									}
								}
							}
							return false
						})
					}
					// bounded by a counter that advances with every append, or by the length of the list itself
					dst := hfl.K.Key(call.Call.Args[0])
					if hasCmp(hfl.At(in), "<", func(k string) bool {
						return strings.HasPrefix(k, "phi@") || strings.HasPrefix(k, "builtin len("+dst+")")
					}, func(k string) bool {
						return strings.HasPrefix(inGL(hf, k), "hs.NumFaulty((*hs/core.RuntimeConfig).ReplicaCount(")
					}) {
						okAuth = true
					}
				}
			}
		})
	}
	c.Check(!localOnly, "C16.3/authors", "Carousel.GetLeader: the ancestors of the committed head are fetched if missing", p.FuncPos(gl),
		"the walk over the committed head's ancestors uses Blockchain.Get", "the walk uses Blockchain.LocalGet: a replica that lacks an ancestor stops early, excludes fewer authors and names another leader than its peers")
	c.Check(okAuth, "C16.3/authors", "Carousel.GetLeader: excludes the proposers of at most the last f committed blocks", p.FuncPos(gl),
		"lastAuthors collects block.Proposer() along the parent chain only while i < NumFaulty(ReplicaCount())", "author-exclusion loop not recognised")
}

func c16Reputation(c *Ctx) {
	p := c.P
	gl := p.Method("protocol/leaderrotation", "RepBased", "GetLeader")
	if gl == nil {
		c.Unresolved("C16.4", "RepBased.GetLeader", "anchor missing")
		return
	}
	fl := NewFlow(p, gl)
	c.whoMayWrite("C16.4", p.Field("protocol/leaderrotation", "RepBased", "reputations"), "RepBased.reputations", "(*hs/protocol/leaderrotation.RepBased).GetLeader")
	c.whoMayWrite("C16.4", p.Field("protocol/leaderrotation", "RepBased", "prevCommitHead"), "RepBased.prevCommitHead", "(*hs/protocol/leaderrotation.RepBased).GetLeader")
	// the chooser is built after sorting the weights by id; the pick uses a source seeded by SharedRandomSeed()+view
	okSort, okSeed := false, false
	// (the chooser and the draw may sit in private helpers of the package GetLeader was split into: call sites found
	// from GetLeader, facts and keys in its terms)
	for _, ds := range deepSites(fl, func(cc *ssa.CallCommon) bool {
		return cc.StaticCallee() != nil && strings.HasSuffix(cc.StaticCallee().String(), "weightedrand.NewChooser")
	}, 0) {
		if afterOf(ds.Facts, func(s string) bool { return strings.HasPrefix(s, "slices.SortFunc[") }) {
			okSort = true
		}
	}
	for _, ds := range deepSites(fl, func(cc *ssa.CallCommon) bool {
		if cc.StaticCallee() == nil {
			return false
		}
		name := cc.StaticCallee().String()
		return strings.HasSuffix(name, "weightedrand.Chooser).PickSource") || strings.HasSuffix(name, "weightedrand.Chooser.PickSource")
	}, 0) {
		hfl := fl
		if ds.In != gl {
			hfl = NewFlow(p, ds.In)
		}
		args := ds.Site.Common().Args
		k := expandedKey(hfl, args[len(args)-1], ds.Site)
		// in a helper the view is a parameter: the handler's view must be what it is given
		viewKey := "p1"
		if ds.In != gl && ds.Via != nil {
			viewKey = ""
			for i, a := range ds.Via.Common().Args {
				if fl.K.Key(a) == "p1" && ds.Via.Common().StaticCallee() == ds.In {
					viewKey = "p" + itoa(i)
				}
			}
		}
		if viewKey != "" && strings.HasPrefix(k, "math/rand.New(math/rand.NewSource(((*hs/core.RuntimeConfig).SharedRandomSeed(") && strings.Contains(k, " + "+viewKey+"))") {
			okSeed = true
		}
	}
	c.Check(okSort, "C16.4", "RepBased.GetLeader: weights sorted by id before the chooser is built", p.FuncPos(gl), "slices.SortFunc(weights, by id) precedes weightedrand.NewChooser on every path", "weights are not sorted before the draw (iteration order of the voter set would leak into the choice)")
	c.Check(okSeed, "C16.4", "RepBased.GetLeader: draw seeded by shared seed + view", p.FuncPos(gl), "PickSource(rand.New(rand.NewSource(SharedRandomSeed()+view)))", "unexpected seed")
}

// c16StateGates (C16.6): the two history-dependent schemes agree across replicas only because they consult the committed
// history at a point that every replica has reached: the carousel draws only when the committed head is exactly
// chainLength views behind the requested view (otherwise round-robin), and the reputation scheme updates a voter's
// reputation once per new committed head and refuses only views that lie before the committed head's horizon.
func c16StateGates(c *Ctx) {
	p := c.P
	if gl := p.Method("protocol/leaderrotation", "Carousel", "GetLeader"); gl != nil {
		fl := NewFlow(p, gl)
		atHorizon := func(f Fact) bool {
			if f.Op != "==" {
				return false
			}
			isHead := func(k string) bool {
				return strings.HasPrefix(k, "(*hs.Block).View((*hs/protocol.ViewStates).CommittedBlock(")
			}
			isBack := func(k string) bool {
				return strings.HasPrefix(k, "(p1 - ") && strings.Contains(k, "Carousel.chainLength")
			}
			return isHead(f.L) && isBack(f.R) || isHead(f.R) && isBack(f.L)
		}
		n := 0
		var bad []string
		for _, ds := range deepSites(fl, func(cc *ssa.CallCommon) bool {
			return cc.StaticCallee() != nil && cc.StaticCallee().String() == "math/rand.NewSource"
		}, 0) {
			n++
			ok := false
			for f := range ds.Facts {
				if atHorizon(f) {
					ok = true
				}
			}
			pos := ssa.Instruction(ds.Site)
			if ds.Via != nil {
				pos = ds.Via
			}
			if !ok && !branchDominates(fl, pos, atHorizon) {
				bad = append(bad, p.Pos(ds.Site.Pos()))
			}
		}
		c.Check(n > 0 && len(bad) == 0, "C16.6", "Carousel.GetLeader: draws only at the committed head's horizon", p.FuncPos(gl),
			"the seeded draw is reached only under CommittedBlock().View() == round - chainLength; every other case falls back to round-robin",
			"the draw at "+join(bad)+" is reachable when the committed head is not exactly chainLength views behind: replicas whose committed heads differ pick different leaders")
	} else {
		c.Unresolved("C16.6", "Carousel.GetLeader", "anchor missing")
	}
	if gl := p.Method("protocol/leaderrotation", "RepBased", "GetLeader"); gl != nil {
		n := 0
		var bad []string
		newHead := func(f Fact) bool {
			return f.Op == "<" && strings.Contains(f.L, "RepBased.prevCommitHead") && strings.HasPrefix(f.L, "(*hs.Block).View(") && strings.HasPrefix(f.R, "(*hs.Block).View(")
		}
		// the updates of the reputation table made on GetLeader's behalf: in it, in its function literals, or in private
		// helpers of the package that are handed the table
		var scope []*ssa.Function
		for _, hf := range helperClosure(p, gl, 2) {
			scope = append(scope, hf)
			scope = append(scope, Closures(hf)...)
		}
		for _, cl := range Closures(gl) {
			for _, hf := range helperClosure(p, cl, 2) {
				scope = append(scope, hf)
			}
		}
		seenFn := map[*ssa.Function]bool{}
		isGateCmp := func(v ssa.Value) bool {
			bo, ok := v.(*ssa.BinOp)
			if !ok || (bo.Op != token.LSS && bo.Op != token.GTR) || bo.Parent() == nil {
				return false
			}
			k := NewKeyer(p, bo.Parent())
			kx, ky := k.Key(bo.X), k.Key(bo.Y)
			return strings.HasPrefix(kx, "(*hs.Block).View(") && strings.HasPrefix(ky, "(*hs.Block).View(") && (strings.Contains(kx, "prevCommitHead") != strings.Contains(ky, "prevCommitHead"))
		}
		// gated: in is reached only through a branch whose condition is (or is computed from) the new-head comparison;
		// if its function has no such branch, every call of that function is
		var gated func(in ssa.Instruction, depth int) bool
		gated = func(in ssa.Instruction, depth int) bool {
			fn := in.Parent()
			ffl := NewFlow(p, fn)
			if branchDominates(ffl, in, newHead) {
				return true
			}
			for f := range ffl.At(in) {
				if newHead(f) {
					return true
				}
			}
			for _, b := range fn.Blocks {
				iff, ok := b.Instrs[len(b.Instrs)-1].(*ssa.If)
				if !ok || len(b.Succs) != 2 {
					continue
				}
				for _, su := range b.Succs {
					if len(su.Preds) == 1 && su.Dominates(in.Block()) {
						sliceEnterHelpers, sliceProg = funcPkgPath(gl), p
						hit := backwardSlice(iff.Cond, isGateCmp)
						sliceEnterHelpers, sliceProg = "", nil
						if hit {
							return true
						}
					}
				}
			}
			if depth >= 3 || fn == gl {
				return false
			}
			// the function literal handed to ForEach, or a private helper: judged at its uses
			if outer := fn.Parent(); outer != nil {
				ok := false
				eachInstr(outer, func(x ssa.Instruction) {
					if mc, isMC := x.(*ssa.MakeClosure); isMC && mc.Fn == ssa.Value(fn) {
						ok = gated(x, depth+1)
					}
				})
				return ok
			}
			callers := callIndexOf(p).callers[fn]
			if len(callers) == 0 || callIndexOf(p).asValue[fn] {
				return false
			}
			for _, r := range callers {
				if !gated(r.Instr, depth+1) {
					return false
				}
			}
			return true
		}
		for _, fn := range scope {
			if seenFn[fn] || fn.Blocks == nil {
				continue
			}
			seenFn[fn] = true
			eachInstr(fn, func(in ssa.Instruction) {
				mu, ok := in.(*ssa.MapUpdate)
				if !ok {
					return
				}
				sliceEnterHelpers, sliceProg = funcPkgPath(gl), p
				isTable := backwardSlice(mu.Map, func(v ssa.Value) bool {
					fa, ok := v.(*ssa.FieldAddr)
					return ok && strings.HasSuffix(fieldName(fa.X.Type(), fa.Field), "RepBased.reputations")
				})
				sliceEnterHelpers, sliceProg = "", nil
				if !isTable {
					return
				}
				n++
				if !gated(in, 0) {
					bad = append(bad, p.InstrPos(in))
				}
			})
		}
		// "once": the committed head that was accounted for is remembered, so the next call with the same head updates nothing
		nAdv := 0
		for _, fn := range scope {
			if fn.Blocks == nil {
				continue
			}
			ffl := NewFlow(p, fn)
			eachInstr(fn, func(in ssa.Instruction) {
				st, ok := in.(*ssa.Store)
				if !ok || !ffl.Reachable(in.Block()) {
					return
				}
				fa, ok := st.Addr.(*ssa.FieldAddr)
				if !ok || !strings.HasSuffix(fieldName(fa.X.Type(), fa.Field), "RepBased.prevCommitHead") {
					return
				}
				sliceEnterHelpers, sliceProg = funcPkgPath(gl), p
				fromHead := backwardSlice(st.Val, func(v ssa.Value) bool {
					call, ok := v.(*ssa.Call)
					return ok && call.Call.StaticCallee() != nil && call.Call.StaticCallee().Name() == "CommittedBlock"
				})
				sliceEnterHelpers, sliceProg = "", nil
				if fromHead {
					nAdv++
				}
			})
		}
		if n > 0 && nAdv == 0 {
			bad = append(bad, "prevCommitHead is never advanced to the committed head that was accounted for")
		}
		c.Check(n > 0 && len(bad) == 0, "C16.6", "RepBased.GetLeader: reputations change once per new committed head", p.FuncPos(gl),
			"a voter's reputation is updated only under prevCommitHead.View() < block.View()",
			"the update at "+join(bad)+" is not gated by a new committed head: the reputations depend on how often GetLeader was asked, which differs between replicas")
		// the refusal (id 0) is for views before the horizon only
		fl := NewFlow(p, gl)
		var badRet []string
		nRet := 0
		for _, r := range returnsOf(gl) {
			if !fl.Reachable(r.Block()) || !isIntConst(retValue(r, 0), 0) {
				continue
			}
			nRet++
			old := func(f Fact) bool {
				return f.Op == "<" && strings.HasPrefix(f.L, "(p1 - ") && strings.Contains(f.L, "RepBased.chainLength") && strings.HasPrefix(f.R, "(*hs.Block).View((*hs/protocol.ViewStates).CommittedBlock(")
			}
			ok := branchDominates(fl, r, old)
			for f := range fl.At(r) {
				if old(f) {
					ok = true
				}
			}
			// (the weighted draw's own failure is the other way to return no leader)
			if !ok && !notNilOf(fl.At(r), func(k string) bool { return strings.Contains(k, "weightedrand") }) {
				badRet = append(badRet, p.Pos(r.Pos()))
			}
		}
		c.Check(len(badRet) == 0, "C16.6", "RepBased.GetLeader: no leader only for views before the committed horizon", p.FuncPos(gl),
			"id 0 is returned only under view - chainLength < CommittedBlock().View() (or when the weighted chooser cannot be built)",
			"id 0 (no replica) is returned at "+join(badRet)+" for a view at or after the committed horizon")
	} else {
		c.Unresolved("C16.6", "RepBased.GetLeader", "anchor missing")
	}
}
