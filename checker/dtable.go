package main

// A10 DTABLE: decision tables of loop-free deciders. All acyclic paths of the SSA CFG
// are enumerated; each yields a conjunction of literals (normalised branch conditions),
// the stores to receiver fields performed on the way, and the result. The function's
// decision is then compared, as a Boolean function over the atoms, with a reference
// function transcribed from the published rules. No execution, no solver: it is the
// Boolean structure of the code.

import (
	"fmt"
	"go/token"
	"go/types"
	"regexp"
	"sort"
	"strings"

	"golang.org/x/tools/go/ssa"
)

type literal struct {
	Atom string
	Val  bool
}

type dpath struct {
	Facts   []Fact // the raw (un-abbreviated) conditions of the path, in the function's own keys
	Lits    []literal
	Stores  map[string]string // field -> canonical value key
	Result  string            // canonical key of the result ("true"/"false"/"nil"/value key)
	Results []ssa.Value       // all results, resolved along the path (phis, spilled named results)
}

var idRe = regexp.MustCompile(`@(?:[~^][^:@\s]*:)?b\d+i\d+`)

func canon(k string) string { return idRe.ReplaceAllString(k, "") }

// abbrevFn shortens canonical keys (set per decision function by the caller).
var abbrevFn = func(s string) string { return s }

// litOf turns a normalised fact into (atom, polarity).
func litOf(f Fact) (literal, bool) {
	l, r := abbrevFn(canon(f.L)), abbrevFn(canon(f.R))
	if (f.Op == "==" || f.Op == "!=") && l > r {
		l, r = r, l
	}
	switch f.Op {
	case "==":
		return literal{l + " == " + r, true}, true
	case "!=":
		return literal{l + " == " + r, false}, true
	case "<":
		return literal{l + " < " + r, true}, true
	case "<=": // l <= r  ==  !(r < l)
		return literal{r + " < " + l, false}, true
	case "true":
		return literal{l, true}, true
	case "false":
		return literal{l, false}, true
	}
	return literal{}, false
}

// enumPaths enumerates the acyclic entry-to-return paths of fl.Fn.
func enumPaths(fl *Flow, maxPaths int) ([]dpath, error) {
	fn := fl.Fn
	if len(fn.Blocks) == 0 {
		return nil, fmt.Errorf("no body")
	}
	var out []dpath
	type state struct {
		facts    []Fact
		lits     []literal
		stores   map[string]string
		phis     map[*ssa.Phi]ssa.Value
		locals   map[*ssa.Alloc]ssa.Value
		onPath   map[*ssa.BasicBlock]bool
		callKeys map[*ssa.Call]string // value of a pure helper call on this path, in this function's terms
	}
	clone := func(st state) state {
		ns := state{facts: append([]Fact{}, st.facts...), lits: append([]literal{}, st.lits...), stores: map[string]string{}, phis: map[*ssa.Phi]ssa.Value{},
			locals: map[*ssa.Alloc]ssa.Value{}, onPath: map[*ssa.BasicBlock]bool{}, callKeys: map[*ssa.Call]string{}}
		for k, v := range st.stores {
			ns.stores[k] = v
		}
		for k, v := range st.locals {
			ns.locals[k] = v
		}
		for k, v := range st.phis {
			ns.phis[k] = v
		}
		for k := range st.onPath {
			ns.onPath[k] = true
		}
		for k, v := range st.callKeys {
			ns.callKeys[k] = v
		}
		return ns
	}
	var err error
	resolve := func(st *state, v ssa.Value) ssa.Value {
		for i := 0; i < 8; i++ {
			if u, ok := v.(*ssa.UnOp); ok {
				if a, ok := u.X.(*ssa.Alloc); ok {
					if lv, ok := st.locals[a]; ok {
						v = lv
						continue
					}
				}
			}
			ph, ok := v.(*ssa.Phi)
			if !ok {
				return v
			}
			nv, ok := st.phis[ph]
			if !ok {
				return v
			}
			v = nv
		}
		return v
	}
	// rk rewrites a key with the values the pure helper calls took on this path
	rk := func(st *state, k string) string {
		for call, val := range st.callKeys {
			k = strings.ReplaceAll(k, fl.K.Key(call), val)
		}
		return k
	}
	rf := func(st *state, f Fact) Fact {
		if len(st.callKeys) == 0 {
			return f
		}
		g := Fact{f.Op, rk(st, f.L), ""}
		if f.R != "" {
			g.R = rk(st, f.R)
		}
		if (g.Op == "==" || g.Op == "!=") && g.L > g.R {
			g.L, g.R = g.R, g.L
		}
		return g
	}
	addFacts := func(st *state, fs []Fact) {
		for _, f := range fs {
			f = rf(st, f)
			st.facts = append(st.facts, f)
			if l, ok := litOf(f); ok {
				st.lits = append(st.lits, l)
			}
		}
	}
	var walk func(b, pred *ssa.BasicBlock, st state)
	var run func(b *ssa.BasicBlock, from int, ns state)
	walk = func(b, pred *ssa.BasicBlock, st state) {
		if err != nil {
			return
		}
		if st.onPath[b] {
			err = fmt.Errorf("the function has a loop through block %d: not a loop-free decider", b.Index)
			return
		}
		if len(out) > maxPaths {
			err = fmt.Errorf("more than %d paths", maxPaths)
			return
		}
		ns := clone(st)
		ns.onPath[b] = true
		// phis
		if pred != nil {
			idx := -1
			for i, p := range b.Preds {
				if p == pred {
					idx = i
				}
			}
			for _, in := range b.Instrs {
				ph, ok := in.(*ssa.Phi)
				if !ok {
					break
				}
				if idx >= 0 {
					ns.phis[ph] = resolve(&ns, ph.Edges[idx])
				}
			}
		}
		run(b, 0, ns)
	}
	run = func(b *ssa.BasicBlock, from int, ns state) {
		if err != nil {
			return
		}
		for i := from; i < len(b.Instrs); i++ {
			in := b.Instrs[i]
			switch x := in.(type) {
			case *ssa.Call:
				// a pure, loop-free helper of this package computing a value: one continuation per path of the helper
				if alts, ok := helperValues(fl, x, func(v ssa.Value) ssa.Value { return resolve(&ns, v) }); ok {
					for _, a := range alts {
						as := clone(ns)
						addFacts(&as, a.facts)
						if a.result != "" {
							as.callKeys[x] = rk(&as, a.result)
						}
						for f, v := range a.stores {
							as.stores[f] = abbrevFn(canon(rk(&as, v)))
						}
						run(b, i+1, as)
					}
					return
				}
			case *ssa.Store:
				if a, ok := x.Addr.(*ssa.Alloc); ok {
					if u, isU := x.Val.(*ssa.UnOp); !(isU && u.X == a) {
						ns.locals[a] = resolve(&ns, x.Val)
					}
				}
				if fa, ok := x.Addr.(*ssa.FieldAddr); ok && rootAlloc(fa) == nil {
					ns.stores[fieldName(fa.X.Type(), fa.Field)] = abbrevFn(canon(rk(&ns, fl.K.Key(resolve(&ns, x.Val)))))
				}
			case *ssa.Return:
				res := "void"
				var allRes []ssa.Value
				for i := range x.Results {
					allRes = append(allRes, resolve(&ns, x.Results[i]))
				}
				if len(x.Results) > 0 {
					v := resolve(&ns, x.Results[0])
					switch {
					case isBoolConst(v, true):
						res = "true"
					case isBoolConst(v, false):
						res = "false"
					case isNilConst(v):
						res = "nil"
					default:
						if v.Type().String() == "bool" {
							// symbolic boolean result: split into the two outcomes
							for _, truth := range []bool{true, false} {
								verdict := map[bool]string{true: "true", false: "false"}[truth]
								if alts, ok := helperOutcomes(fl, v, truth, func(x ssa.Value) ssa.Value { return resolve(&ns, x) }); ok {
									for _, afs := range alts {
										as := clone(ns)
										addFacts(&as, afs)
										out = append(out, dpath{as.facts, as.lits, as.stores, verdict, allRes})
									}
									continue
								}
								var fs []Fact
								fl.decompose(v, truth, &fs)
								as := clone(ns)
								addFacts(&as, fs)
								out = append(out, dpath{as.facts, as.lits, as.stores, verdict, allRes})
							}
							return
						}
						res = abbrevFn(canon(rk(&ns, fl.K.Key(v))))
					}
				}
				out = append(out, dpath{ns.facts, ns.lits, ns.stores, res, allRes})
				return
			}
		}
		for _, s := range b.Succs {
			cs := clone(ns)
			// edge literals; conditions on phis are resolved along the path
			if iff, ok := b.Instrs[len(b.Instrs)-1].(*ssa.If); ok && len(b.Succs) == 2 && b.Succs[0] != b.Succs[1] {
				cond := resolve(&ns, iff.Cond)
				truth := s == b.Succs[0]
				if isBoolConst(cond, true) || isBoolConst(cond, false) {
					if isBoolConst(cond, true) != truth {
						continue // infeasible on this path
					}
				} else if alts, ok := helperOutcomes(fl, cond, truth, func(v ssa.Value) ssa.Value { return resolve(&ns, v) }); ok {
					// the condition is the verdict of a loop-free boolean helper of this package:
					// splice in each of the helper's own paths that deliver this verdict
					for _, fs := range alts {
						as := clone(cs)
						addFacts(&as, fs)
						walk(s, b, as)
					}
					continue
				} else {
					var fs []Fact
					fl.decompose(cond, truth, &fs)
					addFacts(&cs, fs)
				}
			}
			walk(s, b, cs)
		}
	}
	walk(fn.Blocks[0], nil, state{stores: map[string]string{}, phis: map[*ssa.Phi]ssa.Value{}, locals: map[*ssa.Alloc]ssa.Value{}, onPath: map[*ssa.BasicBlock]bool{}, callKeys: map[*ssa.Call]string{}})
	return out, err
}

type helperValue struct {
	facts  []Fact
	result string
	stores map[string]string // field -> value key (caller's terms), for helpers that update receiver fields
}

// helperValues: call is a call of a pure, loop-free, single-result (non-boolean) function of the
// analysed function's own package; it returns, per path of the helper, the conditions of the
// path and the key of the value returned, both in the caller's terms. `pos := q.next(q.tail)`
// then reads as the two cases tail+1 (not at the end) and 0 (at the end).
func helperValues(fl *Flow, call *ssa.Call, resolve func(ssa.Value) ssa.Value) ([]helperValue, bool) {
	callee := call.Call.StaticCallee()
	if callee == nil || callee == fl.Fn || callee.Blocks == nil || callee.Synthetic != "" || funcPkgPath(callee) != funcPkgPath(fl.Fn) || helperDepth > 3 {
		return nil, false
	}
	nres := callee.Signature.Results().Len()
	if nres > 1 || (nres == 1 && types.Identical(callee.Signature.Results().At(0).Type(), types.Typ[types.Bool])) {
		return nil, false
	}
	// either a value helper (no effects) with a branch, or a void helper whose only effects are stores to fields
	simple, fieldStores := true, 0
	eachInstr(callee, func(in ssa.Instruction) {
		switch x := in.(type) {
		case *ssa.Store:
			if rootAlloc(x.Addr) == nil {
				if _, isFA := x.Addr.(*ssa.FieldAddr); isFA {
					fieldStores++
				} else {
					simple = false
				}
			}
		case *ssa.MapUpdate, *ssa.Send, *ssa.Go, *ssa.Defer:
			simple = false
		case *ssa.Call:
			// only calls of builtins (len, cap), getters and loggers
			if _, isB := x.Call.Value.(*ssa.Builtin); isB {
				return
			}
			if cal := x.Call.StaticCallee(); cal != nil && getterLike(cal) {
				return
			}
			if x.Call.IsInvoke() && strings.Contains(x.Call.Value.Type().String(), "logging.Logger") {
				return
			}
			simple = false
		}
	})
	if !simple || (nres == 1 && (fieldStores > 0 || len(callee.Blocks) < 2)) || (nres == 0 && fieldStores == 0) {
		return nil, false
	}
	cfl := NewFlow(fl.P, callee)
	helperDepth++
	saved := abbrevFn
	abbrevFn = func(s string) string { return s }
	paths, err := enumPaths(cfl, 64)
	abbrevFn = saved
	helperDepth--
	if err != nil {
		return nil, false
	}
	args := make([]string, len(call.Call.Args))
	for i, a := range call.Call.Args {
		args[i] = fl.K.Key(resolve(a))
	}
	tag := "@~" + callee.Name() + ":b${1}i${2}"
	subst := func(k string) string {
		k = localIDRe.ReplaceAllString(k, tag)
		return paramRe.ReplaceAllStringFunc(k, func(m string) string {
			i := 0
			for _, ch := range m[1:] {
				i = i*10 + int(ch-'0')
			}
			if i < len(args) {
				return args[i]
			}
			return m
		})
	}
	var out []helperValue
	for _, dp := range paths {
		if len(dp.Results) != nres {
			return nil, false
		}
		hv := helperValue{stores: map[string]string{}}
		if nres == 1 {
			hv.result = subst(cfl.K.Key(dp.Results[0]))
		}
		for f, v := range dp.Stores {
			hv.stores[f] = subst(v)
		}
		for _, f := range dp.Facts {
			g := Fact{f.Op, subst(f.L), ""}
			if f.R != "" {
				g.R = subst(f.R)
			}
			if (g.Op == "==" || g.Op == "!=") && g.L > g.R {
				g.L, g.R = g.R, g.L
			}
			hv.facts = append(hv.facts, g)
		}
		out = append(out, hv)
	}
	return out, len(out) > 0
}

// consistent reports whether the path's literals contradict each other or the valuation.
func (d dpath) matches(val map[string]bool) bool {
	for _, l := range d.Lits {
		if v, ok := val[l.Atom]; ok && v != l.Val {
			return false
		}
	}
	return true
}

func (d dpath) selfConsistent() bool {
	seen := map[string]bool{}
	for _, l := range d.Lits {
		if v, ok := seen[l.Atom]; ok && v != l.Val {
			return false
		}
		seen[l.Atom] = l.Val
	}
	return true
}

type outcome struct {
	Result string
	Stores map[string]string
}

func (o outcome) String() string {
	var ks []string
	for k, v := range o.Stores {
		ks = append(ks, k[strings.LastIndex(k, ".")+1:]+":="+v)
	}
	sort.Strings(ks)
	return "result=" + o.Result + " {" + strings.Join(ks, ", ") + "}"
}

func sameOutcome(a, b outcome) bool {
	if a.Result != b.Result || len(a.Stores) != len(b.Stores) {
		return false
	}
	for k, v := range a.Stores {
		if b.Stores[k] != v {
			return false
		}
	}
	return true
}

// compareTable compares the code's decision with ref on every valuation of the atoms.
// It returns the number of valuations compared and a description of the first
// disagreement ("" if none).
func compareTable(paths []dpath, refAtoms []string, ref func(val func(string) bool) outcome) (int, string) {
	atomSet := map[string]bool{}
	for _, a := range refAtoms {
		atomSet[a] = true
	}
	var feasible []dpath
	for _, p := range paths {
		if !p.selfConsistent() {
			continue
		}
		feasible = append(feasible, p)
		for _, l := range p.Lits {
			atomSet[l.Atom] = true
		}
	}
	var atoms []string
	for a := range atomSet {
		atoms = append(atoms, a)
	}
	sort.Strings(atoms)
	if len(atoms) > 16 {
		return 0, fmt.Sprintf("too many atoms (%d) for exhaustive comparison", len(atoms))
	}
	n := 0
	for mask := 0; mask < 1<<len(atoms); mask++ {
		val := map[string]bool{}
		for i, a := range atoms {
			val[a] = mask&(1<<i) != 0
		}
		var got *dpath
		cnt := 0
		for i := range feasible {
			if feasible[i].matches(val) {
				cnt++
				got = &feasible[i]
			}
		}
		if cnt == 0 {
			continue // valuation excluded by the code's own structure (e.g. contradictory atoms)
		}
		want := ref(func(a string) bool { return val[a] })
		codeOut := outcome{got.Result, got.Stores}
		n++
		if cnt > 1 {
			// several paths match only if they do not distinguish on tested atoms: they must agree
			for i := range feasible {
				if feasible[i].matches(val) && !sameOutcome(outcome{feasible[i].Result, feasible[i].Stores}, codeOut) {
					return n, "non-deterministic decision for one valuation (analysis imprecision)"
				}
			}
		}
		if !sameOutcome(codeOut, want) {
			var tv []string
			for _, a := range atoms {
				if val[a] {
					tv = append(tv, a)
				} else {
					tv = append(tv, "!("+a+")")
				}
			}
			return n, "for [" + strings.Join(tv, "; ") + "] the code decides " + codeOut.String() + " but the published rule decides " + want.String()
		}
	}
	return n, ""
}

// helperOutcomes: if cond (possibly negated) is a call of a loop-free, store-free boolean
// function of the analysed function's own package, it returns, for the requested truth value
// of cond, the condition sets of the helper's paths that deliver it, re-expressed in the
// caller's terms. "Extract the three-chain test into isDirectChild(a, b)" thereby leaves the
// decision table unchanged.
func helperOutcomes(fl *Flow, cond ssa.Value, truth bool, resolve func(ssa.Value) ssa.Value) ([][]Fact, bool) {
	for {
		u, ok := cond.(*ssa.UnOp)
		if !ok || u.Op != token.NOT {
			break
		}
		cond, truth = u.X, !truth
	}
	call, ok := cond.(*ssa.Call)
	if !ok {
		return nil, false
	}
	callee := call.Call.StaticCallee()
	if callee == nil || callee == fl.Fn || callee.Blocks == nil || callee.Synthetic != "" || funcPkgPath(callee) != funcPkgPath(fl.Fn) ||
		callee.Signature.Results().Len() != 1 || !types.Identical(callee.Signature.Results().At(0).Type(), types.Typ[types.Bool]) {
		return nil, false
	}
	if helperDepth > 3 {
		return nil, false
	}
	// store-free: a helper that writes fields is not a pure predicate
	pure := true
	eachInstr(callee, func(in ssa.Instruction) {
		switch x := in.(type) {
		case *ssa.Store:
			if rootAlloc(x.Addr) == nil {
				pure = false
			}
		case *ssa.MapUpdate, *ssa.Send, *ssa.Go, *ssa.Defer:
			pure = false
		}
	})
	if !pure {
		return nil, false
	}
	helperDepth++
	paths, err := enumPaths(NewFlow(fl.P, callee), 256)
	helperDepth--
	if err != nil {
		return nil, false
	}
	args := make([]string, len(call.Call.Args))
	for i, a := range call.Call.Args {
		args[i] = fl.K.Key(resolve(a))
	}
	tag := "@~" + callee.Name() + ":b${1}i${2}"
	subst := func(k string) string {
		k = localIDRe.ReplaceAllString(k, tag)
		return paramRe.ReplaceAllStringFunc(k, func(m string) string {
			i := 0
			for _, ch := range m[1:] {
				i = i*10 + int(ch-'0')
			}
			if i < len(args) {
				return args[i]
			}
			return m
		})
	}
	want := map[bool]string{true: "true", false: "false"}[truth]
	var out [][]Fact
	for _, dp := range paths {
		if dp.Result != want {
			if dp.Result != "true" && dp.Result != "false" {
				return nil, false
			}
			continue
		}
		var fs []Fact
		for _, f := range dp.Facts {
			g := Fact{f.Op, subst(f.L), ""}
			if f.R != "" {
				g.R = subst(f.R)
			}
			if (g.Op == "==" || g.Op == "!=") && g.L > g.R {
				g.L, g.R = g.R, g.L
			}
			fs = append(fs, g)
		}
		out = append(out, fs)
	}
	return out, true
}

var helperDepth int
