package main

// C10: no message from a peer can crash a replica or disturb its state.
// A7 NIL: on the receive path (everything reachable from the network entry points), a
// value that can be nil because a peer left a field out must not be dereferenced /
// invoked without a dominating nil test.

import (
	"fmt"
	"go/token"
	"go/types"
	"os"
	"slices"
	"sort"
	"strings"

	"golang.org/x/tools/go/ssa"
)

func init() { register("C10", checkC10) }

// receiveRoots: network entry points, by role.
func receiveRoots(p *Prog) (roots []*ssa.Function, handlers []*ssa.Function) {
	for _, m := range []string{"Propose", "Vote", "NewView", "Timeout", "RequestBlock"} {
		if fn := p.Method("server", "serviceImpl", m); fn != nil {
			roots = append(roots, fn)
			handlers = append(handlers, fn)
		}
	}
	if fn := p.Method("protocol/comm/kauri", "kauriServiceImpl", "SendContribution"); fn != nil {
		roots = append(roots, fn)
	}
	if fn := p.Method("network", "qspec", "RequestBlockQF"); fn != nil {
		roots = append(roots, fn)
	}
	for _, ev := range []types.Type{namedType(p, "", "ProposeMsg"), namedType(p, "", "VoteMsg"), namedType(p, "", "TimeoutMsg"), namedType(p, "", "NewViewMsg")} {
		for _, h := range p.registeredHandlers(ev) {
			if !testHelperPkg(funcPkgPath(h)) && !strings.HasPrefix(funcPkgPath(h), modPath+"/twins") && !strings.HasPrefix(funcPkgPath(h), modPath+"/metrics") {
				roots = append(roots, h)
			}
		}
	}
	if n := p.Named("internal/proto/kauripb", "Contribution"); n != nil {
		for _, h := range p.registeredHandlers(types.NewPointer(n)) {
			roots = append(roots, h)
		}
	}
	return
}

// reachableFrom: module functions reachable through static calls, closures, go/defer
// and interface dispatch over module implementations.
func (p *Prog) reachableFrom(roots []*ssa.Function) map[*ssa.Function]bool {
	seen := map[*ssa.Function]bool{}
	var visit func(fn *ssa.Function)
	visit = func(fn *ssa.Function) {
		if fn == nil || seen[fn] || fn.Blocks == nil || !inModule(funcPkgPath(fn)) || testHelperPkg(funcPkgPath(fn)) {
			return
		}
		seen[fn] = true
		eachInstr(fn, func(in ssa.Instruction) {
			if mc, ok := in.(*ssa.MakeClosure); ok {
				if cl, ok := mc.Fn.(*ssa.Function); ok {
					visit(cl)
				}
			}
			for _, op := range in.Operands(nil) {
				if op != nil && *op != nil {
					if f, ok := (*op).(*ssa.Function); ok {
						visit(f)
					}
				}
			}
			ci, ok := in.(ssa.CallInstruction)
			if !ok {
				return
			}
			cc := ci.Common()
			if cc.IsInvoke() {
				// logging is cut: loggers never see wire values as receivers
				if strings.Contains(cc.Value.Type().String(), "logging.Logger") {
					return
				}
				for _, impl := range modSetsOf(p).implsOfCall(cc) {
					visit(impl)
				}
				return
			}
			visit(cc.StaticCallee())
		})
	}
	for _, r := range roots {
		visit(r)
	}
	return seen
}

type nilAnalysis struct {
	p       *Prog
	scope   map[*ssa.Function]bool
	flows   map[*ssa.Function]*Flow
	sigT    types.Type
	nonNilP map[*ssa.Parameter]bool // parameters proven non-nil at every call site
	sites   map[*ssa.Parameter][]nilSite
	entry   map[*ssa.Function]bool // entry points: their message parameter is non-nil (decoded by gorums)
}

func (na *nilAnalysis) flow(fn *ssa.Function) *Flow {
	if f, ok := na.flows[fn]; ok {
		return f
	}
	f := NewFlowOpt(na.p, fn, true)
	na.flows[fn] = f
	return f
}

func (na *nilAnalysis) isSig(t types.Type) bool { return types.Identical(t, na.sigT) }

func isPbPtr(t types.Type) bool {
	pt, ok := t.Underlying().(*types.Pointer)
	if !ok {
		return false
	}
	n, ok := types.Unalias(pt.Elem()).(*types.Named)
	if !ok || n.Obj().Pkg() == nil {
		return false
	}
	if _, isStruct := n.Underlying().(*types.Struct); !isStruct {
		return false
	}
	path := n.Obj().Pkg().Path()
	if !(strings.HasPrefix(path, modPath+"/internal/proto/") || path == "google.golang.org/protobuf/types/known/timestamppb") {
		return false
	}
	// generated messages have a ProtoReflect method
	for i := 0; i < n.NumMethods(); i++ {
		if n.Method(i).Name() == "ProtoReflect" {
			return true
		}
	}
	return false
}

// nonNil decides whether value v is provably non-nil just before instruction at.
func (na *nilAnalysis) nonNil(fn *ssa.Function, v ssa.Value, at ssa.Instruction, depth int) bool {
	if depth > 8 {
		return false
	}
	fl := na.flow(fn)
	key := fl.K.Key(v)
	facts := fl.At(at)
	if facts[neqFact(key, "nil")] {
		return true
	}
	switch x := v.(type) {
	case *ssa.MakeInterface:
		// an interface holding a nil pointer is "non-nil" for comparisons but panics on use:
		// the wrapped pointer itself has to be non-nil
		if _, isPtr := x.X.Type().Underlying().(*types.Pointer); isPtr {
			return na.nonNil(fn, x.X, at, depth+1)
		}
		return true
	case *ssa.Alloc, *ssa.MakeClosure, *ssa.Function, *ssa.MakeMap, *ssa.MakeSlice, *ssa.FieldAddr, *ssa.IndexAddr:
		return true // addresses of locals, fields and elements are never nil (a nil base is a separate sink)
	case *ssa.Const:
		return !x.IsNil()
	case *ssa.Parameter:
		return na.nonNilP[x]
	case *ssa.FreeVar:
		return false
	case *ssa.Phi:
		for i, e := range x.Edges {
			pred := x.Block().Preds[i]
			if !fl.Reachable(pred) {
				continue
			}
			// facts of the delivering edge
			ef := fl.AtEdge(pred, x.Block())
			if ef[neqFact(fl.K.Key(e), "nil")] {
				continue
			}
			last := pred.Instrs[len(pred.Instrs)-1]
			if !na.nonNil(fn, e, last, depth+1) {
				return false
			}
		}
		return true
	case *ssa.ChangeInterface:
		return na.nonNil(fn, x.X, at, depth+1)
	case *ssa.ChangeType:
		return na.nonNil(fn, x.X, at, depth+1)
	case *ssa.Extract:
		if _, ok := x.Tuple.(*ssa.Next); ok {
			return true // elements of decoded repeated / map fields are never nil (protobuf)
		}
		if call, ok := x.Tuple.(*ssa.Call); ok {
			// (value, err) results: non-nil when err == nil is known and the callee returns non-nil with nil errors
			res := call.Call.Signature().Results()
			// tail call `return f(...)`: success of this function is success of f
			if r, isRet := at.(*ssa.Return); isRet && res.Len() == 2 && len(r.Results) == 2 {
				if e1, ok1 := r.Results[1].(*ssa.Extract); ok1 && e1.Tuple == call && x.Index == 0 {
					return na.calleeNonNilOnSuccess(call)
				}
			}
			if res.Len() == 2 && res.At(1).Type().String() == "error" && x.Index == 0 {
				if facts[eqFact(fl.K.Key(call)+"#1", "nil")] {
					return na.calleeNonNilOnSuccess(call)
				}
			}
			if res.Len() == 2 && res.At(1).Type().String() == "bool" && x.Index == 0 {
				// (value, ok): non-nil under ok for map-backed lookups of stored blocks
				if facts[Fact{"true", fl.K.Key(call) + "#1", ""}] {
					return true
				}
			}
		}
		if ta, ok := x.Tuple.(*ssa.TypeAssert); ok && x.Index == 0 {
			return facts[Fact{"true", fl.K.Key(ta) + "#1", ""}]
		}
		if lk, ok := x.Tuple.(*ssa.Lookup); ok && x.Index == 0 {
			return facts[Fact{"true", fl.K.Key(lk) + "#1", ""}]
		}
	case *ssa.Call:
		if cal := x.Call.StaticCallee(); cal != nil {
			return na.alwaysNonNil(cal, 0)
		}
	case *ssa.Next:
		return true
	case *ssa.TypeAssert:
		return !x.CommaOk // a successful single-result assertion yields a non-nil interface (or panics; listed under C10.2)
	case *ssa.UnOp:
		// load from a local that holds a spilled non-nil value
		if a, ok := x.X.(*ssa.Alloc); ok {
			if sv, ok := fl.K.spill[a]; ok {
				return na.nonNil(fn, sv, at, depth+1)
			}
		}
		// element of a decoded repeated field
		if _, ok := x.X.(*ssa.IndexAddr); ok && isPbPtr(x.Type()) {
			return true
		}
		// captured variable of the enclosing function
		if fv, ok := x.X.(*ssa.FreeVar); ok {
			return na.freeVarNonNil(fn, fv, depth)
		}
	}
	return false
}

// freeVarNonNil: the captured variable holds a value that was non-nil when the closure
// was created (read-only captures of spilled parameters / locals).
func (na *nilAnalysis) freeVarNonNil(cl *ssa.Function, fv *ssa.FreeVar, depth int) bool {
	parent := cl.Parent()
	if parent == nil {
		return false
	}
	idx := -1
	for i, f := range cl.FreeVars {
		if f == fv {
			idx = i
		}
	}
	res := false
	eachInstr(parent, func(in ssa.Instruction) {
		mc, ok := in.(*ssa.MakeClosure)
		if !ok || mc.Fn != cl || idx < 0 || idx >= len(mc.Bindings) {
			return
		}
		a, ok := mc.Bindings[idx].(*ssa.Alloc)
		if !ok {
			return
		}
		if sv, ok := na.flow(parent).K.spill[a]; ok {
			res = na.nonNil(parent, sv, in, depth+1)
		}
	})
	return res
}

var alwaysNN = map[*ssa.Function]int{}

// alwaysNonNil: every return of the (module) function yields a non-nil first result.
func (na *nilAnalysis) alwaysNonNil(fn *ssa.Function, depth int) bool {
	if v, ok := alwaysNN[fn]; ok {
		return v == 1
	}
	if fn.Blocks == nil || !inModule(funcPkgPath(fn)) || depth > 3 {
		// library constructors
		switch fn.String() {
		case "google.golang.org/protobuf/types/known/timestamppb.New":
			return true
		}
		return false
	}
	alwaysNN[fn] = 0
	ok := true
	for _, r := range returnsOf(fn) {
		if len(r.Results) == 0 {
			ok = false
			break
		}
		if !na.nonNil(fn, retValue(r, 0), r, depth+5) {
			ok = false
		}
	}
	if ok {
		alwaysNN[fn] = 1
	}
	return ok
}

// calleeNonNilOnSuccess: for a call returning (value, error): all possible callees
// return a non-nil value whenever they return a nil error.
func (na *nilAnalysis) calleeNonNilOnSuccess(call *ssa.Call) bool {
	var callees []*ssa.Function
	if call.Call.IsInvoke() {
		callees = modSetsOf(na.p).implsOfCall(&call.Call)
	} else if cal := call.Call.StaticCallee(); cal != nil {
		callees = []*ssa.Function{cal}
	}
	if len(callees) == 0 {
		return false
	}
	for _, cal := range callees {
		if cal.Blocks == nil || !inModule(funcPkgPath(cal)) {
			return false
		}
		if v, ok := succNN[cal]; ok {
			if v == 0 {
				return false
			}
			continue // proven, or in progress (co-inductive assumption for delegating wrappers)
		}
		succNN[cal] = 2
		fl := na.flow(cal)
		ok := true
		for _, e := range successExits(fl, 1) {
			if !na.nonNil(cal, retValue(e.Ret, 0), e.Ret, 6) {
				ok = false
				if os.Getenv("HSVERIF_DEBUG") != "" {
					fmt.Fprintln(os.Stderr, "  exit", na.p.Pos(e.Ret.Pos()), "value", fl.K.Key(retValue(e.Ret, 0)), "err", fl.K.Key(retValue(e.Ret, 1)))
				}
			}
		}
		if ok {
			succNN[cal] = 1
		} else {
			succNN[cal] = 0
			if os.Getenv("HSVERIF_DEBUG") != "" {
				fmt.Fprintln(os.Stderr, "calleeNonNilOnSuccess fails for", cal)
			}
			return false
		}
	}
	return true
}

var succNN = map[*ssa.Function]int{}

type nilSite struct {
	caller *ssa.Function
	instr  ssa.CallInstruction
	arg    ssa.Value
}

// origin follows a possibly-nil parameter back to the call sites that pass the possibly-nil
// value, so that a finding is attributed to the expression that produces the value (and keeps
// its identity when the dereference is moved into a helper).
func (na *nilAnalysis) origin(fn *ssa.Function, v ssa.Value, at ssa.Instruction, depth int) (*ssa.Function, ssa.Value, ssa.Instruction) {
	prm, ok := v.(*ssa.Parameter)
	if !ok || depth > 4 {
		return fn, v, at
	}
	for _, s := range na.sites[prm] {
		if !na.nonNil(s.caller, s.arg, s.instr, 0) {
			return na.origin(s.caller, s.arg, s.instr, depth+1)
		}
	}
	return fn, v, at
}

// solveParams: a parameter is non-nil if every call site in scope passes a non-nil value.
func (na *nilAnalysis) solveParams(relevant func(types.Type) bool) {
	type site = nilSite
	sites := map[*ssa.Parameter][]site{}
	na.sites = sites
	unknownCaller := map[*ssa.Parameter]bool{}
	for fn := range na.scope {
		eachInstr(fn, func(in ssa.Instruction) {
			ci, ok := in.(ssa.CallInstruction)
			if !ok {
				return
			}
			cc := ci.Common()
			var callees []*ssa.Function
			off := 0
			if cc.IsInvoke() {
				callees = modSetsOf(na.p).implsOfCall(cc)
				off = 1
			} else if cal := cc.StaticCallee(); cal != nil {
				callees = []*ssa.Function{cal}
			}
			for _, cal := range callees {
				if !na.scope[cal] {
					continue
				}
				for i, a := range cc.Args {
					pi := i + off
					if pi >= len(cal.Params) || !relevant(cal.Params[pi].Type()) {
						continue
					}
					sites[cal.Params[pi]] = append(sites[cal.Params[pi]], site{fn, ci, a})
				}
			}
		})
	}
	// parameters of entry points / handlers / functions referenced as values have unknown callers
	for fn := range na.scope {
		for _, prm := range fn.Params {
			if !relevant(prm.Type()) {
				continue
			}
			if na.entry[fn] {
				continue
			}
			if len(sites[prm]) == 0 {
				unknownCaller[prm] = true
			}
		}
	}
	// optimistic start, then remove until stable (greatest fixpoint)
	for fn := range na.scope {
		for _, prm := range fn.Params {
			if relevant(prm.Type()) && !unknownCaller[prm] {
				na.nonNilP[prm] = true
			}
		}
	}
	for changed := true; changed; {
		changed = false
		for prm, ss := range sites {
			if !na.nonNilP[prm] {
				continue
			}
			for _, s := range ss {
				if !na.nonNil(s.caller, s.arg, s.instr, 0) {
					delete(na.nonNilP, prm)
					changed = true
					break
				}
			}
		}
		alwaysNN = map[*ssa.Function]int{}
		succNN = map[*ssa.Function]int{}
	}
}

func checkC10(c *Ctx) {
	p := c.P
	c.Decided = "on everything reachable from the replica-to-replica entry points (gorums service methods, the block-fetch quorum function, the event handlers for proposals, votes, timeouts, new-view messages and tree contributions): " +
		"every method invocation on a signature value and every direct field access through a wire-message pointer that can be nil because a peer left a field out is dominated by a nil test on that value; " +
		"every explicit panic and unchecked type assertion reachable there is on the reviewed exemption list; every service handler stops when the peer's identity cannot be established before using it; " +
		"the protocol-state mutators are reached only after the triggering message verified (imported from C03, C07, C08, C09)."
	c.NotDec = "index-out-of-range and division by zero on configuration-derived values; panics inside dependencies (gorums, protobuf, bls12-381); resource exhaustion by large messages."
	c.Expect("C10.1", 20)

	c10DecodedElements(c)
	roots, handlers := receiveRoots(p)
	if len(roots) < 9 {
		c.Unresolved("C10.1", "entry points", "expected at least 9 network entry points, found "+itoa(len(roots)))
	}
	scope := p.reachableFrom(roots)
	c.Stat("entry_points", len(roots))
	c.Stat("functions_in_scope", len(scope))
	na := &nilAnalysis{p: p, scope: scope, flows: map[*ssa.Function]*Flow{}, sigT: namedType(p, "", "QuorumSignature"),
		nonNilP: map[*ssa.Parameter]bool{}, entry: map[*ssa.Function]bool{}}
	for _, r := range roots {
		na.entry[r] = true
		// the decoded request message handed to a service method is never nil
		for _, prm := range r.Params {
			if isPbPtr(prm.Type()) {
				na.nonNilP[prm] = true
			}
		}
	}
	relevant := func(t types.Type) bool { return na.isSig(t) || isPbPtr(t) }
	na.solveParams(relevant)
	for _, r := range roots {
		for _, prm := range r.Params {
			if isPbPtr(prm.Type()) {
				na.nonNilP[prm] = true
			}
		}
	}

	// sinks
	type finding struct{ fn, pos, what string }
	per := map[string][]finding{}
	count := map[string]int{}
	var fnNames []string
	for fn := range scope {
		if p.isGenerated(fn) {
			continue
		}
		name := shortName(fn)
		eachInstr(fn, func(in ssa.Instruction) {
			switch x := in.(type) {
			case ssa.CallInstruction:
				cc := x.Common()
				if cc.IsInvoke() && na.isSig(cc.Value.Type()) {
					count[name]++
					if !na.nonNil(fn, cc.Value, in, 0) {
						ofn, ov, oat := na.origin(fn, cc.Value, in, 0)
						oname := shortName(ofn)
						if _, seen := count[oname]; !seen {
							count[oname] = 1
							fnNames = append(fnNames, oname)
						}
						per[oname] = append(per[oname], finding{oname, p.InstrPos(oat), "method " + cc.Method.Name() + " invoked on signature " + shortVal(na.flow(ofn).K.Key(ov)) + " which may be nil"})
					}
				}
			case *ssa.MakeInterface:
				// typed nil: a nil pointer wrapped into a signature interface defeats every `sig != nil` guard downstream
				if _, isPtr := x.X.Type().Underlying().(*types.Pointer); isPtr && (na.isSig(x.Type()) || strings.HasSuffix(x.Type().String(), "hotstuff.IDSet")) {
					count[name]++
					if !na.nonNil(fn, x.X, in, 0) {
						per[name] = append(per[name], finding{name, p.InstrPos(in), "possibly nil pointer " + shortVal(na.flow(fn).K.Key(x.X)) + " converted to the " + shorten(x.Type().String()) + " interface (a typed nil passes every `!= nil` guard and panics on first use)"})
					}
				}
			case *ssa.SliceToArrayPointer:
				// slice-to-array conversion panics when the slice is shorter than the array
				count[name]++
				fl := na.flow(fn)
				want := ""
				if pt, ok := x.Type().Underlying().(*types.Pointer); ok {
					if at, ok := pt.Elem().Underlying().(*types.Array); ok {
						want = "c:" + itoa(int(at.Len()))
					}
				}
				lenOf := func(k string) bool { return strings.HasPrefix(k, "builtin len("+fl.K.Key(x.X)+")") }
				facts := fl.At(in)
				if !(hasCmp(facts, "==", lenOf, is(want)) || hasCmp(facts, "<=", is(want), lenOf)) {
					per[name] = append(per[name], finding{name, p.InstrPos(in), "slice " + shortVal(fl.K.Key(x.X)) + " converted to an array of length " + strings.TrimPrefix(want, "c:") + " without a length check (panics for a shorter slice)"})
				}
			case *ssa.FieldAddr:
				if isPbPtr(x.X.Type()) {
					if rootAlloc(x) != nil {
						return // a message being built locally
					}
					count[name]++
					if !na.nonNil(fn, x.X, in, 0) {
						per[name] = append(per[name], finding{name, p.InstrPos(in), "field " + fieldVar(x.X.Type(), x.Field).Name() + " accessed through wire message pointer " + shortVal(na.flow(fn).K.Key(x.X)) + " which may be nil"})
					}
				}
			}
		})
		if count[name] > 0 {
			fnNames = append(fnNames, name)
		}
	}
	sort.Strings(fnNames)
	fnNames = slices.Compact(fnNames)
	for _, name := range fnNames {
		fs := per[name]
		if len(fs) == 0 {
			c.Held("C10.1", name, "-", "all "+itoa(count[name])+" dereferences of possibly-absent wire values are dominated by a nil test (or the value is provably present)")
			continue
		}
		seenF := map[string]bool{}
		for _, f := range fs {
			if seenF[f.what] {
				continue
			}
			seenF[f.what] = true
			c.Violated("C10.1", name+": "+f.what, f.pos, f.what+": a peer that leaves this part of the message out crashes the replica here")
		}
	}

	// C10.2 explicit panics and unchecked assertions in scope
	c10Panics(c, scope)

	// C10.3 identity errors stop the handler
	for _, h := range handlers {
		if h.Name() == "RequestBlock" {
			continue
		}
		fl := NewFlow(p, h)
		var idCall ssa.CallInstruction
		for _, s := range callsIn(h, false, func(cc *ssa.CallCommon) bool {
			cal := cc.StaticCallee()
			return cal != nil && cal.Name() == "PeerIDFromContext"
		}) {
			idCall = s
		}
		okFact := func(fs FactSet, ck string) bool { return fs[eqFact(ck+"#1", "nil")] }
		if idCall == nil {
			// the identity may be established by a private helper of the package: (id, ok) / (id, err) with the id of
			// PeerIDFromContext on its success outcome only
			for _, s := range callsIn(h, false, func(cc *ssa.CallCommon) bool {
				hf := cc.StaticCallee()
				if hf == nil || hf.Blocks == nil || funcPkgPath(hf) != funcPkgPath(h) || hf.Signature.Results().Len() != 2 {
					return false
				}
				var inner ssa.CallInstruction
				for _, s2 := range callsIn(hf, false, func(c2 *ssa.CallCommon) bool {
					cal := c2.StaticCallee()
					return cal != nil && cal.Name() == "PeerIDFromContext"
				}) {
					inner = s2
				}
				if inner == nil {
					return false
				}
				hfl := NewFlow(p, hf)
				ik := hfl.K.Key(inner.Value())
				isBool := types.Identical(hf.Signature.Results().At(1).Type(), types.Typ[types.Bool])
				for _, r := range returnsOf(hf) {
					v1 := retValue(r, 1)
					success := isBool && !isBoolConst(v1, false) || !isBool && !knownNonNilError(v1)
					if !success {
						continue
					}
					if hfl.K.Key(retValue(r, 0)) != ik+"#0" || !hfl.At(r)[eqFact(ik+"#1", "nil")] {
						return false
					}
				}
				return true
			}) {
				idCall = s
				if types.Identical(s.Common().StaticCallee().Signature.Results().At(1).Type(), types.Typ[types.Bool]) {
					okFact = func(fs FactSet, ck string) bool { return fs[Fact{"true", ck + "#1", ""}] }
				}
			}
		}
		if idCall == nil {
			c.Violated("C10.3", "serviceImpl."+h.Name(), p.FuncPos(h), "the handler does not establish the peer's identity")
			continue
		}
		ck := fl.K.Key(idCall.Value())
		var bad []string
		nUse := 0
		eachInstr(h, func(in ssa.Instruction) {
			for _, op := range in.Operands(nil) {
				if op == nil || *op == nil {
					continue
				}
				if fl.K.Key(*op) == ck+"#0" {
					if _, isExtract := in.(*ssa.Extract); isExtract {
						continue
					}
					if _, isPhi := in.(*ssa.Phi); isPhi {
						continue
					}
					nUse++
					if !okFact(fl.At(in), ck) {
						bad = append(bad, p.InstrPos(in))
					}
				}
			}
		})
		c.Check(len(bad) == 0 && nUse > 0, "C10.3", "serviceImpl."+h.Name()+": stops when the peer id is unknown", p.FuncPos(h),
			"all "+itoa(nUse)+" uses of the peer id are dominated by PeerIDFromContext's error being nil",
			"the id is used at "+join(bad)+" although PeerIDFromContext may have failed (the message is processed under id 0)")
	}

	// C10.3 (Kauri): the proposer id taken from a relayed proposal must be a configured replica before it is used
	if pr := p.Method("server", "serviceImpl", "Propose"); pr != nil {
		fl := NewFlow(p, pr)
		var bad []string
		n := 0
		for _, s := range callsIn(pr, false, func(cc *ssa.CallCommon) bool {
			cal := cc.StaticCallee()
			return cal != nil && (cal.Name() == "addNetworkDelay" || cal.Name() == "AddEvent")
		}) {
			n++
			facts := fl.At(s)
			okKauri := falseOf(facts, func(k string) bool { return strings.HasPrefix(k, "(*hs/core.RuntimeConfig).HasKauriTree(") }) ||
				trueOf(facts, func(k string) bool {
					return strings.HasPrefix(k, "(*hs/core.RuntimeConfig).ReplicaInfo(") && isCarriedProposerKey(k) && strings.HasSuffix(k, "#1")
				})
			// path-sensitive alternative: no path from the "HasKauriTree is true" edge reaches the use without the ReplicaInfo ok edge
			if !okKauri {
				closes := func(fs []Fact) bool {
					for _, f := range fs {
						if f.Op == "false" && strings.HasPrefix(f.L, "(*hs/core.RuntimeConfig).HasKauriTree(") {
							return true
						}
						if f.Op == "true" && strings.HasPrefix(f.L, "(*hs/core.RuntimeConfig).ReplicaInfo(") && strings.HasSuffix(f.L, "#1") {
							return true
						}
					}
					return false
				}
				// (the two ways may be the two accepting returns of a private helper that reports the proposer: its
				// verdict is closed when each of its accepting paths crosses one of the two edges)
				if openPathTo(fl, s, closes) == "" {
					continue
				}
				w := cfgSearch(fl, nil, pr.Blocks[0], func(in ssa.Instruction) bool { return in == ssa.Instruction(s) }, nil, func(fs []Fact) bool {
					for _, f := range fs {
						if f.Op == "false" && strings.HasPrefix(f.L, "(*hs/core.RuntimeConfig).HasKauriTree(") {
							return true
						}
						if f.Op == "true" && strings.HasPrefix(f.L, "(*hs/core.RuntimeConfig).ReplicaInfo(") && strings.HasSuffix(f.L, "#1") {
							return true
						}
					}
					return false
				})
				if w != nil {
					bad = append(bad, p.InstrPos(s))
				}
			}
		}
		c.Check(len(bad) == 0 && n > 0, "C10.3", "serviceImpl.Propose: a relayed proposal's proposer id is a configured replica", p.FuncPos(pr),
			"every use of the id on the Kauri path is preceded by a successful ReplicaInfo lookup", "message-derived proposer id used unchecked at "+join(bad))
	}

	// C10.4 state mutators only after verification
	c10CommaOkBlocks(c)
	c.importFrom(checkC03, "C10.4", "C03.3", "C03.4", "C03.5")
	c.importFrom(checkC07, "C10.4", "C07.4", "C07.5")
	c.importFrom(checkC08, "C10.4", "C08.1")
	c.importFrom(checkC09, "C10.4", "C09.1", "C09.7")
	c.importFrom(checkC11, "C10.4", "C11.2", "C11.4")
}

// c10Panics lists explicit panics and single-result type assertions reachable from
// the entry points; each must be on the exemption list (one construct, one reason).
func c10Panics(c *Ctx, scope map[*ssa.Function]bool) {
	p := c.P
	exempt := map[string]string{
		"(*hs/internal/proto/clientpb.Batch).Marshal":                          "deterministic marshalling of an already decoded batch cannot fail",
		"(hs/security/crypto.Multi[*hs/security/crypto.ECDSASignature]).Add":   "IDSet.Add is never called on a signature's participant set on the receive path (no caller in scope)",
		"(hs/security/crypto.Multi[*hs/security/crypto.EDDSASignature]).Add":   "as above",
		"(*hs/security/crypto.ECDSA).privateKey":                               "assertion on the replica's own configured key",
		"(*hs/security/crypto.EDDSA).privateKey":                               "assertion on the replica's own configured key",
		"(*hs/security/crypto.bls12Base).privateKey":                           "assertion on the replica's own configured key",
		"(*hs/security/crypto.ECDSA).verifySingle":                             "assertion on the configured public key of a known replica",
		"(*hs/security/crypto.EDDSA).verifySingle":                             "assertion on the configured public key of a known replica",
		"(*hs/security/crypto.bls12Base).checkPop":                             "assertion on the configured public key of a known replica (publicKey checked the type first)",
		"(*hs/security/crypto.bls12Base).popProve":                             "assertion on the replica's own key",
		"(*hs/security/cert.Cache).evict":                                      "assertion on a value the cache itself stored",
		"hs/core/eventloop.Register":                                           "the event loop dispatches by reflect.Type, so the assertion to T cannot fail",
		"(*hs/core/eventloop.pool[[]hs/core/eventloop.EventHandler[any]]).Get": "assertion on a value the pool itself stored (sync.Pool with a typed New)",
		"(*hs/protocol/leaderrotation.RepBased).GetLeader":                     "assertions on wr.Choice items that the same function stored as hotstuff.ID",
		"(*hs/twins.emulatedSender).sendMessage":                               "test-network emulator of the twins package, not a production transport; it panics on a harness programming error",
		"(hs/internal/latency.Matrix).Location":                                "experiment latency emulation; documented to panic for ids outside the configuration, and reached only with ids of configured replicas (C10.3)",
	}
	type site struct{ fn, pos, kind string }
	var sites []site
	structural := map[string]string{} // fn|pos -> reason, for assertions exempt by what they assert
	for fn := range scope {
		if p.isGenerated(fn) {
			continue
		}
		eachInstr(fn, func(in ssa.Instruction) {
			switch x := in.(type) {
			case *ssa.Panic:
				if cst, ok := x.X.(*ssa.MakeInterface); ok {
					if k, ok := cst.X.(*ssa.Const); ok && k.Value != nil && strings.Contains(k.Value.ExactString(), "blocking select matched no case") {
						return // compiler-generated, unreachable
					}
					// the state checks go/ssa emits for a range-over-func loop (`for x := range set.RangeWhile`): they have no
					// source position and fire only if the iterator misuses its yield function, which the iterators of the
					// module (called synchronously, yield never retained) do not
					if k, ok := cst.X.(*ssa.Const); ok && k.Value != nil && !x.Pos().IsValid() &&
						(strings.Contains(k.Value.ExactString(), "iterator call did not preserve panic") || strings.Contains(k.Value.ExactString(), "yield function called after range loop exit")) {
						return
					}
				}
				sites = append(sites, site{shortName(declaredParent(fn)), p.InstrPos(in), "panic"})
			case *ssa.TypeAssert:
				if !x.CommaOk {
					// exemptions by what is asserted, so that they follow the construct when it moves to another function:
					// values the component stored itself under that type
					k := NewKeyer(p, fn).Key(x.X)
					for _, pat := range []struct{ sub, why string }{
						{"(*container/list.List).Remove(", "assertion on a value the cache itself stored in its recency list"},
						{"container/list.Element.Value", "assertion on a value the cache itself stored in its recency list"},
						{"weightedrand", "assertion on a weightedrand choice item that the leader rotation stored as hotstuff.ID"},
						{".PickSource(", "assertion on a weightedrand choice item that the leader rotation stored as hotstuff.ID"},
						{"(*sync.Pool).Get(", "assertion on a value the pool itself stored (sync.Pool with a typed New)"},
						{"hs.ReplicaInfo.PubKey", "assertion on the configured public key of a known replica (local configuration, not peer input)"},
					} {
						if strings.Contains(k, pat.sub) {
							structural[shortName(declaredParent(fn))+"|"+p.InstrPos(in)] = pat.why
						}
					}
					sites = append(sites, site{shortName(declaredParent(fn)), p.InstrPos(in), "unchecked type assertion to " + shorten(x.AssertedType.String())})
				}
			}
		})
	}
	sort.Slice(sites, func(i, j int) bool { return sites[i].fn+sites[i].pos < sites[j].fn+sites[j].pos })
	seen := map[string]bool{}
	for _, s := range sites {
		key := s.fn
		if o := strings.Index(key, "["); o > 0 && strings.HasPrefix(key, "hs/core/eventloop.Register") {
			key = "hs/core/eventloop.Register"
		}
		if seen[key+s.kind] {
			continue
		}
		seen[key+s.kind] = true
		if reason, ok := exempt[key]; ok {
			c.Exempt("C10.2", key+": "+s.kind, s.pos, reason)
			continue
		}
		if reason, ok := structural[s.fn+"|"+s.pos]; ok && s.kind != "panic" {
			c.Exempt("C10.2", key+": "+s.kind, s.pos, reason)
			continue
		}
		c.Violated("C10.2", key+": "+s.kind, s.pos, s.kind+" reachable from a network entry point and not on the reviewed exemption list")
	}
	c.Stat("panic_sites", len(sites))
}

// c10CommaOkBlocks (C10.5): a block obtained from a (block, found) look-up of the block store is used
// only where found is known to be true. The look-ups are driven by hashes that peers choose (the
// parent and certificate hash of a proposal, the hash of a vote), so "not found" is an input a
// peer controls; the nil block that comes with it must not reach a dereference. Uses checked: the
// block as receiver or argument of a call, and field access; passing both results on (return,
// phi, store into a local that is re-tested) is not a use.
func c10CommaOkBlocks(c *Ctx) {
	p := c.P
	blockPtr := "*" + modPath + ".Block"
	n := 0
	for _, fn := range p.ModFuncs {
		if fn.Blocks == nil || strings.HasSuffix(p.FuncPos(fn), "_test.go") || strings.Contains(funcPkgPath(fn), "/twins") || strings.Contains(funcPkgPath(fn), "/internal/testutil") {
			continue
		}
		if fn.Origin() != nil && fn.Origin() != fn {
			continue
		}
		var fl *Flow
		eachInstr(fn, func(in ssa.Instruction) {
			ex, ok := in.(*ssa.Extract)
			if !ok || ex.Index != 0 || ex.Type().String() != blockPtr {
				return
			}
			call, ok := ex.Tuple.(*ssa.Call)
			if !ok {
				return
			}
			tup, ok := call.Type().(*types.Tuple)
			if !ok || tup.Len() != 2 || !types.Identical(tup.At(1).Type(), types.Typ[types.Bool]) {
				return
			}
			if fl == nil {
				fl = NewFlow(p, fn)
			}
			okKey := fl.K.Key(call) + "#1"
			var bad []string
			nUse := 0
			type visit struct {
				v   ssa.Value
				key string
			}
			seen := map[visit]bool{}
			var uses func(v ssa.Value, okKey string)
			uses = func(v ssa.Value, okKey string) {
				if seen[visit{v, okKey}] || v.Referrers() == nil {
					return
				}
				seen[visit{v, okKey}] = true
				for _, r := range *v.Referrers() {
					deref := false
					switch x := r.(type) {
					case ssa.CallInstruction:
						deref = true
					case *ssa.FieldAddr, *ssa.Field:
						deref = true
					case *ssa.UnOp:
						deref = x.Op == token.MUL
					case *ssa.Phi:
						// the value merges with others: fine if on the edge it comes in on the look-up is known to have
						// succeeded; otherwise the merged value is judged at its uses against the flag that is merged
						// alongside it (`for ok && ... { cur, ok = Get(...) }`)
						safe := true
						for i, e := range x.Edges {
							if e != v {
								continue
							}
							ef := fl.AtEdge(x.Block().Preds[i], x.Block())
							if !ef[Fact{"true", okKey, ""}] && !notNilOf(ef, is(fl.K.Key(v))) {
								safe = false
							}
						}
						if safe {
							continue
						}
						partner := ""
						for _, in2 := range x.Block().Instrs {
							fp, isPhi := in2.(*ssa.Phi)
							if !isPhi || fp == x || !types.Identical(fp.Type(), types.Typ[types.Bool]) {
								continue
							}
							match := true
							for i, e := range x.Edges {
								if e == v && fl.K.Key(fp.Edges[i]) != okKey {
									match = false
								}
							}
							if match {
								partner = fl.K.Key(fp)
							}
						}
						if partner == "" {
							bad = append(bad, p.InstrPos(x)+" (merged without its flag)")
							continue
						}
						uses(x, partner)
						continue
					case *ssa.MakeInterface, *ssa.ChangeType:
						if val, ok := r.(ssa.Value); ok {
							uses(val, okKey)
						}
						continue
					}
					if !deref {
						continue
					}
					// logging a possibly-nil block is harmless
					if ci, ok := r.(ssa.CallInstruction); ok && ci.Common().IsInvoke() && strings.Contains(ci.Common().Value.Type().String(), "logging.Logger") {
						continue
					}
					nUse++
					facts := fl.At(r)
					if !facts[Fact{"true", okKey, ""}] && !notNilOf(facts, is(fl.K.Key(v))) {
						bad = append(bad, p.InstrPos(r))
					}
				}
			}
			uses(ex, okKey)
			if nUse == 0 && len(bad) == 0 {
				return
			}
			n++
			c.Check(len(bad) == 0, "C10.5", shortName(fn)+": "+shortVal(fl.K.Key(call))+" used only when found", p.InstrPos(call),
				itoa(nUse)+" use(s) of the looked-up block, all under found == true (or a nil test)",
				"the block returned by the look-up is used at "+join(bad)+" where the look-up may have failed (nil block): a peer that names a block nobody has crashes the replica there")
		})
	}
	if n < 8 {
		c.Unresolved("C10.5", "block look-ups", "expected at least 8 (block, found) look-ups whose block is used; found "+itoa(n))
	}
}

// c10DecodedElements (C10.6): the decoders build collections of signatures element by element from what the peer sent; the
// methods of those collections (Participants, ToBytes, Verify) call methods on every element without a nil test, so an
// element must never be nil. Rule: in the wire decoders (functions of internal/proto/hotstuffpb named ...FromProto) a
// pointer stored as an element of a slice is either the address of a fresh value, or the result of a module function that
// has no nil return, or is stored only under a nil test of that value.
func c10DecodedElements(c *Ctx) {
	p := c.P
	n := 0
	var bad []string
	for _, fn := range p.ModFuncs {
		if funcPkgPath(fn) != modPath+"/internal/proto/hotstuffpb" || !strings.HasSuffix(fn.Name(), "FromProto") {
			continue
		}
		var fl *Flow
		eachInstr(fn, func(in ssa.Instruction) {
			st, ok := in.(*ssa.Store)
			if !ok {
				return
			}
			if _, ok := st.Addr.(*ssa.IndexAddr); !ok {
				return
			}
			if _, isPtr := st.Val.Type().Underlying().(*types.Pointer); !isPtr {
				return
			}
			call, ok := st.Val.(*ssa.Call)
			if !ok {
				return
			}
			cal := call.Call.StaticCallee()
			if cal == nil || cal.Blocks == nil || !inModule(funcPkgPath(cal)) {
				return
			}
			n++
			var nilRet []string
			for _, r := range returnsOf(cal) {
				if len(r.Results) > 0 && isNilConst(r.Results[0]) {
					nilRet = append(nilRet, p.InstrPos(r))
				}
			}
			if len(nilRet) == 0 {
				return
			}
			if fl == nil {
				fl = NewFlow(p, fn)
			}
			if notNilOf(fl.At(in), is(fl.K.Key(call))) {
				return
			}
			bad = append(bad, p.InstrPos(in)+" in "+shortName(fn)+": element = "+shortName(cal)+"(…), which returns nil at "+join(nilRet))
		})
	}
	if n == 0 {
		c.Unresolved("C10.6", "wire decoders: elements of decoded signature lists", "no element built by a module function found in the ...FromProto decoders")
		return
	}
	c.Check(len(bad) == 0, "C10.6", "wire decoders: no nil element in a decoded collection", "internal/proto/hotstuffpb",
		itoa(n)+" element stores in the decoders take the result of a module function that never returns nil",
		"a decoded collection can hold a nil element: "+join(bad)+" (Participants/ToBytes/Verify call methods on every element: a peer that sends such an entry crashes the replica)")
}
