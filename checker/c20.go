package main

import (
	"go/token"
	"math/big"
	"strings"

	"golang.org/x/tools/go/ssa"
)

func init() { register("C20", checkC20) }

func checkC20(c *Ctx) {
	p := c.P
	c.Decided = "the quorum arithmetic in closed form for every n >= 1 (n < 2^52): from the SSA expression trees of NumFaulty and QuorumSize, for each residue class n = 6k + r, 3f < n <= 3f+3, 2q - n >= f + 1, q <= n - f, and minimality 2(q-1) - n < f + 1; " +
		"and that every component that forms or checks certificates compares participant counts with RuntimeConfig.QuorumSize(), which is hotstuff.QuorumSize(len(replicas)); no other threshold constant or formula is compared with a participant count there."
	c.Decided += " The timeout collector's quorum is counted over the timeouts of one view (C08.3); every accepting exit of the certificate verifiers is dominated by the threshold comparison, also for the block certificate of a proposal with an aggregate QC (C02.1, C02.7)."
	c.NotDec = "cluster sizes of 2^52 and above (float64 rounding in QuorumSize)."
	c.Assume = append(c.Assume, "n < 2^52 so that int->float64 conversion, division by 2.0 and math.Ceil are exact")
	c.Expect("C20.1", 24)
	c.Expect("C20.2", 8)
	// what the forming side counts: the timeout collector's quorum is over the timeouts of one view (C08.3)
	c.importFrom(checkC08, "C20.3", "C08.3")
	// what the checking side compares: every certificate a verifier accepts went through the threshold comparison
	// (C02.1), including the certificate of a proposal that also carries an aggregate QC (C02.7)
	c.importFrom(checkC02, "C20.4", "C02.1", "C02.4", "C02.6", "C02.7")
	// the forming side of votes: the voting machine and the Kauri aggregator emit at exactly QuorumSize() (C09.2, C09.7/threshold)
	c.importFrom(checkC09, "C20.5", "C09.2", "C09.7/threshold")
	// the count of a decoded bit field is what the thresholds are compared with (C19.2: recounted from the bytes)
	c.importFrom(checkC19, "C20.6", "C19.2")

	nf := p.Func("", "NumFaulty")
	qs := p.Func("", "QuorumSize")
	if nf == nil || qs == nil {
		c.Unresolved("C20.1", "NumFaulty/QuorumSize", "anchor missing")
	} else {
		for r := int64(0); r < 6; r++ {
			k0 := int64(0)
			if r == 0 {
				k0 = 1 // n >= 1
			}
			n := aff{big.NewRat(6, 1), big.NewRat(r, 1)}
			f, e1 := evalFuncAff(p, nf, k0, n)
			q, e2 := evalFuncAff(p, qs, k0, n)
			inst := "n=6k+" + itoa(int(r))
			if e1 != "" || e2 != "" {
				c.Undecided("C20.1", inst, p.FuncPos(qs), "expression outside the supported operator class: "+e1+" "+e2)
				continue
			}
			three := big.NewRat(3, 1)
			two := big.NewRat(2, 1)
			conds := []struct {
				id, name string
				form     aff
			}{
				{"f-lower", "3f < n", n.sub(f.scale(three)).sub(affConst(1))},
				{"f-upper", "n <= 3f+3 (f is the largest integer with 3f < n)", f.scale(three).add(affConst(3)).sub(n)},
				{"intersection", "2q - n >= f + 1 (two quorums share an honest replica)", q.scale(two).sub(n).sub(f).sub(affConst(1))},
				{"availability", "q <= n - f (honest replicas alone form a quorum)", n.sub(f).sub(q)},
				{"minimal", "2(q-1) - n < f + 1 (q is minimal)", n.add(f).add(affConst(2)).sub(q.scale(two))},
			}
			for _, cd := range conds {
				ok := cd.form.geqZero(k0)
				c.Check(ok, "C20.1/"+cd.id, inst, p.FuncPos(qs),
					"f = "+f.String()+", q = "+q.String()+" (k >= "+itoa(int(k0))+"): "+cd.name+" holds since "+cd.form.String()+" >= 0 for all k",
					"f = "+f.String()+", q = "+q.String()+": "+cd.name+" fails: "+cd.form.String()+" is negative for some k >= "+itoa(int(k0)))
			}
			// integrality of f and q
			c.Check(f.a.IsInt() && f.b.IsInt() && q.a.IsInt() && q.b.IsInt(), "C20.1/integral", inst, p.FuncPos(qs), "f and q are integers in this class", "non-integral form")
		}
	}

	// C20.2 threshold source
	cfgQ := p.Method("core", "RuntimeConfig", "QuorumSize")
	rc := p.Method("core", "RuntimeConfig", "ReplicaCount")
	if cfgQ == nil || rc == nil {
		c.Unresolved("C20.2", "RuntimeConfig.QuorumSize", "anchor missing")
	} else {
		fq := NewFlow(p, cfgQ)
		ok := false
		for _, r := range returnsOf(cfgQ) {
			k := fq.K.Key(r.Results[0])
			if k == "hs.QuorumSize((*hs/core.RuntimeConfig).ReplicaCount(p0))" || strings.HasPrefix(k, "hs.QuorumSize(builtin len(p0->hs/core.RuntimeConfig.replicas)") {
				ok = true
			}
		}
		c.Check(ok, "C20.2", "RuntimeConfig.QuorumSize = hotstuff.QuorumSize(ReplicaCount())", p.FuncPos(cfgQ), "returns hotstuff.QuorumSize(g.ReplicaCount())", "unexpected definition")
		fr := NewFlow(p, rc)
		ok = false
		for _, r := range returnsOf(rc) {
			if strings.HasPrefix(fr.K.Key(r.Results[0]), "builtin len(p0->hs/core.RuntimeConfig.replicas)") {
				ok = true
			}
		}
		c.Check(ok, "C20.2", "RuntimeConfig.ReplicaCount = len(replicas)", p.FuncPos(rc), "returns len(g.replicas), the configured membership", "unexpected definition")
	}
	sites := []struct{ rel, typ, fn string }{
		{"security/cert", "Authority", "VerifyQuorumCert"},
		{"security/cert", "Authority", "VerifyTimeoutCert"},
		{"security/cert", "Authority", "VerifyAggregateQC"},
		{"protocol/synchronizer", "timeoutCollector", "add"},
		{"protocol/votingmachine", "VotingMachine", "verifyCert"},
		{"protocol/comm", "Kauri", "mergeContribution"},
	}
	for _, s := range sites {
		fn := p.Method(s.rel, s.typ, s.fn)
		if fn == nil {
			c.Unresolved("C20.2", s.typ+"."+s.fn, "anchor missing")
			continue
		}
		nGood := 0
		var bad []string
		siteFns := map[*ssa.Function]bool{}
		for _, s2 := range sites {
			if f2 := p.Method(s2.rel, s2.typ, s2.fn); f2 != nil && f2 != fn {
				siteFns[f2] = true
			}
		}
		for _, hf := range helperClosure(p, fn, 2) {
			if siteFns[hf] {
				continue // another threshold site, checked on its own
			}
			fl := NewFlow(p, hf)
			eachInstr(hf, func(in ssa.Instruction) {
				b, ok := in.(*ssa.BinOp)
				if !ok {
					return
				}
				switch b.Op {
				case token.LSS, token.LEQ, token.GTR, token.GEQ:
				default:
					return
				}
				kx, ky := fl.K.Key(b.X), fl.K.Key(b.Y)
				lenOfVotes := map[string]bool{}
				for _, v := range []ssa.Value{b.X, b.Y} {
					if call, ok := v.(*ssa.Call); ok {
						if bi, ok := call.Call.Value.(*ssa.Builtin); ok && bi.Name() == "len" {
							ts := call.Call.Args[0].Type().String()
							if strings.Contains(ts, "TimeoutMsg") || strings.Contains(ts, "PartialCert") {
								lenOfVotes[fl.K.Key(v)] = true
							}
						}
					}
					// a counter of the timeouts / votes that pass a test while ranging over the collected ones
					// (`n := 0; for _, t := range s.timeouts { if t.View == v { n++ } }`): C08.3 ties it to the list that is returned
					if ph, ok := v.(*ssa.Phi); ok {
						if base := elementCounterBase(ph); base != nil {
							if ts := base.Type().String(); strings.Contains(ts, "TimeoutMsg") || strings.Contains(ts, "PartialCert") {
								lenOfVotes[fl.K.Key(v)] = true
							}
						}
					}
				}
				// a participant/vote/timeout count, or a parameter of a private helper that every caller binds to one
				// (`vm.quorumReached(len(votes))`)
				isCount := func(k string) bool {
					if strings.HasPrefix(k, kPartLen) || lenOfVotes[k] || strings.HasPrefix(k, "invoke (hs.IDSet).Len(") {
						return true
					}
					if hf == fn || len(k) < 2 || k[0] != 'p' {
						return false
					}
					idx := 0
					for _, ch := range k[1:] {
						if ch < '0' || ch > '9' {
							return false
						}
						idx = idx*10 + int(ch-'0')
					}
					callers := callIndexOf(p).callers[hf]
					if len(callers) == 0 || callIndexOf(p).asValue[hf] {
						return false
					}
					for _, r := range callers {
						ci, ok := r.Instr.(ssa.CallInstruction)
						if !ok || idx >= len(ci.Common().Args) {
							return false
						}
						a := ci.Common().Args[idx]
						ak := NewKeyer(p, r.In).Key(a)
						okA := strings.HasPrefix(ak, kPartLen) || strings.HasPrefix(ak, "invoke (hs.IDSet).Len(")
						if call, isCall := a.(*ssa.Call); isCall {
							if bi, isB := call.Call.Value.(*ssa.Builtin); isB && bi.Name() == "len" {
								ts := call.Call.Args[0].Type().String()
								okA = okA || strings.Contains(ts, "TimeoutMsg") || strings.Contains(ts, "PartialCert")
							}
						}
						if !okA {
							return false
						}
					}
					return true
				}
				// QuorumSize() itself, a local holding it, or a parameter of a private helper that every caller binds to it
				isQ := func(k string) bool {
					if strings.HasPrefix(k, kQuorumSize) {
						return true
					}
					if hf == fn || len(k) < 2 || k[0] != 'p' {
						return false
					}
					idx := 0
					for _, ch := range k[1:] {
						if ch < '0' || ch > '9' {
							return false
						}
						idx = idx*10 + int(ch-'0')
					}
					callers := callIndexOf(p).callers[hf]
					if len(callers) == 0 || callIndexOf(p).asValue[hf] {
						return false
					}
					for _, r := range callers {
						ci, ok := r.Instr.(ssa.CallInstruction)
						if !ok || idx >= len(ci.Common().Args) || !strings.HasPrefix(NewKeyer(p, r.In).Key(ci.Common().Args[idx]), kQuorumSize) {
							return false
						}
					}
					return true
				}
				switch {
				case isCount(kx) && isQ(ky), isCount(ky) && isQ(kx):
					nGood++
				case isCount(kx) || isCount(ky):
					other := ky
					if isCount(ky) {
						other = kx
					}
					if strings.HasPrefix(other, "phi@") || strings.Contains(other, "rangeindex") || strings.HasPrefix(other, "(phi@") {
						return // loop index against a length
					}
					bad = append(bad, p.InstrPos(in)+": count compared with "+other)
				}
			})
		}
		c.Check(nGood >= 1 && len(bad) == 0, "C20.2", s.typ+"."+s.fn+": threshold is config.QuorumSize()", p.FuncPos(fn),
			itoa(nGood)+" ordering comparison(s) of a participant/vote/timeout count, all against RuntimeConfig.QuorumSize()", "comparisons against QuorumSize(): "+itoa(nGood)+"; other thresholds: "+join(bad))
	}
	// Carousel's f
	if gl := p.Method("protocol/leaderrotation", "Carousel", "GetLeader"); gl != nil {
		fl := NewFlow(p, gl)
		ok := false
		// (in GetLeader or in a private helper of its package: the bound must be taken from the membership at the time
		// of the call, not from a copy made at construction, when the configuration may still be empty)
		for _, ds := range deepSites(fl, func(cc *ssa.CallCommon) bool { return cc.StaticCallee() == nf }, 0) {
			if len(ds.Args) > 0 && strings.HasPrefix(ds.Args[0], "(*hs/core.RuntimeConfig).ReplicaCount(") {
				ok = true
			}
		}
		c.Check(ok, "C20.2", "Carousel.GetLeader: f = NumFaulty(ReplicaCount())", p.FuncPos(gl), "the carousel's fault bound is hotstuff.NumFaulty of the configured membership", "no NumFaulty(ReplicaCount()) found")
	}
}
