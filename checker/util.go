package main

import (
	"go/constant"
	"go/token"
	"go/types"
	"sort"
	"strings"

	"golang.org/x/tools/go/callgraph"
	"golang.org/x/tools/go/ssa"
)

// eachInstr visits every instruction of fn (not of nested closures).
func eachInstr(fn *ssa.Function, f func(ssa.Instruction)) {
	for _, b := range fn.Blocks {
		for _, in := range b.Instrs {
			f(in)
		}
	}
}

// eachInstrDeep visits fn and all nested closures.
func eachInstrDeep(fn *ssa.Function, f func(*ssa.Function, ssa.Instruction)) {
	eachInstr(fn, func(in ssa.Instruction) { f(fn, in) })
	for _, a := range Closures(fn) {
		a := a
		eachInstr(a, func(in ssa.Instruction) { f(a, in) })
	}
}

// calleeIs reports whether the call statically targets fn, or (for interface calls)
// dispatches on a method with the same name that fn's receiver type implements.
func calleeIs(c *ssa.CallCommon, fn *ssa.Function) bool {
	if fn == nil {
		return false
	}
	if c.IsInvoke() {
		if c.Method.Name() != fn.Name() || fn.Signature.Recv() == nil {
			return false
		}
		iface, ok := c.Value.Type().Underlying().(*types.Interface)
		if !ok {
			return false
		}
		rt := fn.Signature.Recv().Type()
		return types.Implements(rt, iface) || types.Implements(types.NewPointer(rt), iface)
	}
	callee := c.StaticCallee()
	if callee == nil {
		return false
	}
	return callee == fn || (callee.Origin() != nil && callee.Origin() == fn)
}

// calleeObjIs compares the static callee's declaring object (handles generic instances).
func calleeObjIs(c *ssa.CallCommon, obj *types.Func) bool {
	if obj == nil {
		return false
	}
	if c.IsInvoke() {
		return c.Method == obj || (c.Method.Name() == obj.Name() && c.Method.FullName() == obj.FullName())
	}
	callee := c.StaticCallee()
	if callee == nil {
		return false
	}
	if callee.Object() == obj {
		return true
	}
	if o := callee.Origin(); o != nil && o.Object() == obj {
		return true
	}
	return false
}

// isIfaceMethodCall reports an invoke of method name on interface type named rel.iface.
func isInvokeOf(c *ssa.CallCommon, iface *types.Named, name string) bool {
	if !c.IsInvoke() || c.Method.Name() != name || iface == nil {
		return false
	}
	it, ok := iface.Underlying().(*types.Interface)
	if !ok {
		return false
	}
	// the static receiver type must itself provide the method of that interface
	rt := c.Value.Type()
	return types.Implements(rt, it) || types.Identical(rt.Underlying(), it)
}

// callsIn returns the call instructions in fn (deep = including closures) matching pred.
func callsIn(fn *ssa.Function, deep bool, pred func(*ssa.CallCommon) bool) []ssa.CallInstruction {
	var out []ssa.CallInstruction
	visit := func(_ *ssa.Function, in ssa.Instruction) {
		if ci, ok := in.(ssa.CallInstruction); ok && pred(ci.Common()) {
			out = append(out, ci)
		}
	}
	if deep {
		eachInstrDeep(fn, visit)
	} else {
		eachInstr(fn, func(in ssa.Instruction) { visit(fn, in) })
	}
	return out
}

// CallSite is a resolved caller of a function.
type CallSite struct {
	Caller *ssa.Function
	Site   ssa.CallInstruction
}

// callersOf returns the module call sites (production scope) that may call target
// according to graph g. Synthetic wrappers (bound methods, thunks) are looked through.
func (p *Prog) callersOf(g *callgraph.Graph, target *ssa.Function) []CallSite {
	var out []CallSite
	seen := map[ssa.CallInstruction]bool{}
	visited := map[*ssa.Function]bool{}
	var rec func(t *ssa.Function)
	rec = func(t *ssa.Function) {
		if visited[t] {
			return
		}
		visited[t] = true
		n := g.Nodes[t]
		if n == nil {
			return
		}
		for _, e := range n.In {
			caller := e.Caller.Func
			if caller.Synthetic != "" && caller.Blocks != nil && caller.Pkg == nil {
				rec(caller) // wrapper / bound method thunk: continue to its callers
				continue
			}
			if caller.Synthetic != "" {
				rec(caller)
				continue
			}
			pp := funcPkgPath(caller)
			if !inModule(pp) || testHelperPkg(pp) {
				continue
			}
			if e.Site != nil && !seen[e.Site] {
				seen[e.Site] = true
				out = append(out, CallSite{caller, e.Site})
			}
		}
	}
	rec(target)
	sort.Slice(out, func(i, j int) bool {
		if out[i].Caller.String() != out[j].Caller.String() {
			return out[i].Caller.String() < out[j].Caller.String()
		}
		return out[i].Site.Pos() < out[j].Site.Pos()
	})
	return out
}

// callerNames returns the sorted, de-duplicated short names of the outermost declared
// functions containing the call sites.
func callerNames(cs []CallSite) []string {
	m := map[string]bool{}
	for _, c := range cs {
		m[shortName(declaredParent(c.Caller))] = true
	}
	var out []string
	for k := range m {
		out = append(out, k)
	}
	sort.Strings(out)
	return out
}

// declaredParent returns the enclosing declared function of a closure.
func declaredParent(fn *ssa.Function) *ssa.Function {
	for fn.Parent() != nil {
		fn = fn.Parent()
	}
	return fn
}

// FieldWrite is a store to a struct field (or an update of a map/slice held in it).
type FieldWrite struct {
	Fn    *ssa.Function
	Instr ssa.Instruction
	Kind  string // store | mapupdate | delete | clear | deletefunc | elemstore
	Fresh bool   // the object written was allocated in the same function (constructor)
}

// fieldWrites finds every write to field fv in the production scope of the module.
func (p *Prog) fieldWrites(fv *types.Var) []FieldWrite {
	var out []FieldWrite
	isField := func(v ssa.Value) (*ssa.FieldAddr, bool) {
		fa, ok := v.(*ssa.FieldAddr)
		if !ok {
			return nil, false
		}
		return fa, fieldVar(fa.X.Type(), fa.Field) == fv
	}
	loadOfField := func(v ssa.Value) (*ssa.FieldAddr, bool) {
		u, ok := v.(*ssa.UnOp)
		if !ok {
			return nil, false
		}
		return isField(u.X)
	}
	fresh := func(fa *ssa.FieldAddr) bool {
		a := rootAlloc(fa)
		return a != nil
	}
	for _, fn := range p.ModFuncs {
		eachInstr(fn, func(in ssa.Instruction) {
			switch x := in.(type) {
			case *ssa.Store:
				if fa, ok := isField(x.Addr); ok {
					out = append(out, FieldWrite{fn, in, "store", fresh(fa)})
				} else if ia, ok := x.Addr.(*ssa.IndexAddr); ok {
					if fa, ok := loadOfField(ia.X); ok {
						out = append(out, FieldWrite{fn, in, "elemstore", fresh(fa)})
					}
				}
			case *ssa.MapUpdate:
				if fa, ok := loadOfField(x.Map); ok {
					out = append(out, FieldWrite{fn, in, "mapupdate", fresh(fa)})
				}
			case *ssa.Call:
				if b, ok := x.Call.Value.(*ssa.Builtin); ok && (b.Name() == "delete" || b.Name() == "clear") && len(x.Call.Args) > 0 {
					if fa, ok := loadOfField(x.Call.Args[0]); ok {
						out = append(out, FieldWrite{fn, in, b.Name(), fresh(fa)})
					}
				}
				// maps.DeleteFunc(m, pred) removes entries of the map held in the field
				if cal := x.Call.StaticCallee(); cal != nil && strings.HasPrefix(cal.String(), "maps.DeleteFunc") && len(x.Call.Args) == 2 {
					if fa, ok := loadOfField(x.Call.Args[0]); ok {
						out = append(out, FieldWrite{fn, in, "deletefunc", fresh(fa)})
					}
				}
			}
		})
	}
	return out
}

// writerNames returns the sorted set of declared functions that write (non-fresh).
func writerNames(ws []FieldWrite, includeFresh bool) []string {
	m := map[string]bool{}
	for _, w := range ws {
		if w.Fresh && !includeFresh {
			continue
		}
		m[shortName(declaredParent(w.Fn))] = true
	}
	var out []string
	for k := range m {
		out = append(out, k)
	}
	sort.Strings(out)
	return out
}

func setEq(a, b []string) bool {
	if len(a) != len(b) {
		return false
	}
	for i := range a {
		if a[i] != b[i] {
			return false
		}
	}
	return true
}

func subset(a, allowed []string) (extra []string) {
	al := map[string]bool{}
	for _, x := range allowed {
		al[x] = true
	}
	for _, x := range a {
		if !al[x] {
			extra = append(extra, x)
		}
	}
	return
}

func join(ss []string) string { return strings.Join(ss, ", ") }

// returnsOf lists the Return instructions of fn.
func returnsOf(fn *ssa.Function) []*ssa.Return {
	var out []*ssa.Return
	eachInstr(fn, func(in ssa.Instruction) {
		if r, ok := in.(*ssa.Return); ok {
			out = append(out, r)
		}
	})
	return out
}

// isNilConst reports a nil constant.
func isNilConst(v ssa.Value) bool {
	c, ok := v.(*ssa.Const)
	return ok && c.IsNil()
}

func isBoolConst(v ssa.Value, want bool) bool {
	c, ok := v.(*ssa.Const)
	if !ok || c.Value == nil {
		return false
	}
	return c.Value.ExactString() == map[bool]string{true: "true", false: "false"}[want]
}

// knownNonNilError: results of error constructors.
func knownNonNilError(v ssa.Value) bool {
	switch x := v.(type) {
	case *ssa.Call:
		if callee := x.Call.StaticCallee(); callee != nil {
			switch callee.String() {
			case "fmt.Errorf", "errors.New", "google.golang.org/grpc/status.Error", "google.golang.org/grpc/status.Errorf":
				return true
			}
			// an error constructor of the module: every return is itself a known non-nil error
			if inModule(funcPkgPath(callee)) && callee.Blocks != nil && callee.Signature.Results().Len() == 1 && !errCtorBusy[callee] {
				if v, ok := errCtorMemo[callee]; ok {
					return v
				}
				errCtorBusy[callee] = true
				all := true
				rets := returnsOf(callee)
				for _, r := range rets {
					if len(r.Results) != 1 || !knownNonNilError(r.Results[0]) {
						all = false
					}
				}
				delete(errCtorBusy, callee)
				errCtorMemo[callee] = all && len(rets) > 0
				return errCtorMemo[callee]
			}
		}
	case *ssa.MakeInterface:
		return true
	case *ssa.UnOp:
		// load of a package-level error variable (ErrCombineOverlap ...)
		if g, ok := x.X.(*ssa.Global); ok && (strings.HasPrefix(g.Name(), "Err") || strings.HasPrefix(g.Name(), "err")) && errorSentinel(g) {
			return true
		}
	}
	return false
}

// SuccessExit is a return that may deliver a nil error (or `true`, for bool deciders).
type SuccessExit struct {
	Ret *ssa.Return
	Via *ssa.Call // non-nil: the result is this call's result (tail call); success is conditional on it
	Phi bool
	// Facts: what holds when this exit delivers success: the must-facts at the return, plus, for a
	// non-constant result v, `v == nil` and (tail call of a helper of this package) what that helper
	// guarantees whenever it returns nil.
	Facts FactSet
}

// successExits returns the returns of fn whose result #idx may be nil (error deciders).
// A return is excluded only if its result is a known non-nil error, or the must-facts
// at the return include `result != nil`.
func successExits(fl *Flow, idx int) []SuccessExit {
	var out []SuccessExit
	for _, r := range returnsOf(fl.Fn) {
		if !fl.Reachable(r.Block()) || idx >= len(r.Results) {
			continue
		}
		v := retValue(r, idx)
		if knownNonNilError(v) {
			continue
		}
		if isNilConst(v) {
			out = append(out, SuccessExit{Ret: r, Facts: fl.At(r)})
			continue
		}
		key := fl.K.Key(v)
		facts := fl.At(r)
		okFacts := facts.clone()
		if okFacts != nil && types.Identical(v.Type(), types.Universe.Lookup("error").Type()) {
			okFacts[eqFact(key, "nil")] = true
			for _, f := range fl.summaryFacts(v, "nil") {
				okFacts[f] = true
			}
		}
		if facts[Fact{"!=", minStr(key, "nil"), maxStr(key, "nil")}] {
			continue
		}
		if ph, ok := v.(*ssa.Phi); ok {
			// a phi of known non-nil errors only is not a success exit
			all := true
			for _, e := range ph.Edges {
				if !knownNonNilError(e) {
					all = false
				}
			}
			if all {
				continue
			}
			out = append(out, SuccessExit{Ret: r, Phi: true, Facts: okFacts})
			continue
		}
		var via *ssa.Call
		switch x := v.(type) {
		case *ssa.Call:
			via = x
		case *ssa.Extract:
			via, _ = x.Tuple.(*ssa.Call)
		}
		out = append(out, SuccessExit{Ret: r, Via: via, Facts: okFacts})
	}
	return out
}

func minStr(a, b string) string {
	if a < b {
		return a
	}
	return b
}
func maxStr(a, b string) string {
	if a < b {
		return b
	}
	return a
}

// eqFact builds the normalised equality fact.
func eqFact(a, b string) Fact  { return Fact{"==", minStr(a, b), maxStr(a, b)} }
func neqFact(a, b string) Fact { return Fact{"!=", minStr(a, b), maxStr(a, b)} }

// errNilFact is the fact "the error result of call key is nil".
func errNilFact(callKey string) Fact { return eqFact(callKey, "nil") }

// hasFactMatching: some fact with given op whose operands satisfy the predicates.
func hasCmp(s FactSet, op string, l, r func(string) bool) bool {
	for f := range s {
		if f.Op != op {
			continue
		}
		if l(f.L) && r(f.R) {
			return true
		}
		if (op == "==" || op == "!=") && l(f.R) && r(f.L) {
			return true
		}
	}
	return false
}

func contains(sub string) func(string) bool {
	return func(s string) bool { return strings.Contains(s, sub) }
}
func containsAll(subs ...string) func(string) bool {
	return func(s string) bool {
		for _, x := range subs {
			if !strings.Contains(s, x) {
				return false
			}
		}
		return true
	}
}
func is(x string) func(string) bool { return func(s string) bool { return s == x } }
func anyStr(string) bool            { return true }

// namedType returns the types.Type of rel.name (nil if absent).
func namedType(p *Prog, rel, name string) types.Type {
	n := p.Named(rel, name)
	if n == nil {
		return nil
	}
	return n
}

func sortStrings(s []string) { sort.Strings(s) }

// errNilOf reports whether the fact set contains "<call> == nil" for a call whose key
// satisfies pred (the error result of that call was nil on every path here).
func errNilOf(s FactSet, pred func(string) bool) bool {
	return s.Has(func(f Fact) bool { return f.Op == "==" && oneIsNil(f) && pred(nonNil(f)) })
}

// notNilOf: "<x> != nil" for a key satisfying pred.
func notNilOf(s FactSet, pred func(string) bool) bool {
	return s.Has(func(f Fact) bool { return f.Op == "!=" && oneIsNil(f) && pred(nonNil(f)) })
}

// trueOf / falseOf: boolean value with key satisfying pred is known true/false.
func trueOf(s FactSet, pred func(string) bool) bool {
	return s.Has(func(f Fact) bool { return f.Op == "true" && pred(f.L) })
}
func falseOf(s FactSet, pred func(string) bool) bool {
	return s.Has(func(f Fact) bool { return f.Op == "false" && pred(f.L) })
}
func afterOf(s FactSet, pred func(string) bool) bool {
	return s.Has(func(f Fact) bool { return f.Op == "after" && pred(f.L) })
}

// retValue resolves result #idx of a return. In functions with defers go/ssa spills
// named results to locals and returns loads of them; the value is then the last
// store to that local in the returning block.
func retValue(r *ssa.Return, idx int) ssa.Value {
	v := r.Results[idx]
	u, ok := v.(*ssa.UnOp)
	if !ok {
		return v
	}
	a, ok := u.X.(*ssa.Alloc)
	if !ok {
		return v
	}
	// only the spilled named result of this position (go/ssa stores the returned value into it just
	// before the return); an ordinary local that happens to be returned keeps its load
	named := false
	if res := r.Parent().Signature.Results(); idx < res.Len() && res.At(idx).Name() != "" && res.At(idx).Name() == a.Comment {
		named = true
	}
	if !named {
		return v
	}
	b := r.Block()
	for i := len(b.Instrs) - 1; i >= 0; i-- {
		if st, ok := b.Instrs[i].(*ssa.Store); ok && st.Addr == a {
			return st.Val
		}
	}
	return v
}

// Leaf is one possible definition of a value together with the facts that hold on
// the paths delivering it.
type Leaf struct {
	Val   ssa.Value
	Facts FactSet
	Key   string // set when the definition lies in a helper: the key re-expressed in the user's terms
}

// KeyIn returns the structural key of the leaf in the terms of fl's function.
func (lf Leaf) KeyIn(fl *Flow) string {
	if lf.Key != "" {
		return lf.Key
	}
	return fl.K.Key(lf.Val)
}

// leaves expands phis: every non-phi definition that can reach v at instruction `at`,
// with the must-facts of the CFG edge that delivers it.
func leaves(fl *Flow, v ssa.Value, at ssa.Instruction) []Leaf {
	var out []Leaf
	seen := map[*ssa.Phi]bool{}
	seenAlloc := map[*ssa.Alloc]bool{}
	seenField := map[fieldOfAlloc]bool{}
	var rec func(v ssa.Value, facts FactSet)
	rec = func(v ssa.Value, facts FactSet) {
		if ph, ok := v.(*ssa.Phi); ok {
			if seen[ph] {
				return
			}
			seen[ph] = true
			for i, e := range ph.Edges {
				pred := ph.Block().Preds[i]
				if !fl.Reachable(pred) {
					continue
				}
				ef := fl.AtEdge(pred, ph.Block())
				// facts known at the use also hold (they hold on all paths to the use)
				m := ef.clone()
				for f := range facts {
					m[f] = true
				}
				rec(e, m)
			}
			return
		}
		// load of a local variable (named results are spilled in functions with defers):
		// every value stored into it is a possible definition
		if u, ok := v.(*ssa.UnOp); ok && u.Op == token.MUL {
			// a load right after a store to the same non-escaping local in the same block is the stored value
			if a, ok := u.X.(*ssa.Alloc); ok && !fl.K.captured[a] && fl.K.fwdLoad(a) {
				b := u.Block()
				pos := -1
				for i, in := range b.Instrs {
					if in == ssa.Instruction(u) {
						pos = i
					}
				}
				for i := pos - 1; i >= 0; i-- {
					if st, ok := b.Instrs[i].(*ssa.Store); ok && st.Addr == ssa.Value(a) {
						if ld, isLd := st.Val.(*ssa.UnOp); !isLd || ld.X != ssa.Value(a) {
							rec(st.Val, facts)
							return
						}
						break
					}
				}
			}
			if a, ok := u.X.(*ssa.Alloc); ok && !seenAlloc[a] && !fl.K.captured[a] {
				if _, spilled := fl.K.spill[a]; !spilled {
					seenAlloc[a] = true
					n := 0
					for _, r := range *a.Referrers() {
						if st, ok := r.(*ssa.Store); ok && st.Addr == a {
							if u2, ok := st.Val.(*ssa.UnOp); ok && u2.X == a {
								continue // `return x` re-stores the named result into itself
							}
							n++
							rec(st.Val, fl.At(st))
						}
					}
					if n > 0 {
						return
					}
				}
			}
		}
		// load of a field of a local struct variable (`var ev evidence; ev = evidence{view: v}; ev.prefer(w); return ev.view`):
		// every value stored into that field, here or by a callee of the module that is handed the variable's address
		if u, ok := v.(*ssa.UnOp); ok && u.Op == token.MUL {
			if fa, ok := u.X.(*ssa.FieldAddr); ok {
				if a, ok := fa.X.(*ssa.Alloc); ok && !seenField[fieldOfAlloc{a, fa.Field}] {
					if defs, ok := localFieldDefs(fl, a, fa.Field, 0); ok && len(defs) > 0 {
						seenField[fieldOfAlloc{a, fa.Field}] = true
						for _, d := range defs {
							m := d.Facts.clone()
							if m == nil {
								m = FactSet{}
							}
							rec(d.Val, m)
						}
						return
					}
				}
			}
		}
		// element selected by an index variable that was set on the way (`found := -1; for i := range xs { if ok(xs[i])
		// { found = i; break } }; if found < 0 { return }; return xs[found]`): the element at each value the index
		// can have, under the facts of the edge that delivers that value; a sentinel excluded by what is known at
		// the use is not an alternative. Loop induction variables are left alone.
		if u, ok := v.(*ssa.UnOp); ok && u.Op == token.MUL {
			if ia, ok := u.X.(*ssa.IndexAddr); ok {
				if ph, ok := ia.Index.(*ssa.Phi); ok && !seen[ph] && !isLoopHeaderPhi(ph) {
					seen[ph] = true
					pk := fl.K.Key(ph)
					base := fl.K.Key(ia.X)
					n := 0
					for i, e := range ph.Edges {
						pred := ph.Block().Preds[i]
						if !fl.Reachable(pred) {
							continue
						}
						if cst, isC := e.(*ssa.Const); isC && cst.Value != nil && cst.Int64() < 0 && hasCmp(facts, "<=", is("c:0"), is(pk)) {
							continue
						}
						m := fl.AtEdge(pred, ph.Block()).clone()
						for f := range facts {
							m[f] = true
						}
						out = append(out, Leaf{Val: v, Facts: m, Key: base + "[" + fl.K.Key(e) + "]"})
						n++
					}
					if n > 0 {
						return
					}
				}
			}
		}
		// builtin min / max of two values is one of them, under the corresponding comparison
		if call, ok := v.(*ssa.Call); ok && len(call.Call.Args) == 2 {
			if b, ok := call.Call.Value.(*ssa.Builtin); ok && (b.Name() == "min" || b.Name() == "max") {
				x, y := call.Call.Args[0], call.Call.Args[1]
				kx, ky := fl.K.Key(x), fl.K.Key(y)
				fx, fy := facts.clone(), facts.clone()
				if b.Name() == "min" {
					fx[Fact{"<=", kx, ky}] = true
					fy[Fact{"<=", ky, kx}] = true
				} else {
					fx[Fact{"<=", ky, kx}] = true
					fy[Fact{"<=", kx, ky}] = true
				}
				rec(x, fx)
				rec(y, fy)
				return
			}
		}
		// result of a helper of the same package: the values the helper returns (on the returns
		// compatible with what the caller knows about the helper's other results)
		if hl := helperResultLeaves(fl, v, facts); hl != nil {
			out = append(out, hl...)
			return
		}
		out = append(out, Leaf{Val: v, Facts: facts})
	}
	top := fl.At(at)
	rec(v, top)
	// the value is known to be non-nil at the use: it is not the nil alternative, and whichever
	// alternative it is, that one is non-nil
	if top != nil && top[neqFact(fl.K.Key(v), "nil")] && len(out) > 1 {
		kept := out[:0]
		for _, lf := range out {
			if isNilConst(lf.Val) {
				continue
			}
			lf.Facts[neqFact(lf.KeyIn(fl), "nil")] = true
			kept = append(kept, lf)
		}
		out = kept
	}
	return out
}

var leafDepth int

// isLoopHeaderPhi: one of the phi's incoming edges is a back edge (its block dominates the predecessor).
func isLoopHeaderPhi(ph *ssa.Phi) bool {
	for _, pred := range ph.Block().Preds {
		if ph.Block().Dominates(pred) {
			return true
		}
	}
	return false
}

type fieldOfAlloc struct {
	a *ssa.Alloc
	f int
}

// localFieldDefs: the values that can be in field #field of the local struct variable a of fl.Fn,
// flow-insensitively: stores to &a.field in the function, whole-struct assignments from another local
// (composite literals), stores made by callees of the module that receive &a (pointer-receiver helpers:
// a stored parameter is the caller's argument, under the facts at the call), and the zero value.
// ok=false when the variable's address goes anywhere else.
func localFieldDefs(fl *Flow, a *ssa.Alloc, field int, depth int) ([]Leaf, bool) {
	st, isStruct := a.Type().Underlying().(*types.Pointer).Elem().Underlying().(*types.Struct)
	if !isStruct || field >= st.NumFields() || depth > 2 || a.Referrers() == nil {
		return nil, false
	}
	var out []Leaf
	whole := false
	for _, r := range *a.Referrers() {
		switch x := r.(type) {
		case *ssa.DebugRef:
		case *ssa.FieldAddr:
			if x.Referrers() == nil {
				return nil, false
			}
			for _, r2 := range *x.Referrers() {
				switch y := r2.(type) {
				case *ssa.DebugRef:
				case *ssa.UnOp:
				case *ssa.Store:
					if y.Addr != x {
						if x.Field == field {
							return nil, false
						}
						continue
					}
					if x.Field == field {
						out = append(out, Leaf{Val: y.Val, Facts: fl.At(y)})
					}
				default:
					if x.Field == field {
						return nil, false
					}
				}
			}
		case *ssa.UnOp: // copy out
		case *ssa.Store:
			if x.Addr != a {
				return nil, false
			}
			whole = true
			ld, ok := x.Val.(*ssa.UnOp)
			if !ok {
				return nil, false
			}
			b, ok := ld.X.(*ssa.Alloc)
			if !ok || b == a {
				return nil, false
			}
			defs, ok := localFieldDefs(fl, b, field, depth+1)
			if !ok {
				return nil, false
			}
			out = append(out, defs...)
		case *ssa.Call:
			cal := x.Call.StaticCallee()
			if cal == nil || cal.Blocks == nil || !inModule(funcPkgPath(cal)) || x.Call.IsInvoke() {
				return nil, false
			}
			for i, arg := range x.Call.Args {
				if arg != a {
					continue
				}
				if i >= len(cal.Params) || cal.Params[i].Referrers() == nil {
					return nil, false
				}
				for _, r2 := range *cal.Params[i].Referrers() {
					switch y := r2.(type) {
					case *ssa.DebugRef:
					case *ssa.FieldAddr:
						if y.Referrers() == nil {
							return nil, false
						}
						for _, r3 := range *y.Referrers() {
							switch z := r3.(type) {
							case *ssa.DebugRef, *ssa.UnOp:
							case *ssa.Store:
								if z.Addr != y {
									return nil, false
								}
								if y.Field != field {
									continue
								}
								switch sv := z.Val.(type) {
								case *ssa.Const:
									out = append(out, Leaf{Val: sv, Facts: fl.At(x)})
								case *ssa.Parameter:
									j := -1
									for k, prm := range cal.Params {
										if prm == sv {
											j = k
										}
									}
									if j < 0 || j >= len(x.Call.Args) {
										return nil, false
									}
									out = append(out, Leaf{Val: x.Call.Args[j], Facts: fl.At(x)})
								default:
									return nil, false
								}
							default:
								return nil, false
							}
						}
					default:
						return nil, false
					}
				}
			}
		default:
			return nil, false
		}
	}
	_ = whole
	// the zero value the variable starts with
	ft := st.Field(field).Type()
	if b, ok := ft.Underlying().(*types.Basic); ok {
		switch {
		case b.Info()&types.IsBoolean != 0:
			out = append(out, Leaf{Val: ssa.NewConst(constant.MakeBool(false), ft), Facts: FactSet{}})
		case b.Info()&types.IsInteger != 0:
			out = append(out, Leaf{Val: ssa.NewConst(constant.MakeInt64(0), ft), Facts: FactSet{}})
		case b.Info()&types.IsString != 0:
			out = append(out, Leaf{Val: ssa.NewConst(constant.MakeString(""), ft), Facts: FactSet{}})
		default:
			return nil, false
		}
	} else {
		switch ft.Underlying().(type) {
		case *types.Pointer, *types.Interface, *types.Slice, *types.Map, *types.Chan, *types.Signature:
			out = append(out, Leaf{Val: ssa.NewConst(nil, ft), Facts: FactSet{}})
		default:
			return nil, false
		}
	}
	return out, true
}

// leafStops: functions whose results are to be taken as they are (the anchors a rule talks about),
// not expanded into what they return. Set by the rule around its use of leaves().
var leafStops = map[*ssa.Function]bool{}

func withLeafStops(f func(), fns ...*ssa.Function) {
	old := leafStops
	leafStops = map[*ssa.Function]bool{}
	for _, fn := range fns {
		if fn != nil {
			leafStops[fn] = true
		}
	}
	defer func() { leafStops = old }()
	f()
}

func helperResultLeaves(fl *Flow, v ssa.Value, facts FactSet) []Leaf {
	var call *ssa.Call
	idx := 0
	switch x := v.(type) {
	case *ssa.Call:
		call = x
	case *ssa.Extract:
		c, ok := x.Tuple.(*ssa.Call)
		if !ok {
			return nil
		}
		call, idx = c, x.Index
	default:
		return nil
	}
	cal := call.Call.StaticCallee()
	if cal == nil || cal == fl.Fn || cal.Blocks == nil || cal.Synthetic != "" || funcPkgPath(cal) != funcPkgPath(fl.Fn) || !inModule(funcPkgPath(cal)) || leafDepth > 2 {
		return nil
	}
	if leafStops[cal] || getterLike(cal) && len(returnsOf(cal)) <= 1 && !expandPureHelpers {
		return nil // plain accessors are terms of their own; a pure helper that selects among several results is looked into
	}
	if expandPureHelpers {
		// one level only: what the helper returns is named as the helper wrote it
		expandPureHelpers = false
		defer func() { expandPureHelpers = true }()
	}
	nres := cal.Signature.Results().Len()
	if idx >= nres {
		return nil
	}
	args := make([]string, len(call.Call.Args))
	for i, a := range call.Call.Args {
		args[i] = fl.K.Key(a)
	}
	tag := "@~" + cal.Name() + ":b${1}i${2}"
	subst := func(k string) string {
		k = localIDRe.ReplaceAllString(k, tag)
		return paramRe.ReplaceAllStringFunc(k, func(m string) string {
			i := 0
			for _, ch := range m[1:] {
				i = i*10 + int(ch-'0')
			}
			if i < len(args) {
				return args[i]
			}
			return m
		})
	}
	cfl := NewFlow(fl.P, cal)
	ck := fl.K.Key(call)
	var out []Leaf
	for _, r := range returnsOf(cal) {
		if !cfl.Reachable(r.Block()) || len(r.Results) != nres {
			continue
		}
		// skip returns that contradict what the caller knows about this and the other results
		skip := false
		selfKey := ck
		if nres > 1 {
			selfKey = ck + "#" + itoa(idx)
		}
		if isNilConst(retValue(r, idx)) && facts[neqFact(selfKey, "nil")] {
			continue
		}
		for j := 0; j < nres; j++ {
			if j == idx {
				continue
			}
			rk := ck
			if nres > 1 {
				rk = ck + "#" + itoa(j)
			}
			rv := retValue(r, j)
			switch {
			case isBoolConst(rv, false) && facts[Fact{"true", rk, ""}], isBoolConst(rv, true) && facts[Fact{"false", rk, ""}]:
				skip = true
			case isNilConst(rv) && facts[neqFact(rk, "nil")], knownNonNilError(rv) && facts[eqFact(rk, "nil")]:
				skip = true
			}
		}
		if skip {
			continue
		}
		leafDepth++
		inner := leaves(cfl, retValue(r, idx), r)
		leafDepth--
		for _, lf := range inner {
			m := facts.clone()
			for f := range lf.Facts {
				g := Fact{f.Op, subst(f.L), ""}
				if f.R != "" {
					g.R = subst(f.R)
				}
				if (g.Op == "==" || g.Op == "!=") && g.L > g.R {
					g.L, g.R = g.R, g.L
				}
				m[g] = true
			}
			lk := subst(lf.KeyIn(cfl))
			// what the caller knows about the result holds for the value that is the result
			if facts[neqFact(selfKey, "nil")] {
				m[neqFact(lk, "nil")] = true
			}
			if facts[eqFact(selfKey, "nil")] {
				m[eqFact(lk, "nil")] = true
			}
			out = append(out, Leaf{Val: lf.Val, Facts: m, Key: lk})
		}
	}
	return out
}

// errorSentinel: a package-level error variable initialised once, in the package
// initialiser, with errors.New / fmt.Errorf, and never assigned elsewhere.
func errorSentinel(g *ssa.Global) bool {
	if g.Pkg == nil {
		return false
	}
	n := 0
	okInit := false
	for _, m := range g.Pkg.Members {
		fn, ok := m.(*ssa.Function)
		if !ok {
			continue
		}
		fns := append([]*ssa.Function{fn}, Closures(fn)...)
		for _, f := range fns {
			eachInstr(f, func(in ssa.Instruction) {
				if st, ok := in.(*ssa.Store); ok && st.Addr == g {
					n++
					if f.Name() == "init" && knownNonNilError(st.Val) {
						okInit = true
					}
				}
			})
		}
	}
	return n == 1 && okInit
}

// helperClosure returns fn followed by the functions of fn's own package that it reaches through
// static calls (transitively, at most depth levels): the places to which a maintainer may move a
// part of fn's body by "extract function". Rules that look for a construct "in fn" look here.
func helperClosure(p *Prog, fn *ssa.Function, depth int) []*ssa.Function {
	out := []*ssa.Function{fn}
	seen := map[*ssa.Function]bool{fn: true}
	frontier := []*ssa.Function{fn}
	for d := 0; d < depth; d++ {
		var next []*ssa.Function
		for _, f := range frontier {
			eachInstr(f, func(in ssa.Instruction) {
				ci, ok := in.(ssa.CallInstruction)
				if !ok {
					return
				}
				cal := ci.Common().StaticCallee()
				// (instantiations of generic functions of the package are ordinary helpers with a body of their own)
				if cal == nil || seen[cal] || cal.Blocks == nil || (cal.Synthetic != "" && cal.Origin() == nil) || funcPkgPath(cal) != funcPkgPath(fn) {
					return
				}
				seen[cal] = true
				out = append(out, cal)
				next = append(next, cal)
			})
		}
		frontier = next
	}
	return out
}

// helperVerdictImplies: facts contain `false(h(...))` (want=false) or `true(h(...))` (want=true)
// for a call in fl.Fn of a boolean helper h of the same package, and every exit of h that
// delivers that verdict satisfies pred on h's own must-facts (recursively through further
// helpers). It expresses "the helper said no only because <pred>", a disjunction over the
// helper's exits that a must-fact summary cannot carry.
func helperVerdictImplies(fl *Flow, facts FactSet, want bool, pred func(*Flow, FactSet) bool, depth int) bool {
	if depth > 2 {
		return false
	}
	op := map[bool]string{true: "true", false: "false"}[want]
	found := false
	eachInstr(fl.Fn, func(in ssa.Instruction) {
		call, ok := in.(*ssa.Call)
		if !ok || found {
			return
		}
		cal := call.Call.StaticCallee()
		if cal == nil || cal == fl.Fn || cal.Blocks == nil || cal.Synthetic != "" || funcPkgPath(cal) != funcPkgPath(fl.Fn) {
			return
		}
		res := cal.Signature.Results()
		if res.Len() == 1 && !want && types.Identical(res.At(0).Type(), types.Universe.Lookup("error").Type()) {
			// an error-returning helper "said no": h(...) != nil
			ck := fl.K.Key(call)
			if !facts[Fact{"!=", minStr(ck, "nil"), maxStr(ck, "nil")}] {
				return
			}
			cfl := NewFlow(fl.P, cal)
			all, n := true, 0
			for _, r := range returnsOf(cal) {
				v := retValue(r, 0)
				if !cfl.Reachable(r.Block()) || isNilConst(v) {
					continue
				}
				n++
				fs := cfl.At(r).clone()
				if !knownNonNilError(v) {
					vk := cfl.K.Key(v)
					fs[Fact{"!=", minStr(vk, "nil"), maxStr(vk, "nil")}] = true
				}
				if !(pred(cfl, fs) || helperVerdictImplies(cfl, fs, want, pred, depth+1)) {
					all = false
				}
			}
			if all && n > 0 {
				found = true
			}
			return
		}
		if res.Len() != 1 || !types.Identical(res.At(0).Type(), types.Typ[types.Bool]) {
			return
		}
		if !facts[Fact{op, fl.K.Key(call), ""}] {
			return
		}
		cfl := NewFlow(fl.P, cal)
		all, n := true, 0
		for _, r := range returnsOf(cal) {
			if !cfl.Reachable(r.Block()) {
				continue
			}
			v := retValue(r, 0)
			if isBoolConst(v, !want) {
				continue
			}
			n++
			fs := cfl.At(r)
			if !isBoolConst(v, want) {
				var extra []Fact
				cfl.decompose(v, want, &extra)
				for _, f := range extra {
					fs[f] = true
				}
			}
			if !(pred(cfl, fs) || helperVerdictImplies(cfl, fs, want, pred, depth+1)) {
				all = false
			}
		}
		if all && n > 0 {
			found = true
		}
	})
	return found
}

// DeepSite is a call of a target function reached from a root function directly or through
// helpers of the root's package, with the must-facts that hold there expressed in the root's
// terms (the root's facts at the call of the helper, plus the helper's own facts with its
// parameters replaced by the arguments).
type DeepSite struct {
	Site  ssa.CallInstruction
	In    *ssa.Function
	Facts FactSet
	Args  []string            // keys of the call's arguments in the root's terms
	Defer bool                // reached through a deferred helper call (arguments were evaluated at the defer statement)
	Via   ssa.CallInstruction // the call in the root function through which the site is reached (nil: the site is in the root)
}

func deepSites(fl *Flow, isTarget func(*ssa.CallCommon) bool, depth int) []DeepSite {
	var out []DeepSite
	eachInstr(fl.Fn, func(in ssa.Instruction) {
		ci, ok := in.(ssa.CallInstruction)
		if !ok {
			return
		}
		cc := ci.Common()
		if isTarget(cc) {
			ds := DeepSite{Site: ci, In: fl.Fn, Facts: fl.At(in)}
			for _, a := range cc.Args {
				ds.Args = append(ds.Args, fl.K.Key(a))
			}
			out = append(out, ds)
			return
		}
		if _, isGo := in.(*ssa.Go); isGo || depth >= 2 {
			return
		}
		cal := cc.StaticCallee()
		if cal == nil || cal == fl.Fn || cal.Blocks == nil || cal.Synthetic != "" || funcPkgPath(cal) != funcPkgPath(fl.Fn) {
			return
		}
		if _, isMC := cc.Value.(*ssa.MakeClosure); isMC {
			return
		}
		inner := deepSites(NewFlow(fl.P, cal), isTarget, depth+1)
		if len(inner) == 0 {
			return
		}
		args := make([]string, len(cc.Args))
		for i, a := range cc.Args {
			args[i] = fl.K.Key(a)
		}
		tag := "@~" + cal.Name() + ":b${1}i${2}"
		subst := func(k string) string {
			k = localIDRe.ReplaceAllString(k, tag)
			return paramRe.ReplaceAllStringFunc(k, func(m string) string {
				i := 0
				for _, ch := range m[1:] {
					i = i*10 + int(ch-'0')
				}
				if i < len(args) {
					return args[i]
				}
				return m
			})
		}
		_, isDefer := in.(*ssa.Defer)
		here := fl.At(in)
		for _, ds := range inner {
			m := here.clone()
			for f := range ds.Facts {
				g := Fact{f.Op, subst(f.L), ""}
				if f.R != "" {
					g.R = subst(f.R)
				}
				if (g.Op == "==" || g.Op == "!=") && g.L > g.R {
					g.L, g.R = g.R, g.L
				}
				m[g] = true
			}
			nd := DeepSite{Site: ds.Site, In: ds.In, Facts: m, Defer: ds.Defer || isDefer, Via: ci}
			for _, a := range ds.Args {
				nd.Args = append(nd.Args, subst(a))
			}
			out = append(out, nd)
		}
	})
	return out
}

// DeepInstr is an instruction of interest found in a root function or in a helper of the root's
// package reached from it (transitively), with the must-facts that hold there expressed in the
// root's terms and a key translator from the containing function's terms to the root's.
type DeepInstr struct {
	Instr  ssa.Instruction
	In     *ssa.Function
	Flow   *Flow // flow of the containing function
	Facts  FactSet
	ToRoot func(string) string
	Path   []ssa.CallInstruction // the calls leading from the root to the containing function
}

// Key returns the key of v (a value of the containing function) in the root's terms.
func (d DeepInstr) Key(v ssa.Value) string { return d.ToRoot(d.Flow.K.Key(v)) }

func deepInstrs(fl *Flow, isTarget func(ssa.Instruction) bool, depth int) []DeepInstr {
	var out []DeepInstr
	id := func(s string) string { return s }
	eachInstr(fl.Fn, func(in ssa.Instruction) {
		if isTarget(in) {
			out = append(out, DeepInstr{Instr: in, In: fl.Fn, Flow: fl, Facts: fl.At(in), ToRoot: id})
			return
		}
		ci, ok := in.(ssa.CallInstruction)
		if !ok || depth >= 2 {
			return
		}
		if _, isGo := in.(*ssa.Go); isGo {
			return
		}
		cc := ci.Common()
		cal := cc.StaticCallee()
		if cal == nil || cal == fl.Fn || cal.Blocks == nil || cal.Synthetic != "" || funcPkgPath(cal) != funcPkgPath(fl.Fn) {
			return
		}
		if _, isMC := cc.Value.(*ssa.MakeClosure); isMC {
			return
		}
		inner := deepInstrs(NewFlow(fl.P, cal), isTarget, depth+1)
		if len(inner) == 0 {
			return
		}
		args := make([]string, len(cc.Args))
		for i, a := range cc.Args {
			args[i] = fl.K.Key(a)
		}
		tag := "@~" + cal.Name() + ":b${1}i${2}"
		subst := func(k string) string {
			k = localIDRe.ReplaceAllString(k, tag)
			return paramRe.ReplaceAllStringFunc(k, func(m string) string {
				i := 0
				for _, ch := range m[1:] {
					i = i*10 + int(ch-'0')
				}
				if i < len(args) {
					return args[i]
				}
				return m
			})
		}
		here := fl.At(in)
		for _, di := range inner {
			m := here.clone()
			for f := range di.Facts {
				g := Fact{f.Op, subst(f.L), ""}
				if f.R != "" {
					g.R = subst(f.R)
				}
				if (g.Op == "==" || g.Op == "!=") && g.L > g.R {
					g.L, g.R = g.R, g.L
				}
				m[g] = true
			}
			innerTo := di.ToRoot
			out = append(out, DeepInstr{Instr: di.Instr, In: di.In, Flow: di.Flow, Facts: m,
				ToRoot: func(k string) string { return subst(innerTo(k)) }, Path: append([]ssa.CallInstruction{ci}, di.Path...)})
		}
	})
	return out
}

// ownerChain: fn's declared function followed by the functions on whose behalf it runs: for a
// private helper (unexported, never used as a value, every use a synchronous call or defer from
// its own package) whose callers all belong to one declared function, that function, and so on.
// "Only commitInner emits commit events" stays true when the emission moves into a helper that
// only commitInner calls.
func (p *Prog) ownerChain(fn *ssa.Function) []*ssa.Function {
	fn = declaredParent(fn)
	chain := []*ssa.Function{fn}
	for i := 0; i < 4; i++ {
		if fn.Object() == nil || fn.Object().Exported() || fn.Synthetic != "" {
			break
		}
		ci := callIndexOf(p)
		if ci.asValue[fn] || len(ci.callers[fn]) == 0 {
			break
		}
		var owner *ssa.Function
		ok := true
		for _, r := range ci.callers[fn] {
			if r.Kind == "go" || funcPkgPath(r.In) != funcPkgPath(fn) {
				ok = false
				break
			}
			o := declaredParent(r.In)
			if o == fn {
				continue // recursion
			}
			if owner != nil && owner != o {
				ok = false
				break
			}
			owner = o
		}
		if !ok || owner == nil {
			break
		}
		fn = owner
		chain = append(chain, fn)
	}
	return chain
}

// ownedByAny reports whether fn is named in allowed, or is a private helper (unexported, never
// used as a value, every use a synchronous call or defer from its own package) every caller of
// which is, in the same sense, owned by a function named in allowed. A helper shared by two
// allowed functions runs only on their behalf just as a helper of one of them does.
func (p *Prog) ownedByAny(fn *ssa.Function, allowed []string) bool {
	return p.ownedByAnyDepth(declaredParent(fn), allowed, 0)
}

func (p *Prog) ownedByAnyDepth(fn *ssa.Function, allowed []string, depth int) bool {
	nm := shortName(fn)
	if o := fn.Origin(); o != nil {
		nm = shortName(o) // an instantiation of a generic function is that function
	}
	for _, a := range allowed {
		if a == nm {
			return true
		}
	}
	if depth >= 4 || fn.Object() == nil || fn.Object().Exported() || fn.Synthetic != "" {
		return false
	}
	ci := callIndexOf(p)
	if ci.asValue[fn] || len(ci.callers[fn]) == 0 {
		return false
	}
	for _, r := range ci.callers[fn] {
		if r.Kind == "go" || funcPkgPath(r.In) != funcPkgPath(fn) {
			return false
		}
		o := declaredParent(r.In)
		if o == fn {
			continue // recursion
		}
		if !p.ownedByAnyDepth(o, allowed, depth+1) {
			return false
		}
	}
	return true
}

// branchDominates: instruction in is reached only through a CFG edge whose edge facts satisfy
// pred (the edge's target dominates in's block and is entered only through that edge). Unlike a
// must-fact, this records that the test was made and decided this way, even if the tested
// expression is modified afterwards (`if !isDup(m, c) { m[k] = v; count++ }`).
func branchDominates(fl *Flow, in ssa.Instruction, pred func(Fact) bool) bool {
	for _, b := range fl.Fn.Blocks {
		if _, ok := b.Instrs[len(b.Instrs)-1].(*ssa.If); !ok || len(b.Succs) != 2 {
			continue
		}
		for _, s := range b.Succs {
			if len(s.Preds) != 1 || !s.Dominates(in.Block()) {
				continue
			}
			for _, f := range fl.edgeFacts(b, s) {
				if pred(f) {
					return true
				}
			}
		}
	}
	return false
}

// isCarriedProposerKey: the proposer id carried by a proposal message, read through
// Proposal.ProposerID() or directly as Block.GetProposer() of the proposal's block.
func isCarriedProposerKey(k string) bool {
	return strings.Contains(k, ".ProposerID(") || (strings.Contains(k, "hotstuffpb.Block).GetProposer(") && strings.Contains(k, "Proposal).GetBlock("))
}

// expandedKey returns the key of v with the results of helpers of fl.Fn's package that v is built
// from replaced by the keys of what those helpers return (when that is a single expression in the
// caller's terms): `rnd, seed := newViewRand(shared, view)` reads as rand.New(rand.NewSource(shared+view)).
func expandedKey(fl *Flow, v ssa.Value, at ssa.Instruction) string {
	expandPureHelpers = true
	defer func() { expandPureHelpers = false }()
	k := fl.K.Key(v)
	seen := map[ssa.Value]bool{}
	var walk func(x ssa.Value, depth int)
	walk = func(x ssa.Value, depth int) {
		if x == nil || seen[x] || depth > 8 {
			return
		}
		seen[x] = true
		switch y := x.(type) {
		case *ssa.Extract, *ssa.Call:
			if hl := helperResultLeaves(fl, y, fl.At(at)); len(hl) == 1 && hl[0].Key != "" {
				k = strings.ReplaceAll(k, fl.K.Key(y), hl[0].Key)
				return
			}
		}
		if in, ok := x.(ssa.Instruction); ok {
			for _, op := range in.Operands(nil) {
				if op != nil && *op != nil {
					walk(*op, depth+1)
				}
			}
		}
	}
	walk(v, 0)
	return k
}

// isIntConst: v is the integer constant n.
func isIntConst(v ssa.Value, n int64) bool {
	c, ok := v.(*ssa.Const)
	if !ok || c.Value == nil || c.Value.Kind() != constant.Int {
		return false
	}
	x, exact := constant.Int64Val(c.Value)
	return exact && x == n
}

// aliasHelperResults rewrites facts so that the first result of a private helper of the package
// that, on its success path, returns exactly one expression (`block, err := c.signedBlock(hash)`
// with `signedBlock` returning `(Get(hash)#0, nil)` or `(nil, error)`) is named by that expression
// in the caller's terms. Rules that recognise a term by its shape (View(Get(qc.BlockHash())#0))
// then see through the helper.
func aliasHelperResults(fl *Flow, facts FactSet) FactSet {
	repl := map[string]string{}
	eachInstr(fl.Fn, func(in ssa.Instruction) {
		ex, ok := in.(*ssa.Extract)
		if !ok {
			return
		}
		tcall, isCall := ex.Tuple.(*ssa.Call)
		if !isCall {
			return
		}
		if ex.Index != 0 {
			// a later result, but not the verdict itself (`view, timeout, verified := s.verifyAndRecord(..)`)
			tup, isTup := tcall.Type().(*types.Tuple)
			if !isTup || ex.Index == tup.Len()-1 {
				return
			}
		}
		var keys []string
		for _, lf := range helperResultLeaves(fl, ex, facts) {
			if lf.Val != nil && isNilConst(lf.Val) {
				continue
			}
			if lf.Key == "" {
				return
			}
			dup := false
			for _, k := range keys {
				dup = dup || k == lf.Key
			}
			if !dup {
				keys = append(keys, lf.Key)
			}
		}
		if len(keys) == 1 {
			repl[fl.K.Key(ex)] = keys[0]
		}
	})
	if len(repl) == 0 {
		return facts
	}
	sub := func(k string) string {
		for from, to := range repl {
			k = strings.ReplaceAll(k, from, to)
		}
		return k
	}
	out := FactSet{}
	for f := range facts {
		g := Fact{f.Op, sub(f.L), ""}
		if f.R != "" {
			g.R = sub(f.R)
		}
		if (g.Op == "==" || g.Op == "!=") && g.L > g.R {
			g.L, g.R = g.R, g.L
		}
		out[g] = true
		out[f] = true
	}
	return out
}

// expandPureHelpers: set while expandedKey runs, so that unexported single-expression helpers of the
// package (pure, hence keyed without a site id) are replaced by the expression they return.
var expandPureHelpers bool

var (
	errCtorMemo = map[*ssa.Function]bool{}
	errCtorBusy = map[*ssa.Function]bool{}
)

// elementCounterBase: ph is a counter that starts at 0 and is advanced by one inside a loop that ranges over a
// slice (nothing else changes it). Returns the slice ranged over (nil if ph is not such a counter).
func elementCounterBase(ph *ssa.Phi) ssa.Value {
	incs := counterIncrements(ph)
	if len(incs) == 0 {
		return nil
	}
	// the range loop whose header holds the counter: its index phi and the slice indexed with it
	for _, in := range ph.Block().Instrs {
		ip, ok := in.(*ssa.Phi)
		if !ok {
			break
		}
		if ip.Comment != "rangeindex" {
			continue
		}
		var base ssa.Value
		for _, b := range ph.Parent().Blocks {
			for _, x := range b.Instrs {
				ia, ok := x.(*ssa.IndexAddr)
				if !ok {
					continue
				}
				if bo, ok := ia.Index.(*ssa.BinOp); ok && bo.X == ssa.Value(ip) && ph.Block().Dominates(b) {
					base = ia.X
				}
			}
		}
		return base
	}
	return nil
}

// counterIncrements: the `ph + 1` values feeding the loop-header phi ph, whose other edges are the constant 0 and ph
// itself; nil if any edge is something else.
func counterIncrements(ph *ssa.Phi) []*ssa.BinOp {
	if !isLoopHeaderPhi(ph) {
		return nil
	}
	var incs []*ssa.BinOp
	zero := false
	for _, e := range ph.Edges {
		switch {
		case isIntConst(e, 0):
			zero = true
		case e == ssa.Value(ph):
		default:
			bo, ok := e.(*ssa.BinOp)
			if !ok || bo.Op != token.ADD || bo.X != ssa.Value(ph) || !isIntConst(bo.Y, 1) {
				return nil
			}
			incs = append(incs, bo)
		}
	}
	if !zero {
		return nil
	}
	return incs
}
