package main

// hsverif: repository-specific static checker for relab/hotstuff.
//
//	hsverif check <PROPERTY> <quick|thorough> [-repo DIR] [-root /verif]
//	hsverif replay <file>
//	hsverif dump <pkg-rel> <Type|-> <Func>        (debug: SSA keys and must-facts)

import (
	"encoding/json"
	"flag"
	"fmt"
	"os"
	"os/exec"
	"path/filepath"
	"runtime/debug"
	"sort"
	"strconv"
	"strings"
	"time"

	"golang.org/x/tools/go/ssa"
)

type propCheck struct {
	id  string
	run func(*Ctx)
}

var registry = map[string]func(*Ctx){}

func register(id string, f func(*Ctx)) { registry[id] = f }

func main() {
	if len(os.Args) < 2 {
		usage()
	}
	switch os.Args[1] {
	case "check":
		os.Exit(cmdCheck(os.Args[2:]))
	case "replay":
		os.Exit(cmdReplay(os.Args[2:]))
	case "matrix":
		os.Exit(cmdMatrix(os.Args[2:]))
	case "dump":
		os.Exit(cmdDump(os.Args[2:]))
	case "paths":
		os.Exit(cmdPaths(os.Args[2:]))
	case "list":
		var ids []string
		for id := range registry {
			ids = append(ids, id)
		}
		sort.Strings(ids)
		for _, id := range ids {
			fmt.Println(id)
		}
	default:
		usage()
	}
}

func usage() {
	fmt.Fprintln(os.Stderr, "usage: hsverif check <ID> <quick|thorough> [-repo DIR] [-root DIR] | replay <file> | dump <pkg> <type|-> <func>")
	os.Exit(2)
}

func envOr(k, d string) string {
	if v := os.Getenv(k); v != "" {
		return v
	}
	return d
}

func cmdCheck(args []string) (code int) {
	fs := flag.NewFlagSet("check", flag.ExitOnError)
	repo := fs.String("repo", envOr("REPO_DIR", "/repo"), "repository under analysis")
	root := fs.String("root", envOr("VERIF_ROOT", "/verif"), "verif root (evidence, known findings)")
	if len(args) < 2 {
		usage()
	}
	id, tier := args[0], args[1]
	_ = fs.Parse(args[2:])
	if tier != "quick" && tier != "thorough" {
		usage()
	}
	run, ok := registry[id]
	if !ok {
		fmt.Printf("unknown property %s\n", id)
		return 2
	}
	seed, _ := strconv.Atoi(os.Getenv("VERIF_SEED"))
	start := time.Now()

	defer func() {
		if r := recover(); r != nil {
			fmt.Printf("CHECKER PANIC in %s: %v\n%s\n", id, r, debug.Stack())
			fmt.Printf("VIOLATION property=%s replay=%s\n", id, "checker-panic")
			code = 1
		}
	}()

	type cfgT struct{ arch, tags string }
	cfgs := []cfgT{{"", ""}}
	if tier == "thorough" {
		cfgs = append(cfgs, cfgT{"386", ""})
	}
	var first *Ctx
	var names []string
	for i, cf := range cfgs {
		p, err := Load(*repo, cf.arch, cf.tags)
		if err != nil {
			fmt.Printf("LOAD FAILED (%s): %v\n", cf.arch, err)
			fmt.Printf("VIOLATION property=%s replay=load-failed\n", id)
			return 1
		}
		name := "GOARCH=" + map[bool]string{true: "default", false: cf.arch}[cf.arch == ""] + " tags=" + cf.tags
		names = append(names, fmt.Sprintf("%s (%d module funcs)", name, len(p.ModFuncs)))
		c := NewCtx(p, id, tier)
		run(c)
		c.Stat("module_functions", len(p.ModFuncs))
		c.Stat("packages", len(p.Pkgs))
		if i == 0 {
			first = c
		} else {
			// cross-configuration agreement: same obligations, same verdicts
			a, b := verdictMap(first), verdictMap(c)
			for k, v := range b {
				if a[k] != v {
					first.add("CONFIG", k, name, Violated, fmt.Sprintf("verdict %q under %s differs from %q under the default configuration", v, name, a[k]), true)
				}
			}
			for k := range a {
				if _, ok := b[k]; !ok {
					first.add("CONFIG", k, name, Violated, "obligation missing under "+name, true)
				}
			}
			first.Stat("configs_cross_checked", 1)
		}
		modSetsCache = map[*Prog]*modSets{}
		resetSummaries()
		getterMemo = map[*ssa.Function]int{}
	}
	if tier == "thorough" {
		first.Extra = map[string]any{"sensitivity": sensitivity(id, *repo, *root, first)}
	}
	return first.Finish(*root, start, seed, names)
}

// sensitivity is the "does the check fire when it should" half of the thorough tier. Every
// seeded change kept under <root>/seeded/<ID>-*/patch.diff (a compiling, test-passing edit
// that is known to break the property, confirmed by scripts/intake.sh) is applied to a scratch
// copy of the tree under analysis and the property's quick check is run on the copy in a
// subprocess. The outcome is reported in the evidence (and printed); it never changes the
// verdict on the tree itself: a seeded change that no longer applies is skipped, one that
// is no longer detected is printed as SENSITIVITY-LOST so that a regression of the checker
// is visible. Nothing is executed from the analysed tree.
func sensitivity(id, repo, root string, main *Ctx) []map[string]any {
	var out []map[string]any
	dirs, _ := filepath.Glob(filepath.Join(root, "seeded", id+"-*", "patch.diff"))
	sort.Strings(dirs)
	// the other direction: behaviour-preserving refactorings of the property's anchored code
	// (kept under <root>/benign/<ID>-*/), on which the check must stay silent
	benign, _ := filepath.Glob(filepath.Join(root, "benign", id+"-*", "patch.diff"))
	sort.Strings(benign)
	isBenign := map[string]bool{}
	for _, b := range benign {
		isBenign[b] = true
	}
	dirs = append(dirs, benign...)
	self, err := os.Executable()
	if err != nil {
		return out
	}
	for _, patch := range dirs {
		name := filepath.Base(filepath.Dir(patch))
		rec := map[string]any{"seeded_change": name}
		if isBenign[patch] {
			rec = map[string]any{"behaviour_preserving_refactoring": name}
		}
		tmp, err := os.MkdirTemp("", "hsverif-sens-")
		if err != nil {
			continue
		}
		func() {
			defer os.RemoveAll(tmp)
			tree := filepath.Join(tmp, "tree")
			outRoot := filepath.Join(tmp, "out")
			_ = os.MkdirAll(outRoot, 0o755)
			if b, err := exec.Command("cp", "-r", repo, tree).CombinedOutput(); err != nil {
				rec["status"] = "copy failed: " + string(b)
				return
			}
			_ = os.RemoveAll(filepath.Join(tree, ".git"))
			if kf, err := os.ReadFile(filepath.Join(root, "known_findings.json")); err == nil {
				_ = os.WriteFile(filepath.Join(outRoot, "known_findings.json"), kf, 0o644)
			}
			ap := exec.Command("git", "apply", "--whitespace=nowarn", patch)
			ap.Dir = tree
			if b, err := ap.CombinedOutput(); err != nil {
				rec["status"] = "skipped: the change does not apply to this tree"
				_ = b
				return
			}
			cmd := exec.Command(self, "check", id, "quick", "-repo", tree, "-root", outRoot)
			cmd.Env = append(os.Environ(), "REPO_DIR="+tree)
			b, _ := cmd.CombinedOutput()
			var rules []string
			for _, line := range strings.Split(string(b), "\n") {
				for _, v := range []string{"VIOLATED ", "UNDECIDED ", "ANCHOR-UNRESOLVED "} {
					if strings.HasPrefix(line, v) {
						f := strings.Fields(line)
						if len(f) > 1 {
							rules = append(rules, f[1])
						}
					}
				}
			}
			fired := strings.Contains(string(b), "VIOLATION property="+id)
			switch {
			case isBenign[patch] && !fired:
				rec["status"] = "silent (as it should be)"
			case isBenign[patch]:
				rec["status"] = "FALSE ALARM"
				rec["rules"] = rules
				fmt.Printf("SPECIFICITY-LOST property=%s the check fires on the behaviour-preserving refactoring %s (%s)\n", id, name, strings.Join(rules, ","))
			case fired:
				rec["status"] = "detected"
				rec["rules"] = rules
			default:
				rec["status"] = "NOT detected"
				fmt.Printf("SENSITIVITY-LOST property=%s the seeded change %s is no longer reported\n", id, name)
			}
		}()
		fmt.Printf("variant %s: %v\n", name, rec["status"])
		out = append(out, rec)
	}
	main.Stat("sensitivity_runs", len(out))
	return out
}

// cmdMatrix loads the tree once and evaluates the quick tier of every property on it. It
// writes no evidence; it prints, per property, the failing obligations (those not held,
// not exempt and not listed as known findings). Used by scripts/selftest.sh only.
func cmdMatrix(args []string) int {
	fs := flag.NewFlagSet("matrix", flag.ExitOnError)
	repo := fs.String("repo", envOr("REPO_DIR", "/repo"), "repository under analysis")
	root := fs.String("root", envOr("VERIF_ROOT", "/verif"), "verif root (known findings)")
	verbose := fs.Bool("v", false, "print the failing obligations")
	_ = fs.Parse(args)
	p, err := Load(*repo, "", "")
	if err != nil {
		fmt.Printf("LOAD FAILED: %v\n", err)
		return 2
	}
	known, err := loadFindings(filepath.Join(*root, "known_findings.json"))
	if err != nil {
		fmt.Println(err)
		return 2
	}
	var ids []string
	for id := range registry {
		ids = append(ids, id)
	}
	sort.Strings(ids)
	var fired []string
	for _, id := range ids {
		failing := func() (n int) {
			defer func() {
				if r := recover(); r != nil {
					fmt.Printf("PANIC %s: %v\n", id, r)
					n = 1
				}
			}()
			c := NewCtx(p, id, "quick")
			registry[id](c)
			c.finishExpectations()
			for _, o := range c.Obs {
				if o.Verdict == Held || o.Verdict == Exempt {
					continue
				}
				if _, ok := known[o.Key()]; ok && o.Verdict == Violated {
					continue
				}
				n++
				if *verbose {
					fmt.Printf("%s %s %s %s at %s: %s\n", id, o.Verdict, o.Rule, o.Instance, o.Construct, o.Detail)
				}
			}
			return n
		}()
		if failing > 0 {
			fired = append(fired, id)
		}
	}
	fmt.Printf("FIRING:%s\n", func() string {
		out := ""
		for _, f := range fired {
			out += " " + f
		}
		return out
	}())
	return 0
}

func verdictMap(c *Ctx) map[string]string {
	m := map[string]string{}
	for _, o := range c.Obs {
		m[o.Key()] = string(o.Verdict)
	}
	return m
}

func cmdReplay(args []string) int {
	if len(args) < 1 {
		usage()
	}
	b, err := os.ReadFile(args[0])
	if err != nil {
		fmt.Println(err)
		return 2
	}
	var o Obligation
	if err := json.Unmarshal(b, &o); err != nil {
		fmt.Println(err)
		return 2
	}
	run, ok := registry[o.Property]
	if !ok {
		fmt.Println("unknown property", o.Property)
		return 2
	}
	p, err := Load(envOr("REPO_DIR", "/repo"), "", "")
	if err != nil {
		fmt.Println(err)
		return 2
	}
	c := NewCtx(p, o.Property, "quick")
	run(c)
	c.finishExpectations()
	found := false
	for _, x := range c.Obs {
		if x.Key() == o.Key() {
			found = true
			fmt.Printf("%s %s %s at %s\n  %s\n", x.Verdict, x.Rule, x.Instance, x.Construct, x.Detail)
			if x.Verdict != Held && x.Verdict != Exempt {
				return 1
			}
		}
	}
	if !found {
		fmt.Printf("obligation %s no longer exists on the current tree\n", o.Key())
		return 1
	}
	return 0
}

func cmdDump(args []string) int {
	if len(args) < 3 {
		usage()
	}
	p, err := Load(envOr("REPO_DIR", "/repo"), "", "")
	if err != nil {
		fmt.Println(err)
		return 2
	}
	var fn *ssa.Function
	if args[1] == "-" {
		fn = p.Func(args[0], args[2])
	} else {
		fn = p.Method(args[0], args[1], args[2])
	}
	if fn == nil {
		fmt.Println("not found")
		return 2
	}
	fns := append([]*ssa.Function{fn}, Closures(fn)...)
	for _, f := range fns {
		fl := NewFlow(p, f)
		fmt.Printf("== %s (%s)\n", f, p.FuncPos(f))
		for _, b := range f.Blocks {
			fmt.Printf(" block %d  facts: %v\n", b.Index, fl.in[b].Sorted())
			for _, in := range b.Instrs {
				if v, ok := in.(ssa.Value); ok {
					fmt.Printf("   %-6s = %-50s  key=%s\n", v.Name(), in.String(), fl.K.Key(v))
				} else {
					fmt.Printf("            %s\n", in.String())
				}
			}
		}
	}
	return 0
}

func cmdPaths(args []string) int {
	if len(args) < 3 {
		usage()
	}
	p, err := Load(envOr("REPO_DIR", "/repo"), "", "")
	if err != nil {
		fmt.Println(err)
		return 2
	}
	var fn *ssa.Function
	if args[1] == "-" {
		fn = p.Func(args[0], args[2])
	} else {
		fn = p.Method(args[0], args[1], args[2])
	}
	if fn == nil {
		fmt.Println("not found")
		return 2
	}
	fl := NewFlow(p, fn)
	paths, err := enumPaths(fl, 500)
	if err != nil {
		fmt.Println("error:", err)
	}
	for i, d := range paths {
		fmt.Printf("path %d: result=%s stores=%v\n", i, d.Result, d.Stores)
		for _, l := range d.Lits {
			fmt.Printf("    %v  %s\n", l.Val, l.Atom)
		}
	}
	return 0
}
