package main

// A11 SYMINT: closed-form integer reasoning on SSA expression trees.
//
// (1) Residue-class affine evaluation: with n = M*k + r (k >= k0), every value is an
//     affine form a*k + b with rational coefficients; division by a constant c is
//     exact when c divides a (choose M accordingly) and the value is non-negative;
//     float conversion, division by a constant and math.Ceil are modelled exactly
//     (|n| < 2^52). An affine inequality in k over k >= k0 is decided by its slope and
//     its value at k0. Nothing is executed: the expression tree is abstractly evaluated
//     once per residue class, which covers every n.
// (2) Polynomials over opaque symbols with integer coefficients, for index identities.

import (
	"fmt"
	"go/constant"
	"go/token"
	"math/big"
	"sort"
	"strings"

	"golang.org/x/tools/go/ssa"
)

// ---- (1) affine forms in k ----

type aff struct{ a, b *big.Rat } // a*k + b

func affConst(n int64) aff { return aff{new(big.Rat), big.NewRat(n, 1)} }

func (x aff) add(y aff) aff { return aff{new(big.Rat).Add(x.a, y.a), new(big.Rat).Add(x.b, y.b)} }
func (x aff) sub(y aff) aff { return aff{new(big.Rat).Sub(x.a, y.a), new(big.Rat).Sub(x.b, y.b)} }
func (x aff) scale(c *big.Rat) aff {
	return aff{new(big.Rat).Mul(x.a, c), new(big.Rat).Mul(x.b, c)}
}
func (x aff) isConst() bool { return x.a.Sign() == 0 }
func (x aff) String() string {
	return fmt.Sprintf("%s*k+%s", x.a.RatString(), x.b.RatString())
}

// geqZero: a*k + b >= 0 for all integers k >= k0.
func (x aff) geqZero(k0 int64) bool {
	if x.a.Sign() < 0 {
		return false
	}
	v := new(big.Rat).Add(new(big.Rat).Mul(x.a, big.NewRat(k0, 1)), x.b)
	return v.Sign() >= 0
}

func ratFloor(r *big.Rat) *big.Rat {
	q := new(big.Int).Div(r.Num(), r.Denom()) // Euclidean: floor for positive denominators
	return new(big.Rat).SetInt(q)
}

func ratCeil(r *big.Rat) *big.Rat {
	f := ratFloor(r)
	if f.Cmp(r) == 0 {
		return f
	}
	return f.Add(f, big.NewRat(1, 1))
}

type affEval struct {
	p    *Prog
	k0   int64
	env  map[ssa.Value]aff
	err  string
	deep int
}

func (e *affEval) fail(format string, args ...any) aff {
	if e.err == "" {
		e.err = fmt.Sprintf(format, args...)
	}
	return affConst(0)
}

func constInt(c *ssa.Const) (*big.Rat, bool) {
	if c.Value == nil {
		return nil, false
	}
	switch c.Value.Kind() {
	case constant.Int:
		if v, ok := constant.Int64Val(c.Value); ok {
			return big.NewRat(v, 1), true
		}
	case constant.Float:
		f, _ := constant.Float64Val(c.Value)
		r := new(big.Rat)
		if r.SetFloat64(f) != nil {
			return r, true
		}
	}
	return nil, false
}

func (e *affEval) eval(v ssa.Value) aff {
	if x, ok := e.env[v]; ok {
		return x
	}
	switch x := v.(type) {
	case *ssa.Const:
		if r, ok := constInt(x); ok {
			return aff{new(big.Rat), r}
		}
		return e.fail("non-numeric constant %s", x)
	case *ssa.Convert:
		in := e.eval(x.X)
		// int -> float64 exact below 2^52; float64 -> int requires an integral value
		if strings.HasPrefix(x.Type().String(), "float") {
			return in
		}
		if strings.HasPrefix(x.X.Type().String(), "float") {
			if !in.a.IsInt() || !in.b.IsInt() {
				return e.fail("float to int conversion of a non-integral form %s", in)
			}
		}
		return in
	case *ssa.ChangeType:
		return e.eval(x.X)
	case *ssa.BinOp:
		l, r := e.eval(x.X), e.eval(x.Y)
		switch x.Op {
		case token.ADD:
			return l.add(r)
		case token.SUB:
			return l.sub(r)
		case token.MUL:
			if r.isConst() {
				return l.scale(r.b)
			}
			if l.isConst() {
				return r.scale(l.b)
			}
			return e.fail("product of two non-constant forms")
		case token.QUO:
			if !r.isConst() || r.b.Sign() <= 0 {
				return e.fail("division by a non-constant or non-positive divisor")
			}
			if strings.HasPrefix(x.Type().String(), "float") {
				return l.scale(new(big.Rat).Inv(r.b))
			}
			// integer division, truncated; equals floor when the dividend is >= 0
			if !l.geqZero(e.k0) {
				return e.fail("integer division of a possibly negative dividend %s", l)
			}
			q := new(big.Rat).Quo(l.a, r.b)
			if !q.IsInt() {
				return e.fail("divisor %s does not divide the slope %s (residue modulus too small)", r.b.RatString(), l.a.RatString())
			}
			return aff{q, ratFloor(new(big.Rat).Quo(l.b, r.b))}
		}
		return e.fail("unsupported operator %s", x.Op)
	case *ssa.Call:
		cal := x.Call.StaticCallee()
		if cal == nil {
			return e.fail("dynamic call")
		}
		if cal.String() == "math.Ceil" {
			in := e.eval(x.Call.Args[0])
			if !in.a.IsInt() {
				return e.fail("Ceil of a form with non-integral slope %s", in)
			}
			return aff{in.a, ratCeil(in.b)}
		}
		if inModule(funcPkgPath(cal)) && len(cal.Blocks) == 1 && e.deep < 4 {
			sub := &affEval{p: e.p, k0: e.k0, env: map[ssa.Value]aff{}, deep: e.deep + 1}
			for i, prm := range cal.Params {
				sub.env[prm] = e.eval(x.Call.Args[i])
			}
			rets := returnsOf(cal)
			if len(rets) != 1 || len(rets[0].Results) != 1 {
				return e.fail("callee %s is not a single-expression function", cal)
			}
			r := sub.eval(rets[0].Results[0])
			if sub.err != "" {
				return e.fail("%s: %s", cal.Name(), sub.err)
			}
			return r
		}
		return e.fail("call of %s has no arithmetic summary", cal)
	}
	if ex, ok := v.(*ssa.Extract); ok {
		// one result of a straight-line helper with several results (`f, q := thresholds(n)`)
		if call, ok := ex.Tuple.(*ssa.Call); ok {
			if cal := call.Call.StaticCallee(); cal != nil && inModule(funcPkgPath(cal)) && len(cal.Blocks) == 1 && e.deep < 4 {
				sub := &affEval{p: e.p, k0: e.k0, env: map[ssa.Value]aff{}, deep: e.deep + 1}
				for i, prm := range cal.Params {
					sub.env[prm] = e.eval(call.Call.Args[i])
				}
				rets := returnsOf(cal)
				if len(rets) != 1 || ex.Index >= len(rets[0].Results) {
					return e.fail("callee %s is not a single-expression function", cal)
				}
				r := sub.eval(rets[0].Results[ex.Index])
				if sub.err != "" {
					return e.fail("%s: %s", cal.Name(), sub.err)
				}
				return r
			}
		}
	}
	return e.fail("unsupported value %T", v)
}

// evalFuncAff evaluates a single-block, single-result function on the argument form.
func evalFuncAff(p *Prog, fn *ssa.Function, k0 int64, args ...aff) (aff, string) {
	if fn == nil || len(fn.Blocks) != 1 {
		return aff{}, "function is not a single straight-line block"
	}
	e := &affEval{p: p, k0: k0, env: map[ssa.Value]aff{}}
	for i, prm := range fn.Params {
		if i < len(args) {
			e.env[prm] = args[i]
		}
	}
	rets := returnsOf(fn)
	if len(rets) != 1 || len(rets[0].Results) != 1 {
		return aff{}, "function does not have exactly one result expression"
	}
	r := e.eval(rets[0].Results[0])
	return r, e.err
}

// ---- (2) polynomials over opaque symbols ----

type poly map[string]int64 // monomial (sorted symbols joined by '*', "" = constant) -> coefficient

func polyConst(c int64) poly {
	if c == 0 {
		return poly{}
	}
	return poly{"": c}
}
func polySym(s string) poly { return poly{s: 1} }

func (p poly) add(q poly, sign int64) poly {
	out := poly{}
	for k, v := range p {
		out[k] = v
	}
	for k, v := range q {
		out[k] += sign * v
		if out[k] == 0 {
			delete(out, k)
		}
	}
	return out
}

func (p poly) mul(q poly) poly {
	out := poly{}
	for k1, v1 := range p {
		for k2, v2 := range q {
			var syms []string
			if k1 != "" {
				syms = append(syms, strings.Split(k1, "*")...)
			}
			if k2 != "" {
				syms = append(syms, strings.Split(k2, "*")...)
			}
			sort.Strings(syms)
			k := strings.Join(syms, "*")
			out[k] += v1 * v2
			if out[k] == 0 {
				delete(out, k)
			}
		}
	}
	return out
}

func (p poly) eq(q poly) bool { return len(p.add(q, -1)) == 0 }

func (p poly) String() string {
	var ks []string
	for k := range p {
		ks = append(ks, k)
	}
	sort.Strings(ks)
	var parts []string
	for _, k := range ks {
		if k == "" {
			parts = append(parts, fmt.Sprint(p[k]))
		} else {
			parts = append(parts, fmt.Sprintf("%d*%s", p[k], k))
		}
	}
	if len(parts) == 0 {
		return "0"
	}
	return strings.Join(parts, " + ")
}

// polyOf turns an SSA integer expression into a polynomial; anything that is not
// +, -, * or a constant becomes an opaque symbol named sym(v).
func polyOf(v ssa.Value, sym func(ssa.Value) string) poly { return polyOfEnv(v, sym, nil, 0) }

// polyOfEnv: like polyOf, with parameters bound to polynomials (env) and calls of pure
// straight-line functions of the module (one block, one result, no effects: `firstChildPosition(pos, bf)`)
// replaced by the polynomial of what they return.
func polyOfEnv(v ssa.Value, sym func(ssa.Value) string, env map[*ssa.Parameter]poly, depth int) poly {
	if prm, ok := v.(*ssa.Parameter); ok && env != nil {
		if pl, ok := env[prm]; ok {
			return pl
		}
	}
	if call, ok := v.(*ssa.Call); ok && depth < 3 {
		if cal := call.Call.StaticCallee(); cal != nil && cal.Blocks != nil && len(cal.Blocks) == 1 && inModule(funcPkgPath(cal)) && cal.Signature.Results().Len() == 1 {
			pure := true
			var ret *ssa.Return
			for _, in := range cal.Blocks[0].Instrs {
				switch x := in.(type) {
				case *ssa.BinOp, *ssa.Convert, *ssa.ChangeType, *ssa.DebugRef:
				case *ssa.Return:
					ret = x
				default:
					pure = false
				}
			}
			if pure && ret != nil && len(ret.Results) == 1 && len(cal.Params) == len(call.Call.Args) {
				inner := map[*ssa.Parameter]poly{}
				for i, prm := range cal.Params {
					inner[prm] = polyOfEnv(call.Call.Args[i], sym, env, depth+1)
				}
				return polyOfEnv(ret.Results[0], sym, inner, depth+1)
			}
		}
	}
	return polyOfEnv1(v, sym, env, depth)
}

func polyOfEnv1(v ssa.Value, sym func(ssa.Value) string, env map[*ssa.Parameter]poly, depth int) poly {
	polyOf := func(v ssa.Value, sym func(ssa.Value) string) poly { return polyOfEnv(v, sym, env, depth) }
	switch x := v.(type) {
	case *ssa.Const:
		if r, ok := constInt(x); ok && r.IsInt() {
			return polyConst(r.Num().Int64())
		}
	case *ssa.Convert:
		return polyOf(x.X, sym)
	case *ssa.ChangeType:
		return polyOf(x.X, sym)
	case *ssa.BinOp:
		switch x.Op {
		case token.ADD:
			return polyOf(x.X, sym).add(polyOf(x.Y, sym), 1)
		case token.SUB:
			return polyOf(x.X, sym).add(polyOf(x.Y, sym), -1)
		case token.MUL:
			return polyOf(x.X, sym).mul(polyOf(x.Y, sym))
		}
	}
	return polySym(sym(v))
}
