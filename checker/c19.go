package main

import (
	"go/token"
	"go/types"
	"regexp"
	"strings"

	"golang.org/x/tools/go/ssa"
)

func init() { register("C19", checkC19) }

const kBF = "hs/security/crypto.Bitfield."

// c19Roles finds the bit field's private helpers by what they are (their signatures), so that
// renaming them changes nothing: the position function ID -> (byte, bit), its inverse
// (byte, bit) -> ID, and the bit test (Bitfield or *Bitfield).(byte, bit) -> bool.
func c19Roles(p *Prog) (idx, idf, isSet *ssa.Function) {
	idT := namedType(p, "", "ID")
	bfT := namedType(p, "security/crypto", "Bitfield")
	isInt := func(t types.Type) bool { b, ok := t.Underlying().(*types.Basic); return ok && b.Kind() == types.Int }
	for _, fn := range p.ModFuncs {
		if funcPkgPath(fn) != modPath+"/security/crypto" || fn.Parent() != nil || fn.Blocks == nil || fn.Synthetic != "" || strings.HasSuffix(p.FuncPos(fn), "_test.go") {
			continue
		}
		sig := fn.Signature
		ps, rs := sig.Params(), sig.Results()
		switch {
		case sig.Recv() == nil && ps.Len() == 1 && rs.Len() == 2 && idT != nil && types.Identical(ps.At(0).Type(), idT) && isInt(rs.At(0).Type()) && isInt(rs.At(1).Type()):
			idx = fn
		case sig.Recv() == nil && ps.Len() == 2 && rs.Len() == 1 && idT != nil && isInt(ps.At(0).Type()) && isInt(ps.At(1).Type()) && types.Identical(rs.At(0).Type(), idT):
			idf = fn
		case sig.Recv() != nil && bfT != nil && types.Identical(derefT(sig.Recv().Type()), bfT) && ps.Len() == 2 && rs.Len() == 1 && isInt(ps.At(0).Type()) && isInt(ps.At(1).Type()) && types.Identical(rs.At(0).Type(), types.Typ[types.Bool]):
			isSet = fn
		case sig.Recv() == nil && ps.Len() == 3 && rs.Len() == 1 && ps.At(0).Type().String() == "[]byte" && isInt(ps.At(1).Type()) && isInt(ps.At(2).Type()) && types.Identical(rs.At(0).Type(), types.Typ[types.Bool]):
			isSet = fn // the bit test as a function of the bytes
		}
	}
	return
}

var kIsSetCall, kIndexCall = "(hs/security/crypto.Bitfield).isSet(", "crypto.index("

func checkC19(c *Ctx) {
	p := c.P
	if idx, _, isSet := c19Roles(p); idx != nil && isSet != nil {
		kIsSetCall = shortName(isSet) + "("
		kIndexCall = strings.TrimPrefix(shortName(idx), "hs/security/") + "("
	}
	c.Decided = "multi-signature signer lists: every production construction of a Multi with more than one element is the Contains-gated append in Combine, or is checked for distinct signers by the verifiers before its size is trusted (C02.4), so size = number of distinct signers wherever a quorum check relies on it; " +
		"bit field: the element counter is written only by the guarded increment in set (under !isSet) and by the recount in BitfieldFromBytes; the id<->(byte,bit) mapping is a bijection (index and id are mutually inverse, by the Euclidean identity on the extracted expressions); " +
		"Contains tests the bounds before indexing, Add extends before setting, iteration visits bytes then bits in ascending order."
	c.Decided += " Every bit field that is mutated owns its bytes (no Add on a copy of another signature's bit field)."
	c.NotDec = "the bit operations themselves (mask/shift semantics); Add(0) (id 0 is outside the configured id range; Contains(0) is decided, C19.5)."
	c.Expect("C19.2", 3)
	c.Expect("C19.3", 3)
	c.Expect("C19.6", 2)

	// C19.1 construction sites of Multi with possibly more than one element
	c19Multi(c)
	c19Fresh(c)

	// C19.2 counter discipline
	// the operations that may change a bit field are Add and the decoder; their private helpers (today set, extend) are theirs
	ws := c.whoMayWrite("C19.2", p.Field("security/crypto", "Bitfield", "len"), "Bitfield.len", "(*hs/security/crypto.Bitfield).Add", "hs/security/crypto.BitfieldFromBytes")
	nInc := 0
	for _, w := range ws {
		st, ok := w.Instr.(*ssa.Store)
		if !ok || w.Fresh || declaredParent(w.Fn).Name() == "BitfieldFromBytes" {
			continue // the decoder recounts from the bytes (checked below)
		}
		fl := NewFlow(p, w.Fn)
		if !strings.HasSuffix(fl.K.Key(st.Val), kBF+"len + c:1)") {
			continue
		}
		nInc++
		facts := fl.At(st)
		okInc := fl.K.Key(st.Val) == "(p0->"+kBF+"len + c:1)" && falseOf(facts, func(k string) bool {
			return strings.HasPrefix(k, kIsSetCall+"*p0, ") || strings.HasPrefix(k, kIsSetCall+"p0, ") || strings.HasPrefix(k, kIsSetCall+"p0->"+kBF+"data, ")
		})
		if !okInc && fl.K.Key(st.Val) == "(p0->"+kBF+"len + c:1)" {
			okInc = c19ChangedByteGate(fl, st)
		}
		c.Check(okInc, "C19.2", "set: len++ only for a bit that was clear", p.InstrPos(st), "len := len+1 only under !isSet(byteIdx, bitIdx)", "increment not gated by !isSet; facts: "+join(facts.Sorted()))
	}
	if nInc == 0 {
		c.Unresolved("C19.2", "Bitfield.len increment", "no len := len+1 found")
	}
	c.whoMayWrite("C19.2", p.Field("security/crypto", "Bitfield", "data"), "Bitfield.data",
		"(*hs/security/crypto.Bitfield).Add", "hs/security/crypto.BitfieldFromBytes")
	if fb := p.Func("security/crypto", "BitfieldFromBytes"); fb != nil {
		// recount: len is set from a counter incremented once per ForEach callback
		fl := NewFlow(p, fb)
		ok := false
		for _, cl := range Closures(fb) {
			fcl := NewFlow(p, cl)
			eachInstr(cl, func(in ssa.Instruction) {
				if st, isSt := in.(*ssa.Store); isSt && strings.HasSuffix(fcl.K.Key(st.Val), " + c:1)") {
					ok = true
				}
			})
		}
		forEach := len(callsIn(fb, false, func(cc *ssa.CallCommon) bool {
			cal := cc.StaticCallee()
			return cal != nil && cal.Name() == "ForEach"
		})) == 1
		recount := ok && forEach
		if !recount {
			// alternative idiom: len = sum over the bytes of bits.OnesCount8(byte)
			eachInstr(fb, func(in ssa.Instruction) {
				st, isSt := in.(*ssa.Store)
				if !isSt {
					return
				}
				fa, isFA := st.Addr.(*ssa.FieldAddr)
				if !isFA || fieldName(fa.X.Type(), fa.Field) != kBF+"len" {
					return
				}
				ph, isPhi := st.Val.(*ssa.Phi)
				if !isPhi || len(ph.Edges) != 2 {
					return
				}
				for i := 0; i < 2; i++ {
					init, isC := ph.Edges[i].(*ssa.Const)
					bo, isB := ph.Edges[1-i].(*ssa.BinOp)
					if !isC || init.Value == nil || init.Int64() != 0 || !isB || bo.Op != token.ADD {
						continue
					}
					other := bo.Y
					if bo.Y == ph {
						other = bo.X
					} else if bo.X != ph {
						continue
					}
					if cv, isConv := other.(*ssa.Convert); isConv {
						other = cv.X
					}
					call, isCall := other.(*ssa.Call)
					if !isCall || call.Call.StaticCallee() == nil || !strings.HasPrefix(call.Call.StaticCallee().String(), "math/bits.OnesCount") {
						continue
					}
					arg := call.Call.Args[0]
					if cv, isConv := arg.(*ssa.Convert); isConv {
						arg = cv.X
					}
					if regexp.MustCompile(`^p0\[\(phi@b\d+i\d+ \+ c:1\)\]$`).MatchString(fl.K.Key(arg)) {
						recount = true
					}
				}
			})
		}
		if !recount {
			// in-place form: bf := Bitfield{data: b, len: 0}; for _, octet := range b { bf.len += bits.OnesCount8(octet) }
			elemRe := regexp.MustCompile(`^p0\[\(phi@b\d+i\d+ \+ c:1\)\]$`)
			nInit, nAcc, bad := 0, 0, 0
			eachInstr(fb, func(in ssa.Instruction) {
				st, isSt := in.(*ssa.Store)
				if !isSt {
					return
				}
				fa, isFA := st.Addr.(*ssa.FieldAddr)
				if !isFA || fieldName(fa.X.Type(), fa.Field) != kBF+"len" {
					return
				}
				if cst, isC := st.Val.(*ssa.Const); isC && cst.Value != nil && cst.Int64() == 0 {
					nInit++
					return
				}
				bo, isB := st.Val.(*ssa.BinOp)
				if !isB || bo.Op != token.ADD {
					bad++
					return
				}
				ld, other := bo.X, bo.Y
				if u, isU := ld.(*ssa.UnOp); !isU || fl.K.Key(u.X) != fl.K.Key(fa) {
					ld, other = bo.Y, bo.X
				}
				u, isU := ld.(*ssa.UnOp)
				if !isU || fl.K.Key(u.X) != fl.K.Key(fa) {
					bad++
					return
				}
				if cv, isConv := other.(*ssa.Convert); isConv {
					other = cv.X
				}
				call, isCall := other.(*ssa.Call)
				if !isCall || call.Call.StaticCallee() == nil || !strings.HasPrefix(call.Call.StaticCallee().String(), "math/bits.OnesCount") {
					bad++
					return
				}
				arg := call.Call.Args[0]
				if cv, isConv := arg.(*ssa.Convert); isConv {
					arg = cv.X
				}
				if elemRe.MatchString(fl.K.Key(arg)) {
					nAcc++
				} else {
					bad++
				}
			})
			recount = nInit == 1 && nAcc == 1 && bad == 0
		}
		// the bytes adopted are the bytes given, position for position: byte i holds ids 8i+1..8i+8, so dropping or
		// inserting leading bytes renumbers every member (trailing zero bytes may be cut: they hold no member)
		{
			kf := NewKeyer(p, fb)
			var got []string
			okData := false
			eachInstr(fb, func(in ssa.Instruction) {
				st, isSt := in.(*ssa.Store)
				if !isSt {
					return
				}
				fa, isFA := st.Addr.(*ssa.FieldAddr)
				if !isFA || fieldName(fa.X.Type(), fa.Field) != kBF+"data" {
					return
				}
				k := kf.Key(st.Val)
				got = append(got, k)
				switch {
				case k == "p0",
					strings.HasPrefix(k, "slices.Clone[") && strings.HasSuffix(k, "(p0)"),
					strings.HasPrefix(k, "bytes.Clone(p0)"),
					strings.HasPrefix(k, "bytes.TrimRight(p0, "),
					strings.HasPrefix(k, "builtin append(") && strings.Contains(k, ", p0)"):
					okData = true
				default:
					okData = false
					got = append(got, "(not the given bytes)")
				}
			})
			c.Check(okData, "C19.2", "BitfieldFromBytes: adopts the given bytes position for position", p.FuncPos(fb),
				"data := the byte string given (itself or a copy; trailing zero bytes may be cut)",
				"data is "+join(got)+": byte i of the set is no longer byte i of the input, so every id shifts by a multiple of 8 (a restored BLS aggregate is attributed to other replicas)")
		}
		c.Check(recount, "C19.2", "BitfieldFromBytes: len recounted from the bytes", p.FuncPos(fb), "len is the number of set bits of the given bytes (one ForEach callback per set bit, or the sum of bits.OnesCount8 over the bytes)", "no recount found")
	}

	// C19.3 index/id bijection
	idx, idf, _ := c19Roles(p)
	if idx == nil || idf == nil {
		c.Unresolved("C19.3", "index/id", "anchor missing")
	} else {
		ki := NewKeyer(p, idx)
		kd := NewKeyer(p, idf)
		rets := returnsOf(idx)
		okIdx := false
		var base int64
		detail := ""
		if len(rets) == 1 && len(rets[0].Results) == 2 {
			q, okq := rets[0].Results[0].(*ssa.BinOp)
			r, okr := rets[0].Results[1].(*ssa.BinOp)
			if okq && okr && q.Op == token.QUO && r.Op == token.REM && q.X == r.X {
				cq, ok1 := q.Y.(*ssa.Const)
				cr, ok2 := r.Y.(*ssa.Const)
				if ok1 && ok2 {
					vq, _ := constInt(cq)
					vr, _ := constInt(cr)
					if vq != nil && vr != nil && vq.Cmp(vr) == 0 && vq.IsInt() {
						base = vq.Num().Int64()
						divd := polyOf(q.X, func(v ssa.Value) string { return ki.Key(v) })
						want := polySym("p0").add(polyConst(1), -1)
						okIdx = divd.eq(want)
						detail = "index(id) = ((id-1)/" + itoa(int(base)) + ", (id-1)%" + itoa(int(base)) + "), dividend " + divd.String()
					}
				}
			}
		}
		c.Check(okIdx && base == 8, "C19.3", "index: (byte, bit) = ((id-1) div 8, (id-1) mod 8) of one dividend", p.FuncPos(idx), detail, "index does not have the Euclidean form with one dividend id-1 and one constant 8: "+detail)
		rd := returnsOf(idf)
		okId := false
		got := ""
		if len(rd) == 1 && len(rd[0].Results) == 1 {
			pl := polyOf(rd[0].Results[0], func(v ssa.Value) string { return kd.Key(v) })
			got = pl.String()
			want := polyConst(1).add(polySym("p0").mul(polyConst(base)), 1).add(polySym("p1"), 1)
			okId = pl.eq(want)
		}
		c.Check(okId, "C19.3", "id: 1 + 8*byte + bit", p.FuncPos(idf), "id(byte, bit) = "+got+"; with x = 8*(x div 8) + x mod 8 this gives id(index(x)) = x, and index(id(b,t)) = (b,t) for 0 <= t < 8", "id is "+got)
		// the bit loop stays below 8 (range 8) so every iterated (byte,bit) maps to a distinct id
		rw := p.Method("security/crypto", "Bitfield", "RangeWhile")
		okLoop := false
		if rw != nil {
			// (in RangeWhile or in the private helper that walks one byte)
			for _, hf := range helperClosure(p, rw, 2) {
				if funcPkgPath(hf) != funcPkgPath(rw) || hf == idf {
					continue
				}
				fl := NewFlow(p, hf)
				eachInstr(hf, func(in ssa.Instruction) {
					if call, isCall := in.(*ssa.Call); isCall && call.Call.StaticCallee() == idf {
						facts := fl.At(in)
						if hasCmp(facts, "<", func(k string) bool { return strings.HasPrefix(k, "(phi@") || strings.HasPrefix(k, "phi@") }, is("c:8")) {
							okLoop = true
						}
						// induction on the loop counter: starts at a constant below 8 and is re-entered only under counter+1 < 8
						if ph, isPhi := call.Call.Args[1].(*ssa.Phi); isPhi && phiBelow(fl, ph, 8) {
							okLoop = true
						}
					}
				})
			}
		}
		c.Check(okLoop, "C19.3", "RangeWhile: bit index ranges over 0..7", "security/crypto/bitfield.go", "id(byteIdx, bitIdx) is evaluated only under bitIdx < 8", "bit loop bound is not 8")
	}
	// C19.4 ascending iteration: bytes outer, bits inner, both by ascending range index; callback per set bit
	if rw := p.Method("security/crypto", "Bitfield", "RangeWhile"); rw != nil {
		n := 0
		var okGate bool
		for _, hf := range helperClosure(p, rw, 2) {
			if funcPkgPath(hf) != funcPkgPath(rw) {
				continue
			}
			fl := NewFlow(p, hf)
			eachInstr(hf, func(in ssa.Instruction) {
				call, ok := in.(*ssa.Call)
				if !ok || call.Call.StaticCallee() != nil || call.Call.IsInvoke() {
					return
				}
				if _, isB := call.Call.Value.(*ssa.Builtin); isB {
					return
				}
				if _, isParam := call.Call.Value.(*ssa.Parameter); !isParam {
					return
				}
				n++
				okGate = trueOf(fl.At(in), func(k string) bool { return strings.HasPrefix(k, kIsSetCall) })
			})
		}
		c.Check(n == 1 && okGate, "C19.4", "RangeWhile: callback once per set bit", p.FuncPos(rw), "the callback is invoked at one site, only under isSet(byteIdx, bitIdx)", "callback sites: "+itoa(n)+", gated: "+boolStr(okGate))
	}
	c19StopsOnFalse(c, p.Method("security/crypto", "Bitfield", "RangeWhile"), "Bitfield.RangeWhile")
	c19StopsOnFalse(c, p.Method("security/crypto", "Multi", "RangeWhile"), "Multi.RangeWhile")
	// C19.5 bounds
	if ct := p.Method("security/crypto", "Bitfield", "Contains"); ct != nil {
		fl := NewFlow(p, ct)
		ok := true
		n := 0
		eachInstr(ct, func(in ssa.Instruction) {
			call, isCall := in.(*ssa.Call)
			if !isCall || call.Call.StaticCallee() == nil || !strings.HasPrefix(shortName(call.Call.StaticCallee())+"(", kIsSetCall) {
				return
			}
			n++
			// len(data) > byteIdx
			if !hasCmp(fl.At(in), "<", func(k string) bool { return strings.HasSuffix(k, "#0") && strings.Contains(k, kIndexCall) },
				func(k string) bool { return strings.HasPrefix(k, "builtin len(") && strings.Contains(k, kBF+"data") }) {
				ok = false
			}
		})
		c.Check(ok && n > 0, "C19.5", "Contains: bounds test before indexing", p.FuncPos(ct), "isSet is reached only under byteIdx < len(data)", "isSet reachable with byteIdx >= len(data)")
		// id 0 has bit index -1 (a negative shift): it must be answered before indexing
		okZero := true
		eachInstr(ct, func(in ssa.Instruction) {
			call, isCall := in.(*ssa.Call)
			if !isCall || call.Call.StaticCallee() == nil || !strings.HasPrefix(shortName(call.Call.StaticCallee())+"(", kIsSetCall) {
				return
			}
			if !hasCmp(fl.At(in), "!=", is("p1"), is("c:0")) {
				okZero = false
			}
		})
		c.Check(okZero && n > 0, "C19.5", "Contains: id 0 is answered without indexing", p.FuncPos(ct), "isSet is reached only under id != 0 (index(0) has bit index -1)",
			"Contains(0) reaches isSet with bit index -1: 1 << -1 panics on a non-empty bit field (a membership query must be total)")
	}
	if ad := p.Method("security/crypto", "Bitfield", "Add"); ad != nil {
		fl := NewFlow(p, ad)
		dataField := func(k *Keyer, v ssa.Value) bool { return strings.HasSuffix(k.Key(v), kBF+"data") }
		// does fn write an element of data / grow data?
		writesElem := func(fn *ssa.Function) bool {
			k, found := NewKeyer(p, fn), false
			eachInstr(fn, func(in ssa.Instruction) {
				if st, ok := in.(*ssa.Store); ok {
					if ia, ok := st.Addr.(*ssa.IndexAddr); ok && dataField(k, ia.X) {
						found = true
					}
				}
			})
			return found
		}
		growAmount := func(fn *ssa.Function, in ssa.Instruction) string {
			// data = append(data, make([]byte, n)...): returns the key of n
			k := NewKeyer(p, fn)
			st, ok := in.(*ssa.Store)
			if !ok {
				return ""
			}
			fa, ok := st.Addr.(*ssa.FieldAddr)
			if !ok || fieldName(fa.X.Type(), fa.Field) != kBF+"data" {
				return ""
			}
			call, ok := st.Val.(*ssa.Call)
			if !ok || len(call.Call.Args) != 2 {
				return ""
			}
			if b, ok := call.Call.Value.(*ssa.Builtin); !ok || b.Name() != "append" || !dataField(k, call.Call.Args[0]) {
				return ""
			}
			if ms, ok := call.Call.Args[1].(*ssa.MakeSlice); ok {
				return k.Key(ms.Len)
			}
			return ""
		}
		enough := func(k string) bool {
			return strings.Contains(k, kIndexCall) && strings.Contains(k, "+ c:1)") && strings.Contains(k, "- builtin len(")
		}
		// the set operation in Add: a direct element store, or a call of a helper of the package that performs it
		isSetOp := func(in ssa.Instruction) bool {
			if st, ok := in.(*ssa.Store); ok {
				if ia, ok := st.Addr.(*ssa.IndexAddr); ok && dataField(fl.K, ia.X) {
					return true
				}
			}
			if ci, ok := in.(ssa.CallInstruction); ok {
				if cal := ci.Common().StaticCallee(); cal != nil && cal != ad && cal.Blocks != nil && funcPkgPath(cal) == funcPkgPath(ad) && writesElem(cal) {
					return true
				}
			}
			return false
		}
		// the extension in Add: data grown by byteIdx+1-len(data), directly or through a helper that grows by its argument
		extOK := false
		isExt := func(in ssa.Instruction) bool {
			if n := growAmount(ad, in); n != "" && enough(n) {
				extOK = true
				return true
			}
			if ci, ok := in.(ssa.CallInstruction); ok {
				cal := ci.Common().StaticCallee()
				if cal == nil || cal == ad || cal.Blocks == nil || funcPkgPath(cal) != funcPkgPath(ad) || len(ci.Common().Args) != 2 {
					return false
				}
				grows := false
				eachInstr(cal, func(x ssa.Instruction) {
					if growAmount(cal, x) == "p1" {
						grows = true
					}
				})
				if grows && enough(fl.K.Key(ci.Common().Args[1])) {
					extOK = true
					return true
				}
				// an ensure-size helper: `grow(n)` returns at once under n <= len(data) and otherwise appends
				// n-len(data) fresh zero bytes; called with byteIdx+1
				var growIn ssa.Instruction
				eachInstr(cal, func(x ssa.Instruction) {
					if g := growAmount(cal, x); strings.HasPrefix(g, "(p1 - builtin len(") {
						growIn = x
					}
				})
				if ak := fl.K.Key(ci.Common().Args[1]); growIn != nil && strings.Contains(ak, kIndexCall) && strings.HasSuffix(ak, "+ c:1)") {
					hfl := NewFlow(p, cal)
					w := cfgSearch(hfl, nil, cal.Blocks[0], isReturn, func(x ssa.Instruction) bool { return x == growIn }, func(fs []Fact) bool {
						for _, f := range fs {
							if f.Op == "<=" && f.L == "p1" && strings.HasPrefix(f.R, "builtin len(") {
								return true
							}
						}
						return false
					})
					if w == nil {
						extOK = true
						return true
					}
				}
			}
			return false
		}
		inBounds := func(fs []Fact) bool {
			for _, f := range fs {
				if f.Op == "<" && strings.Contains(f.L, kIndexCall) && strings.HasPrefix(f.R, "builtin len(") {
					return true
				}
				// the same test on the amount that is missing: byteIdx + 1 - len(data) <= 0
				if f.Op == "<=" && f.R == "c:0" && strings.Contains(f.L, kIndexCall) && strings.Contains(f.L, "+ c:1) - builtin len(") {
					return true
				}
			}
			return false
		}
		ok, n := true, 0
		eachInstr(ad, func(in ssa.Instruction) {
			if !isSetOp(in) {
				return
			}
			n++
			// every path to the set operation either has byteIdx < len(data) or passed the extension
			if w := cfgSearch(fl, nil, ad.Blocks[0], func(x ssa.Instruction) bool { return x == in }, isExt, inBounds); w != nil {
				ok = false
			}
		})
		eachInstr(ad, func(in ssa.Instruction) { isExt(in) })
		// the extension by byteIdx+1-len(data) is made only when that amount is positive (make panics on a negative
		// length): the growing call is reached only under len(data) <= byteIdx, unless it is an ensure-size helper that
		// makes the test itself
		needed := func(fs []Fact) bool {
			for _, f := range fs {
				if f.Op == "<=" && strings.HasPrefix(f.L, "builtin len(") && strings.Contains(f.R, kIndexCall) {
					return true
				}
				if f.Op == "<" && f.L == "c:0" && strings.Contains(f.R, kIndexCall) && strings.Contains(f.R, "- builtin len(") {
					return true
				}
			}
			return false
		}
		eachInstr(ad, func(in ssa.Instruction) {
			grows := growAmount(ad, in) != ""
			if ci, isCall := in.(ssa.CallInstruction); isCall && !grows {
				if cal := ci.Common().StaticCallee(); cal != nil && cal != ad && cal.Blocks != nil && funcPkgPath(cal) == funcPkgPath(ad) && len(ci.Common().Args) == 2 {
					eachInstr(cal, func(x ssa.Instruction) {
						if growAmount(cal, x) == "p1" {
							grows = true // grows by exactly its argument, whatever its sign
						}
					})
				}
			}
			if !grows {
				return
			}
			okN := false
			for f := range fl.At(in) {
				if needed([]Fact{f}) {
					okN = true
				}
			}
			if !okN && !branchDominates(fl, in, func(f Fact) bool { return needed([]Fact{f}) }) {
				ok = false
			}
		})
		c.Check(ok && n > 0 && extOK, "C19.5", "Add: extends before setting", p.FuncPos(ad), "the bit is set only with byteIdx < len(data), after growing data by byteIdx+1-len(data) fresh zero bytes otherwise (append(data, make([]byte, n)...))",
			"the set operation is reachable without byteIdx < len(data) and without the recognised extension (data = append(data, make([]byte, byteIdx+1-len(data))...), which grows the set by zero bytes): either the index is out of range, or the new bytes are not known to be zero (bytes between len and cap that an adopted slice left behind become members)")
	}
}

// c19Multi: where can a Multi value with more than one element come from?
func c19Multi(c *Ctx) {
	p := c.P
	// (a) Combine: appends are gated by !Contains(signer)
	for _, scheme := range []string{"ECDSA", "EDDSA"} {
		fn := p.Method("security/crypto", scheme, "Combine")
		if fn == nil {
			c.Unresolved("C19.1", scheme+".Combine", "anchor missing")
			continue
		}
		n := 0
		ok := true
		// (in Combine or in a private helper of the package that merges one signature into the combined one)
		for _, hf := range helperClosure(p, fn, 2) {
			if funcPkgPath(hf) != funcPkgPath(fn) {
				continue
			}
			fl := NewFlow(p, hf)
			eachInstr(hf, func(in ssa.Instruction) {
				call, isCall := in.(*ssa.Call)
				if !isCall {
					return
				}
				b, isB := call.Call.Value.(*ssa.Builtin)
				if !isB || b.Name() != "append" || !strings.Contains(call.Type().String(), "Multi[") {
					return
				}
				n++
				var elem string
				storedInto(sliceBase(call.Call.Args[1]), func(e ssa.Value) bool { elem = fl.K.Key(e); return false })
				if !falseOf(fl.At(in), func(k string) bool {
					return strings.Contains(k, ".Contains(") && (strings.Contains(k, ".Signer("+elem+")") || strings.Contains(k, ".Signer(*"+elem+")"))
				}) {
					ok = false
				}
			})
		}
		c.Check(ok && n > 0, "C19.1", scheme+".Combine: a signer is appended only if not yet contained", p.FuncPos(fn),
			"every append to the combined Multi is under !combined.Contains(sig.Signer())", "append not gated by !Contains(signer)")
		// C19.8 the combined list owns its storage: the slice that is appended to starts as a fresh allocation (make, nil,
		// a literal), never as one of the inputs -- append on an input with spare capacity writes into the array that an
		// earlier result built from the same input still refers to (its signer list changes under its owner)
		{
			closure := helperClosure(p, fn, 2)
			var bad []string
			na := 0
			for _, hf := range closure {
				if funcPkgPath(hf) != funcPkgPath(fn) {
					continue
				}
				eachInstr(hf, func(in ssa.Instruction) {
					call, isCall := in.(*ssa.Call)
					if !isCall {
						return
					}
					b, isB := call.Call.Value.(*ssa.Builtin)
					if !isB || b.Name() != "append" || !strings.Contains(call.Type().String(), "Multi[") {
						return
					}
					na++
					if why := notFreshSlice(call.Call.Args[0], hf, fn, closure, map[ssa.Value]bool{}, 0); why != "" {
						bad = append(bad, p.InstrPos(in)+": "+why)
					}
				})
			}
			c.Check(len(bad) == 0 && na > 0, "C19.8", scheme+".Combine: the combined signer list is built in storage of its own", p.FuncPos(fn),
				"every append that builds the result extends a slice rooted in a fresh allocation (make / nil / literal)",
				"the result is built by appending to a slice that is not Combine's own: "+join(bad)+" (two results derived from the same input share one backing array; the later append rewrites the earlier result's signers)")
		}
	}
	// (b) wire decoding builds a Multi unchecked; the verifiers re-establish distinctness before Len() is trusted
	for _, scheme := range []string{"ECDSA", "EDDSA"} {
		for _, m := range []string{"Verify", "BatchVerify"} {
			fn := p.Method("security/crypto", scheme, m)
			if fn == nil {
				c.Unresolved("C19.1", scheme+"."+m, "anchor missing")
				continue
			}
			fl := NewFlow(p, fn)
			v, d := dupGate(c, fl, successExits(fl, 0))
			c.add("C19.1", scheme+"."+m+": size of a decoded signer list is trusted only if signers are distinct", p.FuncPos(fn), v, d, true)
		}
	}
	// (d) Contains is an order-independent membership test (signer lists are in arrival order, never sorted)
	for _, fn := range []*ssa.Function{p.Method("security/crypto", "Multi", "Contains")} {
		if fn == nil {
			c.Unresolved("C19.1", "Multi.Contains", "anchor missing")
			break
		}
		ok := false
		detail := "no full scan recognised"
		eachInstr(fn, func(in ssa.Instruction) {
			call, isCall := in.(*ssa.Call)
			if !isCall || call.Call.StaticCallee() == nil {
				return
			}
			name := call.Call.StaticCallee().String()
			if strings.HasPrefix(name, "slices.BinarySearch") || strings.HasPrefix(name, "sort.Search") {
				detail = "uses " + name[:strings.Index(name+"[", "[")] + ", which is only correct on a sorted list"
				return
			}
			if strings.HasPrefix(name, "slices.ContainsFunc") || strings.HasPrefix(name, "slices.IndexFunc") {
				if cl := funcOfValue(call.Call.Args[1]); cl != nil {
					ways := trueEdges(NewFlow(p, cl))
					if len(ways) == 1 && hasCmp(ways[0], "==", func(k string) bool { return strings.Contains(k, ".Signer(p0)") || strings.Contains(k, ".Signer(*p0)") }, func(k string) bool { return strings.HasPrefix(k, "fv:") || strings.HasPrefix(k, "*fv:") }) {
						ok = true
					}
				}
			}
		})
		if !ok && !strings.HasPrefix(detail, "uses") {
			// explicit loop over all elements returning true on a signer match
			fl := NewFlow(p, fn)
			for _, r := range returnsOf(fn) {
				if isBoolConst(retValue(r, 0), true) && hasCmp(fl.At(r), "==", func(k string) bool { return strings.Contains(k, ".Signer(p0[") }, is("p1")) {
					ok = true
				}
			}
		}
		c.Check(ok, "C19.1", "Multi.Contains scans every entry", p.FuncPos(fn),
			"membership is decided by comparing id with the signer of every entry, independent of their order", "Multi.Contains "+detail+": Combine's overlap check then misses repeated signers in lists that are in arrival order")
		break
	}
	// (c) Len is len(slice)
	for _, fn := range p.ModFuncs {
		if fn.Name() == "Len" && fn.Origin() != nil && strings.Contains(fn.String(), "crypto.Multi[") {
			k := NewKeyer(p, fn)
			rets := returnsOf(fn)
			ok := len(rets) == 1 && strings.HasPrefix(k.Key(rets[0].Results[0]), "builtin len(p0)")
			c.Check(ok, "C19.1", "Multi.Len = len(list)", p.FuncPos(fn), "the size of a signer list is its length (hence the need for distinctness)", "unexpected Len")
			break
		}
	}
}

// phiBelow proves phi < bound by induction over its edges: every incoming value is a
// constant below the bound or phi+1 delivered by an edge on which phi+1 < bound holds.
func phiBelow(fl *Flow, ph *ssa.Phi, bound int64) bool {
	pk := fl.K.Key(ph)
	for i, e := range ph.Edges {
		pred := ph.Block().Preds[i]
		if !fl.Reachable(pred) {
			continue
		}
		if cst, ok := e.(*ssa.Const); ok {
			if r, ok := constInt(cst); ok && r.IsInt() && r.Num().Int64() < bound && r.Num().Int64() >= 0 {
				continue
			}
			return false
		}
		ek := fl.K.Key(e)
		if ek != "("+pk+" + c:1)" {
			return false
		}
		if !fl.AtEdge(pred, ph.Block())[Fact{"<", ek, "c:" + itoa(int(bound))}] {
			return false
		}
	}
	return true
}

// c19Fresh (C19.6): a bit field that is mutated owns its bytes. Bitfield is a struct around
// a byte slice and a cached count; copying the struct shares the bytes but not the count,
// so Add on a copy changes the membership of the original while its Len() stays stale.
// Every receiver of (*Bitfield).Add must therefore be a local that starts as the zero
// value and is never assigned another bit field.
func c19Fresh(c *Ctx) {
	p := c.P
	add := p.Method("security/crypto", "Bitfield", "Add")
	if add == nil {
		c.Unresolved("C19.6", "Bitfield.Add", "anchor missing")
		return
	}
	n := 0
	for _, fn := range p.ModFuncs {
		if strings.HasSuffix(p.FuncPos(fn), "_test.go") || fn == add {
			continue
		}
		for _, s := range callsIn(fn, false, func(cc *ssa.CallCommon) bool { return calleeIs(cc, add) }) {
			n++
			recv := s.Common().Args[0]
			// resolve a captured variable to the cell of the enclosing function
			owner := fn
			for i := 0; i < 4; i++ {
				viaCell := false
				if u, isLoad := recv.(*ssa.UnOp); isLoad && u.Op == token.MUL {
					if _, isFV := u.X.(*ssa.FreeVar); isFV {
						recv, viaCell = u.X, true // a captured pointer variable: the cell holds the pointer
					}
				}
				fv, ok := recv.(*ssa.FreeVar)
				if !ok || owner.Parent() == nil {
					break
				}
				_ = viaCell
				var bound ssa.Value
				eachInstr(owner.Parent(), func(in ssa.Instruction) {
					if mc, ok := in.(*ssa.MakeClosure); ok && mc.Fn == owner {
						for j, v := range owner.FreeVars {
							if v == fv && j < len(mc.Bindings) {
								bound = mc.Bindings[j]
							}
						}
					}
				})
				if bound == nil {
					break
				}
				recv, owner = bound, owner.Parent()
				if viaCell {
					// the cell's content: the single value stored into it (typically a spilled parameter)
					if cell, isAlloc := bound.(*ssa.Alloc); isAlloc {
						var vals []ssa.Value
						storedInto(cell, func(v ssa.Value) bool { vals = append(vals, v); return false })
						if len(vals) == 1 {
							recv = vals[0]
						}
					}
				}
			}
			// a pointer parameter of a private helper: every caller must pass the address of such a local
			if prm, isPrm := recv.(*ssa.Parameter); isPrm && owner.Object() != nil && !owner.Object().Exported() {
				idx := -1
				for i, q := range owner.Params {
					if q == prm {
						idx = i
					}
				}
				ci := callIndexOf(p)
				refs := ci.callers[owner]
				if idx >= 0 && len(refs) > 0 && !ci.asValue[owner] {
					allFresh := true
					for _, r := range refs {
						a, isAlloc := r.Instr.(ssa.CallInstruction).Common().Args[idx].(*ssa.Alloc)
						if !isAlloc || c19AllocAssigned(p, r.In, a) != "" {
							allFresh = false
						}
					}
					if allFresh {
						c.Held("C19.6", shortName(fn)+": Add mutates a bit field that owns its bytes", p.Pos(s.Pos()),
							"the receiver is a parameter of a private helper; every caller passes the address of a local that starts empty and is never assigned another bit field")
						continue
					}
				}
			}
			// a field of the receiver of a private method (a small accumulator type): every receiver the method is used
			// with must be a local whose bit-field field starts empty and is never assigned
			if fa, isFA := recv.(*ssa.FieldAddr); isFA {
				if prm, isPrm := fa.X.(*ssa.Parameter); isPrm && len(owner.Params) > 0 && prm == owner.Params[0] && owner.Signature.Recv() != nil && owner.Object() != nil && !owner.Object().Exported() {
					if why := c19AccumulatorFresh(p, owner, fa.Field); why == "" {
						c.Held("C19.6", shortName(fn)+": Add mutates a bit field that owns its bytes", p.Pos(s.Pos()),
							"the receiver is a field of a private accumulator; every accumulator is a local whose bit field starts empty and is never assigned another bit field")
						continue
					}
				}
			}
			al, ok := recv.(*ssa.Alloc)
			reason := ""
			if !ok {
				reason = "the receiver " + NewKeyer(p, fn).Key(s.Common().Args[0]) + " is not a local bit field of the function (it may share its bytes with another signature)"
			} else if r := c19AllocAssigned(p, owner, al); r != "" {
				reason = r
			} else if false {
				k := NewKeyer(p, owner)
				if al.Referrers() != nil {
					for _, r := range *al.Referrers() {
						if st, isSt := r.(*ssa.Store); isSt && st.Addr == al {
							if u, isLoad := st.Val.(*ssa.UnOp); isLoad {
								if a2, isA := u.X.(*ssa.Alloc); isA && a2.Comment == "complit" {
									continue // Bitfield{} literal
								}
							}
							if cst, isC := st.Val.(*ssa.Const); isC && cst.Value == nil {
								continue
							}
							reason = "the accumulator is assigned " + k.Key(st.Val) + " at " + p.InstrPos(st) + ": it shares that bit field's bytes, and Add then changes the other signature's membership while its count stays stale"
						}
					}
				}
			}
			c.Check(reason == "", "C19.6", shortName(fn)+": Add mutates a bit field that owns its bytes", p.Pos(s.Pos()),
				"the receiver is a local that starts empty and is never assigned another bit field", reason)
		}
	}
	if n < 2 {
		c.Unresolved("C19.6", "Bitfield.Add call sites", "expected the sites in Sign and Combine; found "+itoa(n))
	}
}

// c19AllocAssigned: "" if the local bit field al of fn only ever holds its zero value or a
// Bitfield{} literal before being mutated; otherwise what it is assigned.
func c19AllocAssigned(p *Prog, fn *ssa.Function, al *ssa.Alloc) string {
	k := NewKeyer(p, fn)
	if al.Referrers() == nil {
		return ""
	}
	for _, r := range *al.Referrers() {
		if st, isSt := r.(*ssa.Store); isSt && st.Addr == al {
			if u, isLoad := st.Val.(*ssa.UnOp); isLoad {
				if a2, isA := u.X.(*ssa.Alloc); isA && a2.Comment == "complit" {
					continue // Bitfield{} literal
				}
			}
			if cst, isC := st.Val.(*ssa.Const); isC && cst.Value == nil {
				continue
			}
			return "the accumulator is assigned " + k.Key(st.Val) + " at " + p.InstrPos(st) + ": it shares that bit field's bytes, and Add then changes the other signature's membership while its count stays stale"
		}
	}
	return ""
}

// c19AccumulatorFresh: every receiver that the private method m is used with (called directly or
// bound as a method value) is the address of a local struct whose field #field is never stored to
// (it keeps its zero value until m mutates it). Returns "" or the reason.
func c19AccumulatorFresh(p *Prog, m *ssa.Function, field int) string {
	ci := callIndexOf(p)
	var recvs []ssa.Value
	for _, r := range ci.callers[m] {
		if strings.Contains(r.In.Synthetic, "bound method wrapper") {
			// where is the wrapper bound?
			found := false
			for _, fn := range p.ModFuncs {
				eachInstr(fn, func(in ssa.Instruction) {
					if mc, ok := in.(*ssa.MakeClosure); ok && mc.Fn == ssa.Value(r.In) && len(mc.Bindings) == 1 {
						recvs = append(recvs, mc.Bindings[0])
						found = true
					}
				})
			}
			if !found {
				return "bound method value with unknown receiver"
			}
			continue
		}
		if r.Kind != "call" {
			return "used other than by a synchronous call"
		}
		recvs = append(recvs, r.Instr.(ssa.CallInstruction).Common().Args[0])
	}
	if len(recvs) == 0 || ci.asValue[m] {
		return "no known use"
	}
	for _, rv := range recvs {
		al, ok := rv.(*ssa.Alloc)
		if !ok {
			return "a receiver is not a local"
		}
		if al.Referrers() == nil {
			continue
		}
		for _, ref := range *al.Referrers() {
			switch x := ref.(type) {
			case *ssa.FieldAddr:
				if x.Field != field || x.Referrers() == nil {
					continue
				}
				for _, u := range *x.Referrers() {
					if st, isSt := u.(*ssa.Store); isSt && st.Addr == ssa.Value(x) {
						return "the accumulator's bit field is assigned at " + p.InstrPos(st)
					}
				}
			case *ssa.Store:
				if x.Addr == ssa.Value(al) {
					// whole-struct assignment: only a literal that leaves the field at its zero value
					u, isLoad := x.Val.(*ssa.UnOp)
					lit, _ := func() (*ssa.Alloc, bool) {
						if !isLoad {
							return nil, false
						}
						a, ok := u.X.(*ssa.Alloc)
						return a, ok
					}()
					if lit == nil || lit.Comment != "complit" {
						return "the accumulator is assigned as a whole at " + p.InstrPos(x)
					}
					if lit.Referrers() != nil {
						for _, lr := range *lit.Referrers() {
							if lfa, isFA := lr.(*ssa.FieldAddr); isFA && lfa.Field == field && lfa.Referrers() != nil {
								for _, u2 := range *lfa.Referrers() {
									if st2, isSt := u2.(*ssa.Store); isSt && st2.Addr == ssa.Value(lfa) {
										return "the accumulator literal sets its bit field at " + p.InstrPos(st2)
									}
								}
							}
						}
					}
				}
			}
		}
	}
	return ""
}

// c19StopsOnFalse (C19.7): RangeWhile visits ids "until f returns false": once a call of the
// callback returned false, no further call of the callback is reachable, in the method or in the
// private helpers it is split into. A helper that swallows the stop (breaks out of its own loop and
// reports "go on" to its caller) makes the walk resume further on: callers that stop at the first
// hit (the first participant of a vote, an overlap test) then see a later element.
// The search follows the stop edge through returns into the callers: a constant boolean result
// selects the caller's branch.
func c19StopsOnFalse(c *Ctx, root *ssa.Function, what string) {
	p := c.P
	if root == nil {
		c.Unresolved("C19.7", what, "anchor missing")
		return
	}
	scope := helperClosure(p, root, 2)
	inScope := map[*ssa.Function]bool{}
	for _, f := range scope {
		inScope[f] = true
	}
	isCallback := func(in ssa.Instruction) bool {
		call, ok := in.(*ssa.Call)
		if !ok || call.Call.IsInvoke() || call.Call.StaticCallee() != nil {
			return false
		}
		if _, isB := call.Call.Value.(*ssa.Builtin); isB {
			return false
		}
		sig, ok := call.Call.Value.Type().Underlying().(*types.Signature)
		if !ok || sig.Results().Len() != 1 || !types.Identical(sig.Results().At(0).Type(), types.Typ[types.Bool]) {
			return false
		}
		_, isParam := call.Call.Value.(*ssa.Parameter)
		return isParam
	}
	may := map[*ssa.Function]bool{}
	for changed := true; changed; {
		changed = false
		for _, f := range scope {
			if may[f] {
				continue
			}
			eachInstr(f, func(in ssa.Instruction) {
				if isCallback(in) {
					may[f] = true
				}
				if ci, ok := in.(ssa.CallInstruction); ok {
					if cal := ci.Common().StaticCallee(); cal != nil && inScope[cal] && may[cal] {
						may[f] = true
					}
				}
			})
			if may[f] {
				changed = true
			}
		}
	}
	type at struct {
		b *ssa.BasicBlock
		i int
	}
	var witness string
	seen := map[at]bool{}
	var explore func(fn *ssa.Function, b *ssa.BasicBlock, start int, depth int)
	explore = func(fn *ssa.Function, b *ssa.BasicBlock, start int, depth int) {
		if witness != "" || seen[at{b, start}] || depth > 6 {
			return
		}
		seen[at{b, start}] = true
		for i := start; i < len(b.Instrs); i++ {
			in := b.Instrs[i]
			if isCallback(in) {
				witness = p.InstrPos(in)
				return
			}
			if ci, ok := in.(ssa.CallInstruction); ok {
				if cal := ci.Common().StaticCallee(); cal != nil && inScope[cal] && may[cal] {
					witness = p.InstrPos(in) + " (calls " + shortName(cal) + ")"
					return
				}
			}
			if r, ok := in.(*ssa.Return); ok {
				if fn == root {
					return
				}
				// into the callers, along the branch the returned value selects
				var val *bool
				if len(r.Results) == 1 {
					if isBoolConst(retValue(r, 0), true) {
						t := true
						val = &t
					} else if isBoolConst(retValue(r, 0), false) {
						f := false
						val = &f
					}
				}
				for _, ref := range callIndexOf(p).callers[fn] {
					if !inScope[ref.In] {
						continue
					}
					call, ok := ref.Instr.(*ssa.Call)
					if !ok {
						continue
					}
					cb := call.Block()
					idx := 0
					for j, x := range cb.Instrs {
						if x == ssa.Instruction(call) {
							idx = j + 1
						}
					}
					// does the caller branch on the result at the end of this block?
					if iff, isIf := cb.Instrs[len(cb.Instrs)-1].(*ssa.If); isIf && val != nil && len(cb.Succs) == 2 {
						cond, truth := iff.Cond, true
						for {
							u, ok := cond.(*ssa.UnOp)
							if !ok || u.Op != token.NOT {
								break
							}
							cond, truth = u.X, !truth
						}
						if cond == ssa.Value(call) {
							// the instructions between the call and the branch, then the selected successor
							s := cb.Succs[1]
							if *val == truth {
								s = cb.Succs[0]
							}
							explore(ref.In, s, 0, depth+1)
							continue
						}
					}
					explore(ref.In, cb, idx, depth+1)
				}
				return
			}
		}
		for _, s := range b.Succs {
			explore(fn, s, 0, depth)
		}
	}
	n := 0
	for _, f := range scope {
		eachInstr(f, func(in ssa.Instruction) {
			if !isCallback(in) {
				return
			}
			call := in.(*ssa.Call)
			b := call.Block()
			iff, isIf := b.Instrs[len(b.Instrs)-1].(*ssa.If)
			if !isIf || len(b.Succs) != 2 {
				return
			}
			cond, truth := iff.Cond, true
			for {
				u, ok := cond.(*ssa.UnOp)
				if !ok || u.Op != token.NOT {
					break
				}
				cond, truth = u.X, !truth
			}
			if cond != ssa.Value(call) {
				return
			}
			n++
			stop := b.Succs[0] // taken when the condition is true
			if truth {
				stop = b.Succs[1] // the callback's false result
			}
			explore(f, stop, 0, 0)
		})
	}
	if n == 0 {
		c.Unresolved("C19.7", what, "no branch on the callback's result found")
		return
	}
	c.Check(witness == "", "C19.7", what+": no callback after the callback said stop", p.FuncPos(root),
		"from the edge taken when f returns false no further call of f is reachable (through "+itoa(len(scope))+" function(s), following returned constants into the callers)",
		"after f returned false the walk can go on and call f again at "+witness+": callers that stop at the first match see a later element")
}

// c19ChangedByteGate: the increment at st is reached only through the true edge of `data[i] != old`, where old was read
// from data[i], then data[i] was set to old | 1<<bit, then read again: the byte changed exactly when the bit was clear.
func c19ChangedByteGate(fl *Flow, st *ssa.Store) bool {
	fn := fl.Fn
	for _, b := range fn.Blocks {
		iff, ok := b.Instrs[len(b.Instrs)-1].(*ssa.If)
		if !ok || len(b.Succs) != 2 {
			continue
		}
		bo, ok := iff.Cond.(*ssa.BinOp)
		if !ok || (bo.Op != token.NEQ && bo.Op != token.EQL) {
			continue
		}
		gate := b.Succs[0]
		if bo.Op == token.EQL {
			gate = b.Succs[1]
		}
		if len(gate.Preds) != 1 || !gate.Dominates(st.Block()) {
			continue
		}
		for _, pair := range [][2]ssa.Value{{bo.X, bo.Y}, {bo.Y, bo.X}} {
			newv, oldv := pair[0], pair[1]
			ln, ok1 := newv.(*ssa.UnOp)
			lo, ok2 := oldv.(*ssa.UnOp)
			if !ok1 || !ok2 || ln.Op != token.MUL || lo.Op != token.MUL {
				continue
			}
			ian, ok1 := ln.X.(*ssa.IndexAddr)
			iao, ok2 := lo.X.(*ssa.IndexAddr)
			if !ok1 || !ok2 || fl.K.Key(ian) != fl.K.Key(iao) || !strings.HasSuffix(fl.K.Key(iao.X), kBF+"data") {
				continue
			}
			// between the two reads: exactly the store data[i] = old | (1 << bit)
			found := false
			eachInstr(fn, func(in ssa.Instruction) {
				s2, ok := in.(*ssa.Store)
				if !ok {
					return
				}
				ia2, ok := s2.Addr.(*ssa.IndexAddr)
				if !ok || fl.K.Key(ia2) != fl.K.Key(iao) {
					return
				}
				or, ok := s2.Val.(*ssa.BinOp)
				if !ok || or.Op != token.OR {
					found = false
					return
				}
				var mask ssa.Value
				if or.X == ssa.Value(lo) {
					mask = or.Y
				} else if or.Y == ssa.Value(lo) {
					mask = or.X
				}
				if mask == nil {
					return
				}
				for i := 0; i < 3; i++ {
					if cv, isConv := mask.(*ssa.Convert); isConv {
						mask = cv.X
					}
				}
				sh, ok := mask.(*ssa.BinOp)
				if ok && sh.Op == token.SHL && isIntConst(sh.X, 1) && precedes(lo, s2) && precedes(s2, ln) {
					found = true
				}
			})
			if found {
				return true
			}
		}
	}
	return false
}

// notFreshSlice reports why the slice v (an operand that is appended to, in function cur) may share its backing array with a
// value that exists outside the function `top`; "" when every root is a fresh allocation. Parameters of private helpers are
// followed to the helpers' call sites inside the closure.
func notFreshSlice(v ssa.Value, cur, top *ssa.Function, closure []*ssa.Function, seen map[ssa.Value]bool, depth int) string {
	if seen[v] {
		return ""
	}
	seen[v] = true
	if depth > 12 {
		return "slice origin too deep to follow"
	}
	switch x := v.(type) {
	case *ssa.MakeSlice:
		return ""
	case *ssa.Const:
		if x.IsNil() {
			return ""
		}
		return "constant"
	case *ssa.Call:
		if b, ok := x.Call.Value.(*ssa.Builtin); ok && b.Name() == "append" {
			return notFreshSlice(x.Call.Args[0], cur, top, closure, seen, depth+1)
		}
		if callee := x.Call.StaticCallee(); callee != nil && callee.Name() == "Clone" && callee.Pkg != nil && callee.Pkg.Pkg.Path() == "slices" {
			return ""
		}
		if why, done := helperResultFresh(x, 0, top, closure, seen, depth); done {
			return why
		}
		return "result of a call (" + x.Call.Value.Name() + ")"
	case *ssa.Phi:
		for _, e := range x.Edges {
			if why := notFreshSlice(e, cur, top, closure, seen, depth+1); why != "" {
				return why
			}
		}
		return ""
	case *ssa.ChangeType:
		return notFreshSlice(x.X, cur, top, closure, seen, depth+1)
	case *ssa.Convert:
		return notFreshSlice(x.X, cur, top, closure, seen, depth+1)
	case *ssa.Slice:
		// s[:0] / s[i:j] of a slice keeps the array; of a fresh local array (a literal) it is fresh
		if a, ok := x.X.(*ssa.Alloc); ok {
			_ = a
			return ""
		}
		return notFreshSlice(x.X, cur, top, closure, seen, depth+1)
	case *ssa.UnOp:
		if a, ok := x.X.(*ssa.Alloc); ok && x.Op == token.MUL {
			// an address-taken local: every value stored into it
			for _, r := range *a.Referrers() {
				if st, ok := r.(*ssa.Store); ok && st.Addr == a {
					if why := notFreshSlice(st.Val, cur, top, closure, seen, depth+1); why != "" {
						return why
					}
				}
			}
			return ""
		}
		return "loaded from " + x.X.String()
	case *ssa.Parameter:
		if cur == top {
			return "the parameter " + x.Name()
		}
		idx := -1
		for i, pp := range cur.Params {
			if pp == x {
				idx = i
			}
		}
		found := false
		for _, hf := range closure {
			var why string
			eachInstr(hf, func(in ssa.Instruction) {
				call, ok := in.(*ssa.Call)
				if !ok || call.Call.StaticCallee() != cur || idx < 0 || idx >= len(call.Call.Args) || why != "" {
					return
				}
				found = true
				why = notFreshSlice(call.Call.Args[idx], hf, top, closure, seen, depth+1)
			})
			if why != "" {
				return why
			}
		}
		if !found {
			return "the parameter " + x.Name() + " of " + cur.Name()
		}
		return ""
	case *ssa.TypeAssert:
		return "one of the input signatures (" + x.X.Name() + ".(" + x.AssertedType.String() + "))"
	case *ssa.Extract:
		if ta, ok := x.Tuple.(*ssa.TypeAssert); ok {
			return "one of the input signatures (" + ta.X.Name() + ".(…))"
		}
		// the result of a private helper of the closure: what the helper returns at that position
		if call, ok := x.Tuple.(*ssa.Call); ok {
			if why, done := helperResultFresh(call, x.Index, top, closure, seen, depth); done {
				return why
			}
		}
		return "a component of " + x.Tuple.Name()
	}
	return v.String()
}

// helperResultFresh follows the idx-th result of a call to a function of the closure into that function's returns.
func helperResultFresh(call *ssa.Call, idx int, top *ssa.Function, closure []*ssa.Function, seen map[ssa.Value]bool, depth int) (string, bool) {
	callee := call.Call.StaticCallee()
	if callee == nil || callee.Blocks == nil {
		return "", false
	}
	in := false
	for _, hf := range closure {
		if hf == callee {
			in = true
		}
	}
	if !in {
		return "", false
	}
	for _, r := range returnsOf(callee) {
		if idx >= len(r.Results) {
			return "", false
		}
		if isNilConst(r.Results[idx]) {
			continue
		}
		if why := notFreshSlice(r.Results[idx], callee, top, closure, seen, depth+1); why != "" {
			return why, true
		}
	}
	return "", true
}
