package main

import (
	"go/types"
	"regexp"
	"strings"

	"golang.org/x/tools/go/ssa"
)

func init() { register("C08", checkC08) }

const (
	kTOMsg    = "hs.TimeoutMsg."
	kTCAdd    = "(*hs/protocol/synchronizer.timeoutCollector).add("
	kTCField  = "p0->hs/protocol/synchronizer.timeoutCollector.timeouts"
	kRTR      = "TimeoutRuler).RemoteTimeoutRule("
	kHasAggQC = "(*hs/core.RuntimeConfig).HasAggregateQC("
)

func checkC08(c *Ctx) {
	p := c.P
	c.Decided = "a timeout enters the collector only after its view signature verified over its own view, only if the signature's signer set is exactly the authenticated sender, and (aggregate mode) only after its message signature verified; " +
		"the collector de-duplicates by (view, sender), counts and returns only timeouts of the view of the message just added, compares that count with the configured quorum size with the right polarity; " +
		"both timeout rules label the timeout certificate and the aggregate certificate with the timed-out view and build them from exactly the collected list; the resulting sync info reaches advanceView; old views are purged with a strict comparison. Both local timeout rules refuse only when signing failed."
	c.NotDec = "that the assembled certificate verifies at other replicas (follows from C02.8 and the clauses above, not re-proved); timing."
	c.Expect("C08.1", 1)
	c.Expect("C08.3", 2)
	c.Expect("C08.4", 3)
	c.Expect("C08.7", 2)
	// "exactly when a quorum timed out", forming direction: a timeout is left out of the collection only because it
	// could not be verified (shared with C05.12: no drop on view distance or any other heuristic)
	c05DropOnlyUnverified(c, "C08.9")
	// C08.10 a replica whose view timer fired always contributes its timeout: both local timeout rules refuse only
	// when signing failed, and what they return otherwise is the signed message for the view they were given
	for _, t := range []string{"Simple", "Aggregate"} {
		ltr := p.Method("protocol/synchronizer", t, "LocalTimeoutRule")
		if ltr == nil {
			c.Unresolved("C08.10", t+".LocalTimeoutRule", "anchor missing")
			continue
		}
		fr := NewFlow(p, ltr)
		var bad []string
		nErr := 0
		for _, r := range returnsOf(ltr) {
			if !fr.Reachable(r.Block()) || len(r.Results) != 2 {
				continue
			}
			refuses := false
			for _, lf := range leaves(fr, retValue(r, 1), r) {
				if !isNilConst(lf.Val) {
					refuses = true
				}
			}
			if !refuses {
				continue
			}
			nErr++
			signFailed := func(f Fact) bool {
				return f.Op == "!=" && oneIsNil(f) && strings.Contains(nonNil(f), ".Sign(") && strings.HasSuffix(nonNil(f), "#1")
			}
			ok := branchDominates(fr, r, signFailed)
			for f := range fr.At(r) {
				if signFailed(f) {
					ok = true
				}
			}
			if !ok {
				bad = append(bad, p.Pos(r.Pos()))
			}
		}
		// and the quorum's timeouts become a certificate unless building it failed
		if rtr := p.Method("protocol/synchronizer", t, "RemoteTimeoutRule"); rtr != nil {
			frr := NewFlow(p, rtr)
			var badR []string
			for _, r := range returnsOf(rtr) {
				if !frr.Reachable(r.Block()) || len(r.Results) != 2 {
					continue
				}
				refuses := false
				for _, lf := range leaves(frr, retValue(r, 1), r) {
					if !isNilConst(lf.Val) {
						refuses = true
					}
				}
				if !refuses {
					continue
				}
				failed := func(f Fact) bool {
					// (the error of the certificate constructors, or of a sibling rule the work is delegated to)
					return f.Op == "!=" && oneIsNil(f) && strings.HasSuffix(nonNil(f), "#1") && (strings.Contains(nonNil(f), ".CreateTimeoutCert(") || strings.Contains(nonNil(f), ".CreateAggregateQC(") || strings.Contains(nonNil(f), ".RemoteTimeoutRule("))
				}
				ok := branchDominates(frr, r, failed)
				for f := range frr.At(r) {
					if failed(f) {
						ok = true
					}
				}
				if !ok {
					badR = append(badR, p.Pos(r.Pos()))
				}
			}
			c.Check(len(badR) == 0, "C08.10", t+".RemoteTimeoutRule: refuses only when the certificate could not be built", p.FuncPos(rtr),
				"an error is returned only under a failed CreateTimeoutCert / CreateAggregateQC", "an error is returned at "+join(badR)+" although the certificates were built: a quorum of timeouts never becomes a timeout certificate")
		}
		c.Check(len(bad) == 0, "C08.10", t+".LocalTimeoutRule: refuses only when signing failed", p.FuncPos(ltr),
			itoa(nErr)+" error return(s), each under a failed auth.Sign", "an error is returned at "+join(bad)+" although signing did not fail: the replica never sends its timeout, and with f such replicas no view ever times out")
	}

	ort := p.Method("protocol/synchronizer", "Synchronizer", "OnRemoteTimeout")
	add := p.Method("protocol/synchronizer", "timeoutCollector", "add")
	if ort == nil || add == nil {
		c.Unresolved("C08.1", "OnRemoteTimeout/timeoutCollector.add", "anchor missing")
		return
	}
	fl := NewFlow(p, ort)
	// the calls of add made by the handler, directly or in private helpers of its package (facts in the handler's terms)
	addCalls := deepSites(fl, func(cc *ssa.CallCommon) bool { return calleeIs(cc, add) }, 0)
	if len(addCalls) == 0 {
		c.Unresolved("C08.1", "OnRemoteTimeout", "no call of timeoutCollector.add")
	}
	c.whoMayCall("C08.1", add, "timeoutCollector.add", "(*hs/protocol/synchronizer.Synchronizer).OnRemoteTimeout")
	for _, ds := range addCalls {
		s := ds.Site
		facts := ds.Facts
		arg := ds.Args[1]
		// C08.1 view signature verified over the message's own view
		ok := arg == "p1" && errNilOf(facts, func(k string) bool {
			return strings.HasPrefix(k, kBaseVer) && strings.Contains(k, ", p1."+kTOMsg+"ViewSignature, (hs.View).ToBytes(p1."+kTOMsg+"View)")
		})
		c.Check(ok, "C08.1", "OnRemoteTimeout: verified before collected", p.Pos(s.Pos()),
			"timeouts.add(timeout) only after auth.Verify(timeout.ViewSignature, timeout.View.ToBytes()) == nil",
			"add("+arg+") reachable without a successful verification of the view signature over the message's view; facts: "+join(facts.Sorted()))
		// C08.2 signer binding
		okBind := signerBound(c, facts, "p1."+kTOMsg+"ViewSignature", "p1."+kTOMsg+"ID")
		c.Check(okBind, "C08.2/binding", "OnRemoteTimeout: signature signer = sender", p.Pos(s.Pos()),
			"add only when the participants of timeout.ViewSignature are exactly {timeout.ID}",
			"the collector de-duplicates by the transport identity (timeout.ID) while certificates combine by signature identity; nothing ties the two: a replayed signature of another replica is collected and makes Combine fail for the whole view")
		// C08.8 message signature verified when aggregate QCs are enabled
		pathTarget := s
		if ds.Via != nil {
			pathTarget = ds.Via // evaluated up to the handler's call of the helper that contains the add
		}
		w := c08UnverifiedMsgSigPath(fl, ort, pathTarget, "p1")
		if w != "" && ds.Via != nil {
			// the add sits in the helper the handler hands the timeout to: the path continues there
			if cal := ds.Via.Common().StaticCallee(); cal != nil && ds.Site.Parent() == cal {
				for i, a := range ds.Via.Common().Args {
					if ak := fl.K.Key(a); ak == "p1" || ak == "*&[p1]" {
						w = c08UnverifiedMsgSigPath(NewFlow(p, cal), cal, ds.Site, "p"+itoa(i))
					}
				}
			}
		}
		// and it is the sender's own signature: the aggregate QC is checked per signer id against the message that
		// signer is recorded with, so a message signature made by someone else voids the aggregate for the whole view
		wb := c08UnboundMsgSigPath(fl, pathTarget, "p1")
		if wb != "" && ds.Via != nil {
			if cal := ds.Via.Common().StaticCallee(); cal != nil && ds.Site.Parent() == cal {
				for i, a := range ds.Via.Common().Args {
					if ak := fl.K.Key(a); ak == "p1" || ak == "*&[p1]" {
						wb = c08UnboundMsgSigPath(NewFlow(p, cal), ds.Site, "p"+itoa(i))
					}
				}
			}
		}
		c.Check(wb == "", "C08.2/binding-msg", "OnRemoteTimeout: message signature signer = sender", p.Pos(s.Pos()),
			"every path to add on which aggregate QCs may be enabled passes the test that timeout.MsgSignature is signed by timeout.ID only",
			"path to add with aggregate QCs possibly enabled on which the message signature's signer is not tied to the sender ("+wb+")")
		c.Check(w == "", "C08.8", "OnRemoteTimeout: MsgSignature verified before it can be combined", p.Pos(s.Pos()),
			"every path to add on which aggregate QCs may be enabled passes auth.Verify(timeout.MsgSignature, timeout.ToBytes()) == nil",
			"path to add with aggregate QCs possibly enabled and timeout.MsgSignature never verified ("+w+"): CreateAggregateQC combines it unverified, one bad or absent message signature voids TC and AggQC together")
	}

	// C08.2 dedup by (view, id) and C08.3 per-view quorum, inside add
	fa := NewFlow(p, add)
	{
		var stores []*ssa.Store
		eachInstr(add, func(in ssa.Instruction) {
			if st, ok := in.(*ssa.Store); ok {
				if fad, ok := st.Addr.(*ssa.FieldAddr); ok && fa.K.Key(fad) == "&"+kTCField {
					if strings.HasPrefix(fa.K.Key(st.Val), "builtin append("+kTCField+",") {
						stores = append(stores, st)
					}
				}
			}
		})
		if len(stores) == 0 {
			c.Undecided("C08.2/dedup", "timeoutCollector.add", p.FuncPos(add), "no append to the collector's slice recognised")
		}
		for _, st := range stores {
			facts := fa.At(st)
			ok := false
			for f := range facts {
				if f.Op != "false" || !strings.HasPrefix(f.L, "slices.ContainsFunc[") || !strings.Contains(f.L, "("+kTCField+", closure:") {
					continue
				}
				cl := closureNamed(add, f.L)
				if cl == nil {
					continue
				}
				ways := trueEdges(NewFlow(p, cl))
				if len(ways) != 1 {
					continue
				}
				ok = hasCmp(ways[0], "==", is("p0."+kTOMsg+"View"), is("fv:timeout->"+kTOMsg+"View")) &&
					hasCmp(ways[0], "==", is("p0."+kTOMsg+"ID"), is("fv:timeout->"+kTOMsg+"ID"))
			}
			if !ok {
				sameViewAndSender := func(hit []Fact, elem string) bool {
					has := func(field string) bool {
						a, b := elem+"."+kTOMsg+field, "p1."+kTOMsg+field
						for _, f := range hit {
							if f.Op == "==" && ((f.L == a && f.R == b) || (f.L == b && f.R == a)) {
								return true
							}
						}
						return false
					}
					return has("View") && has("ID")
				}
				ok = noMatchBefore(fa, st, func(k string) bool { return k == kTCField }, sameViewAndSender) != ""
			}
			c.Check(ok, "C08.2/dedup", "timeoutCollector.add: one timeout per (view, sender)", p.InstrPos(st),
				"the append is reached only when no stored timeout has the same View and the same ID",
				"append not gated by a duplicate test on exactly (View, ID); facts: "+join(facts.Sorted()))
		}
	}
	c08PerViewQuorum(c, fa, add)

	// C08.4 labels and list. The roles of the rule's parameters are taken from what the implementations do with
	// them: the view parameter(s) that label the certificate (passed to CreateTimeoutCert / CreateAggregateQC) and
	// the list parameter; at the call site exactly those arguments must be timeout.View and the list returned by add.
	labelIdx, listIdx := map[int]bool{}, map[int]bool{}
	paramIdx := func(k string) int {
		if len(k) < 2 || k[0] != 'p' {
			return -1
		}
		n := 0
		for _, ch := range k[1:] {
			if ch < '0' || ch > '9' {
				return -1
			}
			n = n*10 + int(ch-'0')
		}
		return n
	}
	tr := p.Iface("protocol/synchronizer", "TimeoutRuler")
	for _, t := range p.Implementations(tr, false) {
		fn := p.MethodOf(t, "RemoteTimeoutRule")
		if fn == nil {
			continue
		}
		fr := NewFlow(p, fn)
		name := t.Obj().Name()
		for _, s := range callsIn(fn, false, func(cc *ssa.CallCommon) bool {
			cal := cc.StaticCallee()
			return cal != nil && (cal.Name() == "CreateTimeoutCert" || cal.Name() == "CreateAggregateQC") && funcPkgPath(cal) == modPath+"/security/cert"
		}) {
			a := s.Common().Args
			k1, k2 := fr.K.Key(a[1]), fr.K.Key(a[2])
			what := s.Common().StaticCallee().Name()
			i1, i2 := paramIdx(k1), paramIdx(k2)
			ok := i1 > 0 && i2 > 0 && i1 < len(fn.Params) && i2 < len(fn.Params) &&
				fn.Params[i1].Type().String() == modPath+".View" && fn.Params[i2].Type().String() == "[]"+modPath+".TimeoutMsg"
			if ok {
				labelIdx[i1], listIdx[i2] = true, true
			}
			c.Check(ok, "C08.4", name+".RemoteTimeoutRule: "+what+" labelled with the timed-out view", p.Pos(s.Pos()),
				what+"(<view parameter "+paramName(fn, k1)+">, <list parameter "+paramName(fn, k2)+">)", what+" called with view="+paramName(fn, k1)+" list="+paramName(fn, k2)+" (expected a view parameter and the list parameter of the rule)")
		}
	}
	// (the rule may be called by the handler or by a private helper of its package that collects the timeout: the
	// call is found from the handler, keys and facts in the handler's terms)
	nRule := 0
	for _, d := range deepInstrs(fl, func(in ssa.Instruction) bool {
		call, ok := in.(*ssa.Call)
		return ok && call.Call.IsInvoke() && call.Call.Method.Name() == "RemoteTimeoutRule"
	}, 0) {
		nRule++
		call := d.Instr.(*ssa.Call)
		a := call.Call.Args
		facts := d.Facts
		ok := len(labelIdx) > 0 && len(listIdx) > 0
		k1, k2 := "?", "?"
		for j := range labelIdx {
			if j-1 >= len(a) {
				ok = false
				continue
			}
			k1 = d.Key(a[j-1])
			ok = ok && k1 == "p1."+kTOMsg+"View"
		}
		for j := range listIdx {
			if j-1 >= len(a) {
				ok = false
				continue
			}
			k2 = d.Key(a[j-1])
			ok = ok && strings.HasPrefix(k2, kTCAdd) && strings.HasSuffix(k2, "#0") && trueOf(facts, is(strings.TrimSuffix(k2, "#0")+"#1"))
		}
		c.Check(ok, "C08.4", "OnRemoteTimeout->RemoteTimeoutRule", p.Pos(call.Pos()),
			"the view argument that labels the certificate is timeout.View and the list argument is the list returned by add, only when add reported a quorum",
			"RemoteTimeoutRule called with certificate view="+k1+", list="+k2+" (expected the view of the timeout message and the quorum returned by add)")
		// C08.5 result reaches advanceView (judged in the function that calls the rule)
		host, hfl := d.In, d.Flow
		rk := hfl.K.Key(call)
		adv := p.Method("protocol/synchronizer", "Synchronizer", "advanceView")
		reached := false
		for _, ac := range callsIn(host, false, func(cc *ssa.CallCommon) bool { return calleeIs(cc, adv) }) {
			if hfl.K.Key(ac.Common().Args[1]) == rk+"#0" && errNilOf(hfl.At(ac), is(rk+"#1")) {
				reached = true
			}
		}
		w := reachAvoid(call, isReturn, func(in ssa.Instruction) bool {
			ci, ok := in.(ssa.CallInstruction)
			return ok && calleeIs(ci.Common(), adv) && hfl.K.Key(ci.Common().Args[1]) == rk+"#0"
		})
		// the error path may return without advancing; only the success edge must reach advanceView
		okReach := reached
		if w != nil {
			fw := hfl.At(w)
			okReach = okReach && notNilOf(fw, is(rk+"#1"))
		}
		c.Check(okReach, "C08.5", "OnRemoteTimeout: certificate reaches advanceView", p.Pos(call.Pos()),
			"the sync info returned by RemoteTimeoutRule is passed to advanceView on every path where the rule succeeded",
			"a successful RemoteTimeoutRule result can be dropped without calling advanceView")
		// ... and a quorum reported by the collector reaches the rule: add hands the quorum over once and forgets it, so a
		// return between add's "quorum" answer and the rule loses the certificate for that view for good
		addFn := p.Method("protocol/synchronizer", "timeoutCollector", "add")
		nAdd := 0
		for _, ac := range callsIn(host, false, func(cc *ssa.CallCommon) bool { return addFn != nil && calleeIs(cc, addFn) }) {
			addCall, isVal := ac.(*ssa.Call)
			if !isVal {
				continue
			}
			nAdd++
			ak := hfl.K.Key(addCall)
			w2 := cfgSearch(hfl, addCall, nil, isReturn, func(in ssa.Instruction) bool { return in == ssa.Instruction(call) }, func(fs []Fact) bool {
				for _, f := range fs {
					if f.Op == "false" && f.L == ak+"#1" {
						return true
					}
				}
				return false
			})
			c.Check(w2 == nil, "C08.5", "OnRemoteTimeout: a reported quorum reaches the timeout rule", p.Pos(addCall.Pos()),
				"every path from add's quorum answer leads to RemoteTimeoutRule (only the no-quorum edge returns before it)",
				"the handler can return at "+posOf(p, w2)+" after add reported a quorum and before RemoteTimeoutRule: the collected timeouts were handed over once and are gone, no certificate is built for that view")
		}
		if nAdd == 0 && host == fl.Fn {
			c.Unresolved("C08.5", "OnRemoteTimeout: a reported quorum reaches the timeout rule", "no call of timeoutCollector.add in the function that calls the rule")
		}
	}
	if nRule == 0 {
		c.Unresolved("C08.4", "OnRemoteTimeout", "no RemoteTimeoutRule call below the handler")
	}

	// C08.6 purge
	if dov := p.Method("protocol/synchronizer", "timeoutCollector", "deleteOldViews"); dov != nil {
		fd := NewFlow(p, dov)
		ok := false
		detail := "no slices.DeleteFunc on the collector's slice"
		eachInstr(dov, func(in ssa.Instruction) {
			call, isCall := in.(*ssa.Call)
			if !isCall || call.Call.StaticCallee() == nil || !strings.HasPrefix(call.Call.StaticCallee().String(), "slices.DeleteFunc") {
				return
			}
			if fd.K.Key(call.Call.Args[0]) != kTCField {
				return
			}
			pf, okP := predicateFacts(fd, call.Call.Args[1])
			if !okP {
				return
			}
			detail = "predicate facts: "
			nCmp := 0
			for _, f := range pf {
				detail += f.String() + "; "
				if f.Op == "after" {
					continue
				}
				nCmp++
				// t.View < the view given to deleteOldViews (its parameter)
				if f.Op == "<" && f.L == "elem."+kTOMsg+"View" && f.R == "p1" {
					ok = true
				}
			}
			if nCmp != 1 {
				ok = false
			}
		})
		if !ok {
			// the same removal through a private in-place filter of the collector (`s.retain(func(t) bool { return t.View >= v })`)
			for _, cs := range callsIn(dov, false, func(cc *ssa.CallCommon) bool {
				return cc.StaticCallee() != nil && c08InPlaceFilter(p, cc.StaticCallee()) != nil
			}) {
				fh := c08InPlaceFilter(p, cs.Common().StaticCallee())
				if fh.pred >= len(cs.Common().Args) || fd.K.Key(cs.Common().Args[0]) != "p0" {
					continue
				}
				pf, okP := predicateFactsPol(fd, cs.Common().Args[fh.pred], !fh.keep)
				if !okP {
					continue
				}
				detail = "facts when an element is removed: "
				nCmp, hit := 0, false
				for _, f := range pf {
					detail += f.String() + "; "
					if f.Op == "after" {
						continue
					}
					nCmp++
					if f.Op == "<" && f.L == "elem."+kTOMsg+"View" && f.R == "p1" {
						hit = true
					}
				}
				ok = hit && nCmp == 1
			}
		}
		c.Check(ok, "C08.6", "deleteOldViews: removes exactly t.View < currentView", p.FuncPos(dov),
			"DeleteFunc predicate is t.View < currentView (timeouts of the current and future views are kept)", detail)
	} else {
		c.Unresolved("C08.6", "deleteOldViews", "anchor missing")
	}

	// C08.6b collected timeouts leave the bag only by view: every write of the bag is its creation, the (gated) append,
	// or a DeleteFunc whose predicate compares t.View with the quorum's view / the current view
	{
		tf := p.Field("protocol/synchronizer", "timeoutCollector", "timeouts")
		var bad []string
		n := 0
		for _, w := range p.fieldWrites(tf) {
			st, ok := w.Instr.(*ssa.Store)
			if !ok || w.Fresh {
				continue
			}
			n++
			fw := NewFlow(p, w.Fn)
			vk := fw.K.Key(st.Val)
			switch {
			case strings.HasPrefix(vk, "make@"):
			case strings.HasPrefix(vk, "builtin append("+kTCField+","):
			case strings.HasPrefix(vk, "slices.DeleteFunc["):
				call, _ := st.Val.(*ssa.Call)
				okPred := false
				if call != nil && fw.K.Key(call.Call.Args[0]) == kTCField {
					if cl := funcOfValue(call.Call.Args[1]); cl != nil {
						ways := trueEdges(NewFlow(p, cl))
						if len(ways) == 1 {
							for f := range ways[0] {
								if (f.Op == "==" || f.Op == "<") && (strings.Contains(f.L, kTOMsg+"View") || strings.Contains(f.R, kTOMsg+"View")) {
									okPred = true
								}
							}
							for f := range ways[0] {
								if f.Op != "after" && !(strings.Contains(f.L, kTOMsg+"View") || strings.Contains(f.R, kTOMsg+"View")) {
									okPred = false
								}
							}
						}
					}
				}
				if !okPred {
					bad = append(bad, p.InstrPos(st)+": DeleteFunc with a predicate that is not a comparison of t.View")
				}
			default:
				// the store of an in-place filter helper: what it removes is decided by each caller's predicate
				if fh := c08InPlaceFilter(p, w.Fn); fh != nil {
					callers := callIndexOf(p).callers[w.Fn]
					okAll := len(callers) > 0 && !callIndexOf(p).asValue[w.Fn]
					for _, r := range callers {
						ci, isCI := r.Instr.(ssa.CallInstruction)
						if !isCI || fh.pred >= len(ci.Common().Args) {
							okAll = false
							continue
						}
						pf, okP := predicateFactsPol(NewFlow(p, r.In), ci.Common().Args[fh.pred], !fh.keep)
						okPred := okP
						nView := 0
						for _, f := range pf {
							if f.Op == "after" {
								continue
							}
							if (f.Op == "==" || f.Op == "<") && (strings.Contains(f.L, kTOMsg+"View") || strings.Contains(f.R, kTOMsg+"View")) {
								nView++
							} else {
								okPred = false
							}
						}
						if !okPred || nView == 0 {
							okAll = false
							bad = append(bad, p.InstrPos(r.Instr)+": filter with a predicate that is not a comparison of t.View")
						}
					}
					if okAll {
						break
					}
					if len(bad) > 0 {
						break
					}
				}
				bad = append(bad, p.InstrPos(st)+": timeouts := "+shortVal(vk))
			}
		}
		c.Check(len(bad) == 0 && n >= 3, "C08.6", "timeoutCollector.timeouts: entries are removed only by view", "protocol/synchronizer/timeout_collector.go",
			itoa(n)+" writes: creation, gated append, and DeleteFunc by t.View only", "collected timeouts can be discarded for a reason other than their view (a flood of other views' timeouts evicts a forming quorum): "+join(bad))
		dov := p.Method("protocol/synchronizer", "timeoutCollector", "deleteOldViews")
		if dov != nil {
			refs := c.whoMayCall("C08.6", dov, "timeoutCollector.deleteOldViews", "(*hs/protocol/synchronizer.Synchronizer).OnRemoteTimeout")
			okArg := len(refs) > 0
			for _, r := range refs {
				ci, ok := r.Instr.(ssa.CallInstruction)
				if !ok {
					okArg = false
					continue
				}
				fr := NewFlow(p, r.In)
				if !strings.HasPrefix(fr.K.Key(ci.Common().Args[1]), "(*hs/protocol.ViewStates).View(") {
					okArg = false
				}
			}
			c.Check(okArg, "C08.6", "deleteOldViews is given the replica's current view", p.FuncPos(dov),
				"timeouts are purged only below state.View() as read by the handler", "deleteOldViews is called with something other than the current view: timeouts of views not yet left can be purged")
		}
	}

	// C08.7 certificates are built from exactly the list
	c08Builders(c)
}

func paramName(fn *ssa.Function, key string) string {
	for i, prm := range fn.Params {
		if key == "p"+itoa(i) {
			return prm.Name()
		}
	}
	return key
}

// closureNamed finds the closure of fn whose short name occurs in key.
func closureNamed(fn *ssa.Function, key string) *ssa.Function {
	for _, cl := range Closures(fn) {
		if strings.Contains(key, "closure:"+shortName(cl)+")") || strings.HasSuffix(key, "closure:"+shortName(cl)) || strings.Contains(key, "closure:"+shortName(cl)+",") {
			return cl
		}
	}
	return nil
}

// signerBound: facts contain a gate tying sigKey's participants to exactly {idKey}:
// inline (Len == 1 and Contains(id) / first participant == id) or via a helper whose
// true result implies both.
func signerBound(c *Ctx, facts FactSet, sigKey, idKey string) bool {
	lenIs1 := hasCmp(facts, "==", is(kPartLen+sigKey+"))"), is("c:1"))
	contains := trueOf(facts, func(k string) bool {
		return strings.HasPrefix(k, "invoke (hs.IDSet).Contains(invoke (hs.QuorumSignature).Participants("+sigKey+"), "+idKey+")")
	})
	if lenIs1 && contains {
		return true
	}
	for f := range facts {
		if f.Op != "true" {
			continue
		}
		for _, cand := range c.P.ModFuncs {
			pre := shortName(cand) + "("
			if !strings.HasPrefix(f.L, pre) || cand.Signature.Results().Len() != 1 {
				continue
			}
			args := strings.TrimSuffix(strings.TrimPrefix(f.L, pre), ")")
			if i := strings.LastIndex(args, ")@"); i >= 0 && !strings.Contains(args[i:], ",") {
				args = args[:i]
			}
			if args != sigKey+", "+idKey {
				continue
			}
			ways := trueEdges(NewFlow(c.P, cand))
			all := len(ways) > 0
			for _, w := range ways {
				l1 := hasCmp(w, "==", is(kPartLen+"p0))"), is("c:1"))
				ct := trueOf(w, func(k string) bool {
					return strings.HasPrefix(k, "invoke (hs.IDSet).Contains(invoke (hs.QuorumSignature).Participants(p0), p1)")
				})
				if !(l1 && ct) {
					all = false
				}
			}
			if all {
				return true
			}
		}
	}
	return false
}

// c08UnverifiedMsgSigPath searches for a CFG path from the entry of OnRemoteTimeout to
// the add call that takes neither the "HasAggregateQC() is false" edge nor the
// "Verify(timeout.MsgSignature, timeout.ToBytes()) == nil" edge.
func c08UnverifiedMsgSigPath(fl *Flow, fn *ssa.Function, addCall ssa.CallInstruction, tmo string) string {
	closes := func(fs []Fact) bool {
		for _, f := range fs {
			if f.Op == "false" && strings.HasPrefix(f.L, kHasAggQC) {
				return true
			}
			if f.Op == "==" && oneIsNil(f) {
				k := nonNil(f)
				if strings.HasPrefix(k, kBaseVer) && strings.Contains(k, ", "+tmo+"."+kTOMsg+"MsgSignature, (hs.TimeoutMsg).ToBytes("+tmo+")") {
					return true
				}
			}
		}
		return false
	}
	return openPathTo(fl, addCall, closes)
}

// c08PerViewQuorum (C08.3): in add, the list returned with `true` contains only
// timeouts of the added message's view, and its length was compared with QuorumSize().
func c08PerViewQuorum(c *Ctx, fa *Flow, add *ssa.Function) {
	p := c.P
	found := false
	for _, r := range returnsOf(add) {
		if !fa.Reachable(r.Block()) || len(r.Results) < 2 || !isBoolConst(retValue(r, 1), true) {
			continue
		}
		found = true
		list := retValue(r, 0)
		lk := fa.K.Key(list)
		facts := fa.At(r)
		// (a) threshold: QuorumSize() <= len(list)
		okT := hasCmp(facts, "<=", contains(kQuorumSize), func(k string) bool { return strings.HasPrefix(k, "builtin len("+lk+")") }) ||
			hasCmp(facts, "<=", contains(kQuorumSize), func(k string) bool { return strings.HasPrefix(k, "builtin len(") && sameListLen(fa, list, k) })
		if !okT {
			// the quorum is tested on a counter of the timeouts that pass the same test over the same collection as the
			// elements of the list built afterwards: the count is the list's length
			eachInstr(add, func(in ssa.Instruction) {
				ph, isPhi := in.(*ssa.Phi)
				if !isPhi || okT {
					return
				}
				if hasCmp(facts, "<=", contains(kQuorumSize), is(fa.K.Key(ph))) && c08CountIsListLen(fa, ph, list) {
					okT = true
				}
			})
		}
		c.Check(okT, "C08.3/threshold", "timeoutCollector.add: quorum compares the returned list", p.Pos(r.Pos()),
			"(list, true) is returned only under QuorumSize() <= len(list)",
			"the quantity compared with QuorumSize() is not the length of the returned list; facts: "+join(facts.Sorted()))
		// (b) per-view restriction of the list
		ok, detail := perViewList(fa, list)
		c.Check(ok, "C08.3/per-view", "timeoutCollector.add: only timeouts of this view are counted and returned", p.Pos(r.Pos()),
			detail, "the list returned on quorum ("+lk+") is not restricted to t.View == timeout.View: timeouts of other views count toward this view's quorum and are put into its certificate")
	}
	if !found {
		c.Unresolved("C08.3", "timeoutCollector.add", "no (list, true) return")
	}
}

// sameListLen: key k is len(x) where x is the same phi/loop-carried list as `list`.
func sameListLen(fa *Flow, list ssa.Value, k string) bool {
	ok := false
	eachInstr(fa.Fn, func(in ssa.Instruction) {
		call, isCall := in.(*ssa.Call)
		if !isCall {
			return
		}
		if b, isB := call.Call.Value.(*ssa.Builtin); isB && b.Name() == "len" && fa.K.Key(call) == k {
			if call.Call.Args[0] == list {
				ok = true
			}
			// len(x) where list = slices.Clone(x) evaluated with no intervening write is the same length
			if lc, isC := list.(*ssa.Call); isC && lc.Call.StaticCallee() != nil && strings.HasPrefix(lc.Call.StaticCallee().String(), "slices.Clone") {
				if fa.K.Key(lc.Call.Args[0]) == fa.K.Key(call.Call.Args[0]) {
					ok = true
				}
			}
		}
	})
	return ok
}

// perViewList: every element that can be in list was appended under t.View == timeout.View
// (loop idiom), or list is the result of filtering with that predicate.
func perViewList(fa *Flow, list ssa.Value) (bool, string) {
	// collect append calls feeding the list (also inside a private helper of the package that builds it)
	var appends []*ssa.Call
	cloneAll := false
	sliceEnterHelpers, sliceProg = funcPkgPath(fa.Fn), fa.P
	defer func() { sliceEnterHelpers, sliceProg = "", nil }()
	backwardSlice(list, func(v ssa.Value) bool {
		if call, ok := v.(*ssa.Call); ok {
			if b, ok := call.Call.Value.(*ssa.Builtin); ok && b.Name() == "append" {
				appends = append(appends, call)
			}
			if cal := call.Call.StaticCallee(); cal != nil && strings.HasPrefix(cal.String(), "slices.Clone") {
				cloneAll = true
			}
		}
		// a load of the collector's whole slice
		if u, ok := v.(*ssa.UnOp); ok {
			if fad, ok := u.X.(*ssa.FieldAddr); ok && v == list {
				if in, isIn := v.(ssa.Instruction); isIn && in.Parent() == fa.Fn && fa.K.Key(fad) == "&"+kTCField {
					cloneAll = true
				}
			}
		}
		return false
	})
	if cloneAll || len(appends) == 0 {
		return false, ""
	}
	for _, ap := range appends {
		owner := ap.Parent()
		fl := fa
		toRoot := func(k string) string { return k }
		if owner != fa.Fn {
			fl = NewFlow(fa.P, owner)
			var args []string
			for _, s := range callsIn(fa.Fn, false, func(cc *ssa.CallCommon) bool { return calleeIs(cc, owner) }) {
				args = nil
				for _, a := range s.Common().Args {
					args = append(args, fa.K.Key(a))
				}
			}
			toRoot = func(k string) string {
				return paramRe.ReplaceAllStringFunc(k, func(m string) string {
					i := 0
					for _, ch := range m[1:] {
						i = i*10 + int(ch-'0')
					}
					if i < len(args) {
						return args[i]
					}
					return m
				})
			}
		}
		facts := fl.At(ap)
		// the appended element t (an element of the collector's slice) has t.View == timeout.View
		ok := false
		for f := range facts {
			if f.Op != "==" {
				continue
			}
			l, r := toRoot(f.L), toRoot(f.R)
			isElem := func(k string) bool {
				return strings.HasSuffix(k, "."+kTOMsg+"View") && strings.HasPrefix(k, kTCField+"[")
			}
			if (isElem(l) && r == "p1."+kTOMsg+"View") || (isElem(r) && l == "p1."+kTOMsg+"View") {
				ok = true
			}
		}
		if !ok {
			return false, ""
		}
	}
	return true, "every append feeding the returned list is under t.View == timeout.View for an element t of the collector (" + itoa(len(appends)) + " append sites)"
}

// c08Builders (C08.7): CreateTimeoutCert combines exactly the ViewSignatures of its
// list, CreateAggregateQC the MsgSignatures and per-sender QCs.
func c08Builders(c *Ctx) {
	p := c.P
	type b struct{ name, field, ctor string }
	for _, x := range []b{{"CreateTimeoutCert", "ViewSignature", "hs.NewTimeoutCert("}, {"CreateAggregateQC", "MsgSignature", "hs.NewAggregateQC("}} {
		fn := p.Method("security/cert", "Authority", x.name)
		if fn == nil {
			c.Unresolved("C08.7", x.name, "anchor missing")
			continue
		}
		fl := NewFlow(p, fn)
		var combine *ssa.Call
		eachInstr(fn, func(in ssa.Instruction) {
			if call, ok := in.(*ssa.Call); ok && call.Call.IsInvoke() && call.Call.Method.Name() == "Combine" {
				combine = call
			}
		})
		if combine == nil {
			c.Violated("C08.7", x.name, p.FuncPos(fn), "no Combine call")
			continue
		}
		// every append feeding Combine's argument appends range-element.<field> of p2 (the list may be collected by a
		// private helper of the package that receives the timeouts)
		listIn := func(f *ssa.Function) string {
			if f == fn {
				return "p2"
			}
			for _, cs := range callsIn(fn, false, func(cc *ssa.CallCommon) bool { return calleeIs(cc, f) }) {
				for i, a := range cs.Common().Args {
					if fl.K.Key(a) == "p2" {
						return "p" + itoa(i)
					}
				}
			}
			return "\x00"
		}
		okApp, n := true, 0
		sliceEnterHelpers, sliceProg = funcPkgPath(fn), p
		backwardSlice(combine.Call.Args[0], func(v ssa.Value) bool {
			call, ok := v.(*ssa.Call)
			if !ok {
				return false
			}
			bi, ok := call.Call.Value.(*ssa.Builtin)
			if !ok || bi.Name() != "append" {
				return false
			}
			n++
			elemOK := false
			hk := fl.K
			if call.Parent() != fn {
				hk = NewKeyer(p, call.Parent())
			}
			lp := listIn(call.Parent())
			storedInto(sliceBase(call.Call.Args[1]), func(e ssa.Value) bool {
				k := hk.Key(e)
				if strings.HasPrefix(k, lp+"[") && strings.HasSuffix(k, "."+kTOMsg+x.field) {
					elemOK = true
				}
				return false
			})
			if !elemOK {
				okApp = false
			}
			return false
		})
		sliceEnterHelpers, sliceProg = "", nil
		// or an indexed fill of a pre-sized slice: sl[i] = p2[i].<field> for the same index i
		inSlice := map[ssa.Value]bool{}
		backwardSlice(combine.Call.Args[0], func(v ssa.Value) bool { inSlice[v] = true; return false })
		eachInstr(fn, func(in ssa.Instruction) {
			st, ok := in.(*ssa.Store)
			if !ok {
				return
			}
			ia, ok := st.Addr.(*ssa.IndexAddr)
			if !ok || !inSlice[ia.X] {
				return
			}
			if _, isArr := ia.X.(*ssa.Alloc); isArr {
				return // the varargs array of an append, handled above
			}
			n++
			k := fl.K.Key(st.Val)
			if !(strings.HasPrefix(k, "p2["+fl.K.Key(ia.Index)+"]") && strings.HasSuffix(k, "."+kTOMsg+x.field)) {
				okApp = false
			}
		})
		// label: constructor receives (.., Combine result, p1)
		labelOK := false
		eachInstr(fn, func(in ssa.Instruction) {
			call, ok := in.(*ssa.Call)
			if !ok || call.Call.StaticCallee() == nil {
				return
			}
			k := fl.K.Key(call)
			if !strings.HasPrefix(k, x.ctor) {
				return
			}
			args := call.Call.Args
			// the signature handed to the constructor is the Combine result (a variable that stays nil for view 0,
			// where nothing is signed, is the same thing as the early return of an unsigned certificate)
			isCombined := func(v ssa.Value) bool {
				if fl.K.Key(v) == fl.K.Key(combine)+"#0" {
					return true
				}
				lvs := leaves(fl, v, call)
				some := false
				for _, lf := range lvs {
					switch {
					case lf.KeyIn(fl) == fl.K.Key(combine)+"#0":
						some = true
					case isNilConst(lf.Val) && lf.Facts[eqFact("c:0", "p1")]:
					default:
						return false
					}
				}
				return some
			}
			if x.name == "CreateTimeoutCert" && len(args) == 2 && isCombined(args[0]) && fl.K.Key(args[1]) == "p1" {
				labelOK = true
			}
			if x.name == "CreateAggregateQC" && len(args) == 3 && isCombined(args[1]) && fl.K.Key(args[2]) == "p1" {
				labelOK = true
			}
		})
		c.Check(okApp && n > 0 && labelOK, "C08.7", x.name+": built from exactly the given timeouts", p.FuncPos(fn),
			"Combine receives the "+x.field+" of each element of the list ("+itoa(n)+" append site); the certificate carries the Combine result and the view parameter",
			"appends-ok="+boolStr(okApp)+" sites="+itoa(n)+" label-ok="+boolStr(labelOK))
	}
}

// sliceBase returns the array local behind a `slice t[:]` varargs value.
func sliceBase(v ssa.Value) ssa.Value {
	if s, ok := v.(*ssa.Slice); ok {
		return s.X
	}
	return v
}

var phiIDRe = regexp.MustCompile(`phi@b\d+i\d+`)

// c08CountIsListLen: ph counts, while ranging over a slice field, the elements that pass a test; list is built by
// appending, while ranging over the same field, exactly the elements that pass the same test; the field is not
// written between the two loops. Then ph == len(list).
func c08CountIsListLen(fa *Flow, ph *ssa.Phi, list ssa.Value) bool {
	incs := counterIncrements(ph)
	base := elementCounterBase(ph)
	if len(incs) == 0 || base == nil {
		return false
	}
	baseKey := fa.K.Key(base)
	norm := func(fs FactSet, elemPrefix string) map[string]bool {
		out := map[string]bool{}
		for f := range fs {
			if f.Op == "after" || !(strings.Contains(f.L, elemPrefix) || strings.Contains(f.R, elemPrefix)) {
				continue
			}
			out[phiIDRe.ReplaceAllString(f.String(), "phi")] = true
		}
		return out
	}
	elemPrefix := baseKey + "[(phi@"
	var want map[string]bool
	for _, inc := range incs {
		got := norm(fa.At(inc), elemPrefix)
		if len(got) == 0 {
			return false
		}
		if want == nil {
			want = got
		} else if !sameStringSet(want, got) {
			return false
		}
	}
	// the list: a loop-header phi fed by an empty make and by appends of the range element under the same test
	lp, ok := list.(*ssa.Phi)
	if !ok || !isLoopHeaderPhi(lp) {
		return false
	}
	nApp := 0
	for _, e := range lp.Edges {
		switch x := e.(type) {
		case *ssa.MakeSlice:
			if !isIntConst(x.Len, 0) {
				return false
			}
		case *ssa.Phi:
			if x != lp {
				return false
			}
		case *ssa.Call:
			b, isB := x.Call.Value.(*ssa.Builtin)
			if !isB || b.Name() != "append" || x.Call.Args[0] != ssa.Value(lp) {
				return false
			}
			nApp++
			elemOK := false
			storedInto(sliceBase(x.Call.Args[1]), func(ev ssa.Value) bool {
				ek := fa.K.Key(ev)
				elemOK = strings.HasPrefix(ek, elemPrefix) && strings.HasSuffix(ek, ")]")
				return false
			})
			if !elemOK || !sameStringSet(want, norm(fa.At(x), elemPrefix)) {
				return false
			}
		default:
			if !isNilConst(e) {
				return false
			}
		}
	}
	if nApp == 0 {
		return false
	}
	// the collection is the same in both loops: no store to the field can lie between them
	between := false
	eachInstr(fa.Fn, func(in ssa.Instruction) {
		st, ok := in.(*ssa.Store)
		if !ok || fa.K.Key(st.Addr) != "&"+baseKey {
			return
		}
		fromCount := blockReaches(ph.Block(), st.Block())
		toList := blockReaches(st.Block(), lp.Block())
		if fromCount && toList {
			between = true
		}
	})
	return !between
}

func sameStringSet(a, b map[string]bool) bool {
	if len(a) != len(b) {
		return false
	}
	for k := range a {
		if !b[k] {
			return false
		}
	}
	return true
}

// blockReaches: to is reachable from from (or is from).
func blockReaches(from, to *ssa.BasicBlock) bool {
	if from == to {
		return true
	}
	seen := map[*ssa.BasicBlock]bool{from: true}
	work := []*ssa.BasicBlock{from}
	for len(work) > 0 {
		b := work[0]
		work = work[1:]
		for _, s := range b.Succs {
			if s == to {
				return true
			}
			if !seen[s] {
				seen[s] = true
				work = append(work, s)
			}
		}
	}
	return false
}

type c08Filter struct {
	fn   *ssa.Function
	pred int  // index of the predicate parameter
	keep bool // the predicate says which elements stay (false: which ones go)
}

var c08FilterMemo = map[*ssa.Function]*c08Filter{}
var c08FilterSeen = map[*ssa.Function]bool{}

// c08InPlaceFilter: fn is a private method of the timeout collector that filters its slice in place by a predicate
// parameter: kept := s.timeouts[:0]; for _, t := range s.timeouts { if keep(t) { kept = append(kept, t) } };
// (clear the tail;) s.timeouts = kept. Order is preserved and nothing else is written.
func c08InPlaceFilter(p *Prog, fn *ssa.Function) *c08Filter {
	if c08FilterSeen[fn] {
		return c08FilterMemo[fn]
	}
	c08FilterSeen[fn] = true
	if fn == nil || fn.Blocks == nil || fn.Parent() != nil || fn.Object() == nil || fn.Object().Exported() || len(fn.Params) < 2 {
		return nil
	}
	k := NewKeyer(p, fn)
	fl := NewFlow(p, fn)
	var kept *ssa.Phi
	nStore := 0
	okBody := true
	eachInstr(fn, func(in ssa.Instruction) {
		switch x := in.(type) {
		case *ssa.Store:
			if k.Key(x.Addr) == "&"+kTCField {
				nStore++
				kept, _ = x.Val.(*ssa.Phi)
			} else if _, isAlloc := x.Addr.(*ssa.Alloc); !isAlloc {
				if ia, isIA := x.Addr.(*ssa.IndexAddr); !isIA || !strings.HasPrefix(k.Key(ia.X), "alloc@") {
					okBody = false // writes something else
				}
			}
		case *ssa.MapUpdate, *ssa.Send, *ssa.Go, *ssa.Defer:
			okBody = false
		}
	})
	if nStore != 1 || kept == nil || !okBody || !isLoopHeaderPhi(kept) {
		return nil
	}
	out := &c08Filter{fn: fn, pred: -1}
	nApp := 0
	for _, e := range kept.Edges {
		switch x := e.(type) {
		case *ssa.Slice:
			if k.Key(x.X) != kTCField || x.Low != nil || !isIntConst(x.High, 0) {
				return nil
			}
		case *ssa.Phi:
			if x != kept {
				return nil
			}
		case *ssa.Call:
			b, isB := x.Call.Value.(*ssa.Builtin)
			if !isB || b.Name() != "append" || x.Call.Args[0] != ssa.Value(kept) {
				return nil
			}
			nApp++
			var elem string
			n := 0
			storedInto(sliceBase(x.Call.Args[1]), func(ev ssa.Value) bool { elem = k.Key(ev); n++; return false })
			if n != 1 || !strings.HasPrefix(elem, kTCField+"[(phi@") {
				return nil
			}
			facts := fl.At(x)
			found := false
			for i, prm := range fn.Params {
				if _, isSig := prm.Type().Underlying().(*types.Signature); !isSig {
					continue
				}
				pre := "dyn p" + itoa(i) + "(" + elem + ")"
				switch {
				case trueOf(facts, func(s string) bool { return strings.HasPrefix(s, pre) }):
					if out.pred >= 0 && (out.pred != i || !out.keep) {
						return nil
					}
					out.pred, out.keep, found = i, true, true
				case falseOf(facts, func(s string) bool { return strings.HasPrefix(s, pre) }):
					if out.pred >= 0 && (out.pred != i || out.keep) {
						return nil
					}
					out.pred, out.keep, found = i, false, true
				}
			}
			if !found {
				return nil
			}
		default:
			return nil
		}
	}
	if nApp != 1 || out.pred < 0 {
		return nil
	}
	c08FilterMemo[fn] = out
	return out
}

// c08UnboundMsgSigPath: "" if every path to addCall crosses "aggregate QCs disabled" or a true verdict of a boolean
// function of the package applied to (timeout.MsgSignature, timeout.ID) (signedOnlyBy), else a description of an open path.
func c08UnboundMsgSigPath(fl *Flow, addCall ssa.CallInstruction, tmo string) string {
	closes := func(fs []Fact) bool {
		for _, f := range fs {
			if f.Op == "false" && strings.HasPrefix(f.L, kHasAggQC) {
				return true
			}
			if f.Op == "true" && strings.Contains(f.L, "("+tmo+"."+kTOMsg+"MsgSignature, "+tmo+"."+kTOMsg+"ID)") {
				return true
			}
		}
		return false
	}
	return openPathTo(fl, addCall, closes)
}
