package main

// "No element of the list matches" — one fact, two idioms.
//
// Membership gates (one vote per signer, one timeout per (view, sender), a signer is appended
// only if not yet contained) are written either as an explicit loop with an early exit on the
// hit, or with slices.ContainsFunc / slices.IndexFunc and a predicate closure. Both establish the
// same thing at the guarded instruction: a complete scan of the list found no element e with
// match(e). noMatchBefore recognises both, so that rewriting one into the other changes no verdict.

import (
	"go/token"
	"regexp"
	"sort"
	"strings"

	"golang.org/x/tools/go/ssa"
)

var (
	cp0Re     = regexp.MustCompile(`\bp0\b`)
	derefFvRe = regexp.MustCompile(`\*fv:([A-Za-z_][A-Za-z0-9_]*)`)
	fvRe      = regexp.MustCompile(`fv:([A-Za-z_][A-Za-z0-9_]*)`)
)

// normSel makes pointer and value selections comparable ("x->T.f" and "x.T.f").
func normSel(k string) string { return strings.ReplaceAll(k, "->", ".") }

// closureFactsInOuter re-expresses the facts of closure cl (created by mc in outer) in outer's
// terms: the closure's first parameter becomes "elem", captured variables become the keys of
// the values bound to them.
func closureFactsInOuter(outer *Flow, mc *ssa.MakeClosure, cl *ssa.Function, facts FactSet) []Fact {
	bind := map[string]string{}  // fv name -> outer key of the bound value
	deref := map[string]string{} // fv name -> outer key of what the bound cell holds
	for i, fv := range cl.FreeVars {
		if i >= len(mc.Bindings) {
			continue
		}
		ok := outer.K.Key(mc.Bindings[i])
		bind[fv.Name()] = ok
		if strings.HasPrefix(ok, "&[") && strings.HasSuffix(ok, "]") {
			deref[fv.Name()] = ok[2 : len(ok)-1]
		} else if al, isAlloc := mc.Bindings[i].(*ssa.Alloc); isAlloc {
			// a captured local assigned once: the stored value
			var vals []ssa.Value
			storedInto(al, func(v ssa.Value) bool { vals = append(vals, v); return false })
			if len(vals) == 1 {
				deref[fv.Name()] = outer.K.Key(vals[0])
			}
		}
	}
	sub := func(k string) string {
		k = cp0Re.ReplaceAllString(k, "elem")
		k = derefFvRe.ReplaceAllStringFunc(k, func(m string) string {
			if v, ok := deref[m[4:]]; ok {
				return v
			}
			return m
		})
		k = fvRe.ReplaceAllStringFunc(k, func(m string) string {
			if v, ok := bind[m[3:]]; ok {
				return v
			}
			return m
		})
		return normSel(k)
	}
	var out []Fact
	for f := range facts {
		g := Fact{f.Op, sub(f.L), ""}
		if f.R != "" {
			g.R = sub(f.R)
		}
		if (g.Op == "==" || g.Op == "!=") && g.L > g.R {
			g.L, g.R = g.R, g.L
		}
		out = append(out, g)
	}
	return out
}

// noMatchBefore decides that `at` is reached only after a complete scan of a list (key
// satisfying isList) found no element for which match holds. match receives the facts of the
// "hit" outcome with selections normalised by normSel, and the normalised key of the element.
// It returns the idiom recognised ("" if none).
func noMatchBefore(fl *Flow, at ssa.Instruction, isList func(string) bool, match func(hit []Fact, elem string) bool) string {
	fn := fl.Fn
	facts := fl.At(at)
	// idiom A: slices.ContainsFunc / slices.IndexFunc with a predicate closure
	idiom := ""
	eachInstr(fn, func(in ssa.Instruction) {
		call, ok := in.(*ssa.Call)
		if !ok || idiom != "" || call.Call.StaticCallee() == nil || len(call.Call.Args) != 2 {
			return
		}
		name := call.Call.StaticCallee().String()
		isContains := strings.HasPrefix(name, "slices.ContainsFunc")
		isIndex := strings.HasPrefix(name, "slices.IndexFunc")
		if !(isContains || isIndex) || !isList(fl.K.Key(call.Call.Args[0])) {
			return
		}
		ck := fl.K.Key(call)
		negative := false
		if isContains {
			negative = facts[Fact{"false", ck, ""}]
		} else {
			negative = facts[eqFact(ck, "c:-1")] || facts[Fact{"<", ck, "c:0"}]
		}
		if !negative {
			return
		}
		pf, ok := predicateFacts(fl, call.Call.Args[1])
		if !ok {
			return
		}
		if match(pf, "elem") {
			idiom = "slices search with predicate closure"
		}
	})
	if idiom != "" {
		return idiom
	}
	// idiom A': the slices search sits in a boolean helper of the package (`func (s *T) has(view, id) bool { return
	// slices.ContainsFunc(s.list, func(e) bool {...}) }`) whose result is known to be false here
	eachInstr(fn, func(in ssa.Instruction) {
		call, ok := in.(*ssa.Call)
		if !ok || idiom != "" {
			return
		}
		hf := call.Call.StaticCallee()
		if hf == nil || hf == fn || hf.Blocks == nil || hf.Synthetic != "" || funcPkgPath(hf) != funcPkgPath(fn) || !facts[Fact{"false", fl.K.Key(call), ""}] {
			return
		}
		rets := returnsOf(hf)
		if len(rets) != 1 || len(rets[0].Results) != 1 {
			return
		}
		inner, ok := rets[0].Results[0].(*ssa.Call)
		if !ok || inner.Call.StaticCallee() == nil || !strings.HasPrefix(inner.Call.StaticCallee().String(), "slices.ContainsFunc") || len(inner.Call.Args) != 2 {
			return
		}
		hfl := NewFlow(fl.P, hf)
		args := make([]string, len(call.Call.Args))
		for i, a := range call.Call.Args {
			args[i] = fl.K.Key(a)
		}
		toCaller := func(k string) string {
			return normSel(paramRe.ReplaceAllStringFunc(k, func(m string) string {
				i := 0
				for _, ch := range m[1:] {
					i = i*10 + int(ch-'0')
				}
				if i < len(args) {
					return args[i]
				}
				return m
			}))
		}
		if !isList(paramRe.ReplaceAllStringFunc(hfl.K.Key(inner.Call.Args[0]), func(m string) string {
			i := 0
			for _, ch := range m[1:] {
				i = i*10 + int(ch-'0')
			}
			if i < len(args) {
				return args[i]
			}
			return m
		})) {
			return
		}
		pf, ok := predicateFacts(hfl, inner.Call.Args[1])
		if !ok {
			return
		}
		conv := make([]Fact, 0, len(pf))
		for _, f := range pf {
			g := Fact{f.Op, toCaller(f.L), ""}
			if f.R != "" {
				g.R = toCaller(f.R)
			}
			if (g.Op == "==" || g.Op == "!=") && g.L > g.R {
				g.L, g.R = g.R, g.L
			}
			conv = append(conv, g)
		}
		if match(conv, "elem") {
			idiom = "slices search in a boolean helper"
		}
	})
	if idiom != "" {
		return idiom
	}
	// idiom B: explicit loop over the list with an exit on the hit
	var elems []string
	eachInstr(fn, func(in ssa.Instruction) {
		switch x := in.(type) {
		case *ssa.IndexAddr:
			if isList(fl.K.Key(x.X)) {
				elems = append(elems, strings.TrimPrefix(fl.K.Key(x), "&"))
			}
		case *ssa.Index:
			if isList(fl.K.Key(x.X)) {
				elems = append(elems, fl.K.Key(x))
			}
		}
	})
	for _, b := range fn.Blocks {
		iff, ok := b.Instrs[len(b.Instrs)-1].(*ssa.If)
		if !ok || len(b.Succs) != 2 {
			continue
		}
		for hitIdx := 0; hitIdx < 2; hitIdx++ {
			var fs []Fact
			fl.decompose(iff.Cond, hitIdx == 0, &fs)
			// conditions tested earlier in the same loop iteration (a && b written as nested ifs)
			for f := range fl.AtBlockStart(b) {
				fs = append(fs, f)
			}
			norm := make([]Fact, 0, len(fs))
			for _, f := range fs {
				g := Fact{f.Op, normSel(f.L), normSel(f.R)}
				if (g.Op == "==" || g.Op == "!=") && g.L > g.R {
					g.L, g.R = g.R, g.L
				}
				norm = append(norm, g)
			}
			for _, e := range elems {
				if !match(norm, normSel(e)) {
					continue
				}
				hit, miss := b.Succs[hitIdx], b.Succs[1-hitIdx]
				if reachWithFlags(b, hit, at) {
					continue
				}
				if scanExitDominates(miss, at) {
					return "loop with exit on the hit"
				}
			}
		}
	}
	return ""
}

// scanExitDominates: from the "no match" successor of the comparison the loop continues (through
// an optional increment block) at its header; `at` must not be reachable from the loop body
// without going through the header's exit, i.e. only after every element was compared.
func scanExitDominates(miss *ssa.BasicBlock, at ssa.Instruction) bool {
	hdr := miss
	for i := 0; i < 3; i++ {
		if len(hdr.Instrs) == 0 {
			return false
		}
		if _, ok := hdr.Instrs[len(hdr.Instrs)-1].(*ssa.If); ok {
			break
		}
		if len(hdr.Succs) != 1 {
			return false
		}
		hdr = hdr.Succs[0]
	}
	hif, ok := hdr.Instrs[len(hdr.Instrs)-1].(*ssa.If)
	if !ok {
		return false
	}
	body := hif.Block().Succs[0]
	// (flag-aware: `found = true; break` followed by `if found { return }` does not reach `at`)
	if reachWithFlagsStop(hdr, body, at, hdr) {
		return false
	}
	// and `at` is reachable from the header's exit at all
	return true
}

// predicateFacts resolves a predicate function value used in fl.Fn (a literal, a local holding
// one, or the result of a constructor of the module that returns one) and returns the facts of
// its single "true" outcome in fl.Fn's terms: the predicate's first parameter is "elem", captured
// variables are replaced by what they are bound to (constructor parameters by the arguments).
func predicateFacts(fl *Flow, v ssa.Value) ([]Fact, bool) { return predicateFactsPol(fl, v, true) }

// predicateFactsPol: what holds when the predicate answers `truth` (a single way), in the terms of fl's function.
func predicateFactsPol(fl *Flow, v ssa.Value, truth bool) ([]Fact, bool) {
	cl, env := resolveClosure(fl, v)
	if cl == nil {
		return nil, false
	}
	ways := boolEdges(NewFlow(fl.P, cl), truth)
	if len(ways) != 1 {
		return nil, false
	}
	sub := func(k string) string {
		k = cp0Re.ReplaceAllString(k, "elem")
		k = derefFvRe.ReplaceAllStringFunc(k, func(m string) string {
			if val, ok := env["*"+m[4:]]; ok {
				return val
			}
			return m
		})
		k = fvRe.ReplaceAllStringFunc(k, func(m string) string {
			if val, ok := env[m[3:]]; ok {
				return val
			}
			return m
		})
		return normSel(k)
	}
	var out []Fact
	for f := range ways[0] {
		g := Fact{f.Op, sub(f.L), ""}
		if f.R != "" {
			g.R = sub(f.R)
		}
		if (g.Op == "==" || g.Op == "!=") && g.L > g.R {
			g.L, g.R = g.R, g.L
		}
		out = append(out, g)
	}
	return out, true
}

// reachWithFlags: is `at` reachable from the edge pred -> start, where boolean flags set on the way
// decide later tests? A flag is a phi of constants (`found := false; for … { if hit { found = true;
// break } }; if found { return }`): entering the phi's block from a predecessor whose incoming value
// is a constant fixes the flag, and an `if flag` further on follows only the matching branch.
func reachWithFlags(pred, start *ssa.BasicBlock, at ssa.Instruction) bool {
	return reachWithFlagsStop(pred, start, at, nil)
}

// reachWithFlagsStop: as reachWithFlags, never entering block stop.
func reachWithFlagsStop(pred, start *ssa.BasicBlock, at ssa.Instruction, stop *ssa.BasicBlock) bool {
	type st struct {
		b   *ssa.BasicBlock
		key string
	}
	seen := map[st]bool{}
	var rec func(pred, b *ssa.BasicBlock, asg map[*ssa.Phi]bool) bool
	rec = func(pred, b *ssa.BasicBlock, asg map[*ssa.Phi]bool) bool {
		next := make(map[*ssa.Phi]bool, len(asg)+1)
		for k, v := range asg {
			next[k] = v
		}
		for _, in := range b.Instrs {
			ph, ok := in.(*ssa.Phi)
			if !ok {
				break
			}
			for i, p := range b.Preds {
				if p != pred || i >= len(ph.Edges) {
					continue
				}
				switch {
				case isBoolConst(ph.Edges[i], true):
					next[ph] = true
				case isBoolConst(ph.Edges[i], false):
					next[ph] = false
				default:
					if src, isPhi := ph.Edges[i].(*ssa.Phi); isPhi {
						if v, known := next[src]; known {
							next[ph] = v // the flag handed on through a join
							continue
						}
					}
					delete(next, ph)
				}
			}
		}
		keys := make([]string, 0, len(next))
		for ph, v := range next {
			keys = append(keys, ph.Name()+map[bool]string{true: "+", false: "-"}[v])
		}
		sort.Strings(keys)
		k := st{b, strings.Join(keys, ",")}
		if seen[k] {
			return false
		}
		seen[k] = true
		for _, in := range b.Instrs {
			if in == at {
				return true
			}
		}
		iff, isIf := b.Instrs[len(b.Instrs)-1].(*ssa.If)
		for i, s := range b.Succs {
			if s == stop {
				continue
			}
			if isIf && len(b.Succs) == 2 {
				cond, truth := iff.Cond, i == 0
				for {
					u, ok := cond.(*ssa.UnOp)
					if !ok || u.Op != token.NOT {
						break
					}
					cond, truth = u.X, !truth
				}
				if ph, ok := cond.(*ssa.Phi); ok {
					if v, known := next[ph]; known && v != truth {
						continue
					}
				}
			}
			if rec(b, s, next) {
				return true
			}
		}
		return false
	}
	return rec(pred, start, map[*ssa.Phi]bool{})
}
