#!/usr/bin/env python3
"""Regenerates MANIFEST.json from scripts/claims.json (one entry per claimed property)."""
import json, os, sys
root = os.path.dirname(os.path.dirname(os.path.abspath(__file__)))
claims = json.load(open(os.path.join(root, "scripts", "claims.json")))
props = [json.loads(l) for l in open(os.path.join(root, "properties.jsonl"))]
baseline = json.load(open("/root/.vp/BASELINE.json"))["cmd"] if os.path.exists("/root/.vp/BASELINE.json") else ""
checks, na = [], []
for p in props:
    pid = p["id"]
    c = claims.get(pid)
    if not c or c.get("not_applicable"):
        na.append({"property_id": pid, "reason": (c or {}).get("not_applicable", "no check registered in this revision (see DESIGN.md section 4 for the planned rules)")})
        continue
    checks.append({
        "property_id": pid,
        "quick_cmd": f"scripts/check.sh {pid} quick",
        "thorough_cmd": f"scripts/check.sh {pid} thorough",
        "evidence_file": f"/verif/evidence/{pid}.json",
        "replay_cmd_template": "scripts/replay.sh {path}",
        "engine": "hsverif",
        "level_claimed": {"category": "other", "text": c["text"], "design_ref": f"DESIGN.md section 4, {pid}"},
        "level_note": c["note"],
        "technique": c["technique"],
    })
m = {
    "version": 1,
    "setup_cmd": "scripts/setup.sh",
    "hooks": {"guard": "verif", "enable": "none: the checks analyse the source statically and need no hooks or instrumentation in /repo",
              "baseline_off_cmd": baseline, "source_commits": [], "add_only": True},
    "engines": [{"name": "hsverif", "path": "checker/", "serves_properties": [c["property_id"] for c in checks],
                 "kind_free_text": "repository-specific static analyser (go/packages + go/ssa, x/tools v0.50.0): must-facts dataflow over the CFG, who-may-call/write, lockset, nil-flow, field coverage, decision tables, closed-form integer arithmetic"}],
    "checks": checks,
    "not_applicable": na,
    "notes": "All claims are at level 'other': structural necessary conditions of each property, decided on every path of /repo's current source without executing it. "
             "Each evidence file states what is decided and what is not. Genuine defects found are either repaired by 'fix:' commits in /repo or listed in known_findings.json.",
}
json.dump(m, open(os.path.join(root, "MANIFEST.json"), "w"), indent=1)
print(f"{len(checks)} checks, {len(na)} not applicable")
