# Sourced by every script: offline Go environment.
# /repo needs go1.25.6 (its go.mod has a `tool` block); the checker is built with go1.26.8.
export GOFLAGS=-mod=mod GOPROXY=off GOWORK=off
unset GOTOOLCHAIN GOSUMDB
GO125="/root/go/pkg/mod/golang.org/toolchain@v0.0.1-go1.25.6.linux-amd64/bin"
if [ -x "$GO125/go" ]; then
  # go/packages runs `go list` in /repo: use the toolchain /repo asks for directly.
  export HSVERIF_GO="$GO125/go"
fi
export REPO_DIR="${REPO_DIR:-/repo}"
