#!/bin/bash
set -uo pipefail
HERE="$(cd "$(dirname "$0")/.." && pwd)"
. "$HERE/scripts/env.sh"
[ -x "$HERE/bin/hsverif" ] || "$HERE/scripts/setup.sh" >/dev/null
[ -n "${HSVERIF_GO:-}" ] && export PATH="$(dirname "$HSVERIF_GO"):$PATH"
exec "$HERE/bin/hsverif" replay "$1"
