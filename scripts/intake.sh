#!/bin/bash
# usage: [RACE=1] scripts/intake.sh <agent-worktree> <variant a|b> <name> [file-prefix, default SEED]   (RACE=1: run the demonstration under the race detector)
# Independently confirms a seeded change delivered by a sub-agent and, if confirmed, stores it under /verif/seeded/<name>/.
# Confirms: patch applies to /repo HEAD, builds, the existing suite passes with it, the demonstration fails with it and
# passes without it. Everything runs in fresh scratch worktrees that are removed afterwards.
set -uo pipefail
HERE="$(cd "$(dirname "$0")/.." && pwd)"
SRC="$1"; V="$2"; NAME="$3"; PFX="${4:-SEED}"
TMPO="$(mktemp /tmp/intake-out.XXXXXX)"; TMPS="$(mktemp /tmp/intake-suite.XXXXXX)"
export GOFLAGS=-mod=mod GOPROXY=off; unset GOTOOLCHAIN GOSUMDB
diff="$SRC/${PFX}_$V.diff"; demo="$SRC/${PFX}_${V}_demo_test.go.txt"; meta="$SRC/${PFX}_$V.json"
for f in "$diff" "$demo" "$meta"; do [ -s "$f" ] || { echo "missing $f"; exit 2; }; done
pkg="$(python3 -c "import json;print(json.load(open('$meta'))['demo_pkg_dir'])")"
tname="$(grep -o 'func Test[A-Za-z0-9_]*' "$demo" | head -1 | sed 's/func //')"
wt="$(mktemp -d /tmp/intake.XXXXXX)"; rmdir "$wt"
git -C /repo worktree add -q --detach "$wt" HEAD
cleanup() { git -C /repo worktree remove --force "$wt" 2>/dev/null; rm -f "$TMPO" "$TMPS"; }
trap cleanup EXIT
# demo on the unchanged tree
cp "$demo" "$wt/$pkg/zz_seed_demo_test.go"
if ! (cd "$wt/$pkg" && go test ${RACE:+-race} -count=1 -run "^${tname}\$" . >"$TMPO" 2>&1); then echo "REJECT: demo fails on the unchanged tree"; tail -20 "$TMPO"; exit 1; fi
echo "demo passes on the unchanged tree"
git -C "$wt" apply "$diff" || { echo "REJECT: patch does not apply"; exit 1; }
(cd "$wt" && go build ./... ) || { echo "REJECT: does not build"; exit 1; }
if (cd "$wt/$pkg" && go test ${RACE:+-race} -count=1 -run "^${tname}\$" . >"$TMPO" 2>&1); then echo "REJECT: demo passes with the change"; exit 1; fi
echo "demo fails with the change: $(grep -m1 -E '^\s+.*_test.go:[0-9]+:|panic:|FAIL' "$TMPO" | head -1 | cut -c1-200)"
rm "$wt/$pkg/zz_seed_demo_test.go"
# existing suite with the change
if ! (cd "$wt" && go test -vet=off -count=1 -timeout 20m ./... >"$TMPS" 2>&1); then
  # timing-sensitive tests (core/eventloop TestTicker) fail now and then on a loaded machine: re-run the failing packages alone, twice
  pkgs="$(grep -E "^FAIL[[:space:]]+github.com" "$TMPS" | awk '{print $2}' | sort -u)"
  [ -n "$pkgs" ] || { echo "REJECT: existing suite fails with the change"; grep -E "^(--- FAIL|FAIL)" "$TMPS" | head; exit 1; }
  if ! (cd "$wt" && go test -vet=off -count=1 -p 1 $pkgs >"$TMPS" 2>&1) && ! (cd "$wt" && sleep 5 && go test -vet=off -count=1 -p 1 $pkgs >"$TMPS" 2>&1); then
    echo "REJECT: existing suite fails with the change (also when the failing packages are re-run alone)"; grep -E "^(--- FAIL|FAIL)" "$TMPS" | head; exit 1
  fi
  echo "note: $pkgs failed in the full run and passed when re-run alone (timing-sensitive test on a loaded machine)"
fi
echo "existing suite passes with the change"
mkdir -p "$HERE/seeded/$NAME"
cp "$diff" "$HERE/seeded/$NAME/patch.diff"
cp "$demo" "$HERE/seeded/$NAME/demo_test.go.txt"
python3 - "$meta" "$HERE/seeded/$NAME/meta.json" "$pkg" "$tname" <<'PY'
import json,sys,os
m=json.load(open(sys.argv[1]))
out={"property":m.get("property"),"summary":m.get("summary"),"breaks":m.get("breaks"),"needs":m.get("needs"),
 "demo_pkg_dir":sys.argv[3],"demo_test":sys.argv[4],
 "how_to_run_demo":f"copy demo_test.go.txt to <worktree>/{sys.argv[3]}/zz_seed_demo_test.go and run: go test {'-race ' if os.environ.get('RACE') else ''}-run '^{sys.argv[4]}$' ./{sys.argv[3]}",
 "confirmed":"scripts/intake.sh: patch applies to /repo HEAD and builds; demonstration passes without and fails with the change; the whole existing suite (go test ./...) passes with the change",
 "agent_commands_run":m.get("commands_run")}
json.dump(out,open(sys.argv[2],"w"),indent=1)
PY
echo "ACCEPTED -> $HERE/seeded/$NAME"
