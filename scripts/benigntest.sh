#!/bin/bash
# Applies every behaviour-preserving refactoring under /verif/benign/<name>/patch.diff to a scratch worktree of /repo HEAD
# and prints which checks fire on it (none should). Not part of any check's exit code. usage: scripts/benigntest.sh [name...]
set -uo pipefail
HERE="$(cd "$(dirname "$0")/.." && pwd)"
. "$HERE/scripts/env.sh"
[ -n "${HSVERIF_GO:-}" ] && export PATH="$(dirname "$HSVERIF_GO"):$PATH"
[ -x "$HERE/bin/hsverif" ] || "$HERE/scripts/setup.sh" >/dev/null
names=("$@"); [ ${#names[@]} -eq 0 ] && names=($(ls "$HERE/benign"))
for n in "${names[@]}"; do
  d="$HERE/benign/$n"; [ -f "$d/patch.diff" ] || continue
  wt="$(mktemp -d /tmp/benign.XXXXXX)"; rmdir "$wt"
  git -C "$REPO_DIR" worktree add -q --detach "$wt" HEAD
  if ! git -C "$wt" apply "$d/patch.diff" 2>/dev/null; then echo "$n: PATCH DOES NOT APPLY"; git -C "$REPO_DIR" worktree remove --force "$wt"; continue; fi
  OUT="$(mktemp -d /tmp/hsverif-benign.XXXXXX)"; cp "$HERE/known_findings.json" "$OUT/"
  fired="$("$HERE/bin/hsverif" matrix -repo "$wt" -root "$OUT" 2>/dev/null | sed -n 's/^FIRING://p')"
  if [ -z "${fired// /}" ]; then echo "$n: silent"; else echo "$n: FALSE ALARM by$fired"; fi
  rm -rf "$OUT"; git -C "$REPO_DIR" worktree remove --force "$wt"
done
