#!/bin/bash
# usage: run.sh <worker> <nworkers>
W=$1; NW=$2
export GOFLAGS=-mod=mod GOPROXY=off; unset GOTOOLCHAIN GOSUMDB GOWORK
wt=/tmp/mut/wt$W
[ -d $wt ] || git -C /repo worktree add -q --detach $wt HEAD
mkdir -p /tmp/mut/res
i=0
while read -r line; do
  i=$((i+1)); [ $(( i % NW )) -eq $W ] || continue
  id=$(echo "$line" | python3 -c "import json,sys;print(json.load(sys.stdin)['id'])")
  f=$(echo "$line" | python3 -c "import json,sys;print(json.load(sys.stdin)['file'])")
  [ -f /tmp/mut/res/$id.txt ] && continue
  git -C $wt checkout -q -- . ; 
  if ! git -C $wt apply /tmp/mut/m/$id.diff 2>/dev/null; then echo "noapply" > /tmp/mut/res/$id.txt; continue; fi
  if ! (cd $wt && go build ./... >/dev/null 2>&1); then echo "nobuild" > /tmp/mut/res/$id.txt; continue; fi
  pkg=./$(dirname $f)
  if ! (cd $wt && timeout 300 go test -vet=off -count=1 -timeout 240s $pkg >/dev/null 2>&1); then echo "killed-pkg" > /tmp/mut/res/$id.txt; continue; fi
  OUT=$(mktemp -d /tmp/mut/out.XXXXXX); cp /verif/known_findings.json $OUT/
  res="$(. /verif/scripts/env.sh; timeout 600 /verif/bin/hsverif.mut matrix -v -repo $wt -root $OUT 2>&1)"
  rm -rf $OUT
  fired=$(echo "$res" | sed -n 's/^FIRING://p')
  rules=$(echo "$res" | sed -n -E 's/^(C[0-9]{2}) (VIOLATED|UNDECIDED|ANCHOR-UNRESOLVED) ([^ ]+) .*/\1:\3/p' | sort -u | tr '\n' ' ')
  if [ -z "${fired// /}" ]; then echo "survive-unflagged" > /tmp/mut/res/$id.txt; else echo "survive-flagged $fired | $rules" > /tmp/mut/res/$id.txt; fi
done < /tmp/mut/index.jsonl
git -C $wt checkout -q -- .
