#!/bin/bash
W=$1; NW=$2
. /verif/scripts/env.sh
wt=/tmp/mut/wt$W
mkdir -p /tmp/mut/res2
i=0
for r in $(grep -l "^survive-unflagged" /tmp/mut/res/*.txt | sort); do
  i=$((i+1)); [ $(( i % NW )) -eq $W ] || continue
  id=$(basename $r .txt)
  git -C $wt checkout -q -- .
  git -C $wt apply /tmp/mut/m/$id.diff 2>/dev/null || continue
  OUT=$(mktemp -d /tmp/mut/out.XXXXXX); cp /verif/known_findings.json $OUT/
  res="$(timeout 600 /verif/bin/hsverif.mut matrix -v -repo $wt -root $OUT 2>&1)"
  rm -rf $OUT
  fired=$(echo "$res" | sed -n 's/^FIRING://p')
  rules=$(echo "$res" | sed -n -E 's/^(C[0-9]{2}) (VIOLATED|UNDECIDED|ANCHOR-UNRESOLVED) ([^ ]+) .*/\1:\3/p' | sort -u | tr '\n' ' ')
  if [ -z "${fired// /}" ]; then echo "unflagged" > /tmp/mut/res2/$id.txt; else echo "flagged $fired | $rules" > /tmp/mut/res2/$id.txt; fi
done
git -C $wt checkout -q -- .
