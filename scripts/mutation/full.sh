#!/bin/bash
# usage: full.sh <worker> <nworkers>  : full suite on unflagged survivors
W=$1; NW=$2
export GOFLAGS=-mod=mod GOPROXY=off; unset GOTOOLCHAIN GOSUMDB GOWORK
wt=/tmp/mut/wt$W
mkdir -p /tmp/mut/full
i=0
for r in $(grep -l "^survive-unflagged" /tmp/mut/res/*.txt | sort); do
  i=$((i+1)); [ $(( i % NW )) -eq $W ] || continue
  id=$(basename $r .txt)
  [ -f /tmp/mut/full/$id.txt ] && continue
  git -C $wt checkout -q -- .
  git -C $wt apply /tmp/mut/m/$id.diff 2>/dev/null || { echo noapply > /tmp/mut/full/$id.txt; continue; }
  if (cd $wt && timeout 1200 go test -vet=off -count=1 -timeout 15m ./... > /tmp/mut/full/$id.log 2>&1); then echo "PASS" > /tmp/mut/full/$id.txt; rm -f /tmp/mut/full/$id.log; continue; fi
  pkgs="$(grep -E "^FAIL[[:space:]]+github.com" /tmp/mut/full/$id.log | awk '{print $2}' | sort -u)"
  if [ -n "$pkgs" ] && (cd $wt && timeout 900 go test -vet=off -count=1 -p 1 $pkgs > /tmp/mut/full/$id.log2 2>&1); then echo "PASS(after rerun of $pkgs)" > /tmp/mut/full/$id.txt; else echo "FAIL $(echo $pkgs | tr '\n' ' ')" > /tmp/mut/full/$id.txt; fi
  rm -f /tmp/mut/full/$id.log /tmp/mut/full/$id.log2
done
git -C $wt checkout -q -- .
