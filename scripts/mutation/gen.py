#!/usr/bin/env python3
# Generate single-site mutants of the anchored non-test files. Output: /tmp/mut/m/<id>.diff + index.jsonl
import json,re,random,os,subprocess,sys
random.seed(int(sys.argv[1]) if len(sys.argv)>1 else 7)
N=int(sys.argv[2]) if len(sys.argv)>2 else 400
files={}
for l in open('/verif/properties.jsonl'):
    o=json.loads(l)
    for f in o['anchors']['files']:
        if f.endswith('.go') and not f.endswith('_test.go') and not f.endswith('.pb.go') and os.path.exists('/repo/'+f):
            files.setdefault(f,[]).append(o['id'])
cands=[]
rel=[(r'(?<![<>=!:+\-*/&|^%])<(?![<=\-])',' <= ','lt->le'),(r'<=',' < ','le->lt'),(r'(?<![<>=!\-])>(?![>=])',' >= ','gt->ge'),(r'>=',' > ','ge->gt'),(r'==',' != ','eq->ne'),(r'!=',' == ','ne->eq'),(r'&&',' || ','and->or'),(r'\|\|',' && ','or->and')]
for f,props in files.items():
    src=open('/repo/'+f).read().split('\n')
    infunc=False
    for i,line in enumerate(src):
        s=line.strip()
        if s.startswith('//') or not s: continue
        if line.startswith('func '): infunc=True
        if not infunc: continue
        code=line.split('//')[0]
        if re.match(r'\s*(if|} else if|for)\b',code) or re.match(r'\s*return\b.*(==|!=|<|>|&&|\|\|)',code) or re.match(r'\s*\w+\s*:?=\s*.*(==|!=|<=|>=|&&|\|\|)',code) or re.match(r'\s*case\b',code):
            if '"' in code: code_nq=re.sub(r'"[^"]*"',lambda m:'"'+'_'*(len(m.group(0))-2)+'"',code)
            else: code_nq=code
            for pat,rep,name in rel:
                for m in re.finditer(pat,code_nq):
                    if '<-' in code_nq[max(0,m.start()-1):m.end()+1]: continue
                    if code_nq[m.start():m.end()+1] in ('<-',): continue
                    new=line[:m.start()]+rep.strip()+line[m.end():]
                    cands.append((f,i,new,name))
            if re.match(r'\s*if\b',code) and code.rstrip().endswith('{') and ';' not in code:
                cond=code.strip()[2:-1].strip()
                ind=line[:len(line)-len(line.lstrip())]
                cands.append((f,i,f'{ind}if false && ({cond}) {{','guard-off'))
                cands.append((f,i,f'{ind}if true || ({cond}) {{','guard-on'))
        # statement deletion: simple call statements and field assignments
        if re.match(r'\s*[\w\.\[\]]+\.\w+\(.*\)\s*$',code) and not re.match(r'\s*(return|defer|go)\b',code) and 'logger' not in code and 'Log' not in code:
            cands.append((f,i,line[:len(line)-len(line.lstrip())]+'_ = 0 // deleted: '+s[:40].replace('*/',''),'del-call'))
        if re.match(r'\s*(delete|close)\(.*\)\s*$',code):
            cands.append((f,i,line[:len(line)-len(line.lstrip())]+'_ = 0','del-builtin'))
        if re.match(r'\s*[\w\.\[\]]+\.\w+(\[[^\]]*\])?\s*(=|\+\+|--|\+=|-=)[^=]',code) and ':=' not in code:
            cands.append((f,i,line[:len(line)-len(line.lstrip())]+'_ = 0','del-assign'))
        for m in re.finditer(r'([+-]) ?1\b(?!\d)',code):
            if re.search(r'\w\s*$',code[:m.start()]):
                cands.append((f,i,line[:m.start()]+m.group(1)+' 0'+line[m.end():],'off-by-one'))
random.shuffle(cands)
os.makedirs('/tmp/mut/m',exist_ok=True)
idx=open('/tmp/mut/index.jsonl','w')
seen=set(); n=0
perfile={}
for f,i,new,name in cands:
    if n>=N: break
    if (f,i,name) in seen: continue
    if perfile.get(f,0)>=max(6,N//25): continue
    seen.add((f,i,name)); perfile[f]=perfile.get(f,0)+1
    src=open('/repo/'+f).read().split('\n')
    old=src[i]
    if new==old: continue
    src2=src[:]; src2[i]=new
    import difflib
    d=''.join(difflib.unified_diff([x+'\n' for x in src],[x+'\n' for x in src2],'a/'+f,'b/'+f,n=3))
    mid=f'M{n:04d}'
    open(f'/tmp/mut/m/{mid}.diff','w').write(d)
    idx.write(json.dumps({'id':mid,'file':f,'line':i+1,'op':name,'old':old.strip(),'new':new.strip(),'props':files[f]})+'\n')
    n+=1
print(n,'mutants from',len(cands),'candidates')
