#!/usr/bin/env python3
"""Regenerates the table of DESIGN.md section 8 from a log of scripts/selftest.sh and seeded/*/meta.json.
usage: scripts/gen_seed_table.py <selftest.log>   (rewrites the table rows between the header row and the next blank line)"""
import json, os, re, sys
here = os.path.dirname(os.path.dirname(os.path.abspath(__file__)))
log = open(sys.argv[1]).read().splitlines()
rows = []
for line in log:
    m = re.match(r'^(\S+): breaks (C\d\d) -> (\w+) by own check; all firing checks:(.*?); rules: (.*)$', line)
    if not m:
        continue
    name, prop, own, fired, rules = m.groups()
    fired = fired.split()
    own_rules = sorted({r.split(':', 1)[1] for r in rules.split() if r.startswith(prop + ':')})
    # imported rules are printed as "Cxx.n Cyy.m ..." in the instance; keep the own rule id only
    also = [f for f in fired if f != prop]
    meta = json.load(open(os.path.join(here, 'seeded', name, 'meta.json')))
    s = meta.get('summary') or ''
    if not isinstance(s, str):
        s = json.dumps(s)
    s = ' '.join(s.split())
    if len(s) > 170:
        s = s[:170].rsplit(' ', 1)[0] + ' …'
    s = s.replace('|', '/')
    rows.append('| `%s` | %s | %s | %s |' % (name, ', '.join(own_rules) if own == 'caught' else '**not reported**', ' '.join(also) or '–', s))
d = open(os.path.join(here, 'DESIGN.md')).read()
head = '| seeded change | own rule(s) that report it | also | what was changed |\n|---|---|---|---|\n'
i = d.index(head) + len(head)
j = d.index('\n\n', i)
d = d[:i] + '\n'.join(rows) + d[j:]
open(os.path.join(here, 'DESIGN.md'), 'w').write(d)
print(len(rows), 'rows')
