#!/bin/bash
# usage: scripts/check.sh <PROPERTY> <quick|thorough>
# Rebuilds the checker if needed and analyses /repo's current working tree.
set -uo pipefail
HERE="$(cd "$(dirname "$0")/.." && pwd)"
. "$HERE/scripts/env.sh"
if [ ! -x "$HERE/bin/hsverif" ] || [ -n "$(find "$HERE/checker" -name '*.go' -not -path '*/vendor/*' -newer "$HERE/bin/hsverif" 2>/dev/null | head -1)" ]; then
  "$HERE/scripts/setup.sh" >/dev/null || { echo "checker build failed"; exit 2; }
fi
[ -n "${HSVERIF_GO:-}" ] && export PATH="$(dirname "$HSVERIF_GO"):$PATH"
exec "$HERE/bin/hsverif" check "$1" "${2:-${VERIF_TIER:-quick}}" -repo "$REPO_DIR" -root "$HERE"
