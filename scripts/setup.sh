#!/bin/bash
# Build the checker from vendored sources only (offline).
set -euo pipefail
cd "$(dirname "$0")/.."
mkdir -p bin evidence
cd checker
GOFLAGS=-mod=vendor GOPROXY=off GOTOOLCHAIN=local GOWORK=off go1.26.8 build -o ../bin/hsverif .
echo "built $(pwd)/../bin/hsverif"
