#!/bin/bash
# Replays every seeded change under /verif/seeded/<name>/patch.diff on a scratch worktree of /repo HEAD and prints
# which checks report a violation (one program load per change: `hsverif matrix`). Not part of any check's exit code. usage: scripts/selftest.sh [name...]
set -uo pipefail
HERE="$(cd "$(dirname "$0")/.." && pwd)"
. "$HERE/scripts/env.sh"
[ -n "${HSVERIF_GO:-}" ] && export PATH="$(dirname "$HSVERIF_GO"):$PATH"
[ -x "$HERE/bin/hsverif" ] || "$HERE/scripts/setup.sh" >/dev/null
names=("$@"); [ ${#names[@]} -eq 0 ] && names=($(ls "$HERE/seeded"))
ALL="C01 C02 C03 C04 C05 C06 C07 C08 C09 C10 C11 C12 C13 C14 C15 C16 C17 C18 C19 C20"
for n in "${names[@]}"; do
  d="$HERE/seeded/$n"; [ -f "$d/patch.diff" ] || continue
  wt="$(mktemp -d /tmp/selftest.XXXXXX)"; rmdir "$wt"
  git -C "$REPO_DIR" worktree add -q --detach "$wt" HEAD
  if ! git -C "$wt" apply "$d/patch.diff" 2>/dev/null; then echo "$n: PATCH DOES NOT APPLY"; git -C "$REPO_DIR" worktree remove --force "$wt"; continue; fi
  prop="$(python3 -c "import json;print(json.load(open('$d/meta.json'))['property'])" 2>/dev/null)"
  OUT="$(mktemp -d /tmp/hsverif-self.XXXXXX)"; cp "$HERE/known_findings.json" "$OUT/"
  mout="$("$HERE/bin/hsverif" matrix -v -repo "$wt" -root "$OUT" 2>/dev/null)"
  fired="$(echo "$mout" | sed -n 's/^FIRING://p')"
  rules="$(echo "$mout" | sed -n -E 's/^(C[0-9]{2}) (VIOLATED|UNDECIDED|ANCHOR-UNRESOLVED) ([^ ]+) .*/\1:\3/p' | sort -u | tr '\n' ' ')"
  own="MISSED"; case " $fired " in *" $prop "*) own="caught";; esac
  echo "$n: breaks $prop -> $own by own check; all firing checks:${fired:- none}; rules: $rules"
  rm -rf "$OUT"; git -C "$REPO_DIR" worktree remove --force "$wt"
done
