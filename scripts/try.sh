#!/bin/bash
# usage: scripts/try.sh <repo-dir> <PROPERTY>...   -- run checks against another tree (e.g. a scratch
# worktree with a seeded change) without touching /verif/evidence.
set -uo pipefail
HERE="$(cd "$(dirname "$0")/.." && pwd)"
. "$HERE/scripts/env.sh"
[ -n "${HSVERIF_GO:-}" ] && export PATH="$(dirname "$HSVERIF_GO"):$PATH"
DIR="$1"; shift
OUT="$(mktemp -d /tmp/hsverif-try.XXXXXX)"
cp "$HERE/known_findings.json" "$OUT/"
rc=0
for p in "$@"; do
  "$HERE/bin/hsverif" check "$p" "${VERIF_TIER:-quick}" -repo "$DIR" -root "$OUT" | sed "s|$OUT|<out>|g" || rc=1
done
rm -rf "$OUT"
exit $rc
