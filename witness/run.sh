#!/bin/bash
# usage: witness/run.sh [file...]   (default: all witnesses)
set -uo pipefail
HERE="$(cd "$(dirname "$0")" && pwd)"
export GOFLAGS=-mod=mod GOPROXY=off
unset GOTOOLCHAIN GOSUMDB
files=("$@"); [ ${#files[@]} -eq 0 ] && files=("$HERE"/*_test.go.txt)
rc=0
for f in "${files[@]}"; do
  base="$(basename "$f")"; commit="${base%%_*}"
  case "$base" in known-*)
    # witnesses of known (unrepaired) findings: must FAIL on /repo HEAD
    pkg="$(sed -n 's|^// witness-pkg: ||p' "$f" | head -1)"
    tname="$(grep -o 'func Test[A-Za-z0-9_]*' "$f" | head -1 | sed 's/func //')"
    wt="$(mktemp -d /tmp/witness.XXXXXX)"; rmdir "$wt"
    git -C /repo worktree add -q --detach "$wt" HEAD
    cp "$f" "$wt/$pkg/zz_witness_test.go"
    if (cd "$wt/$pkg" && go test -count=1 -run "^${tname}\$" . >/tmp/witness.out 2>&1); then echo "BAD  $base @ HEAD: pass, expected fail (finding no longer reproduces)"; rc=1; else echo "ok   $base @ HEAD: fail (expected, known finding)"; fi
    git -C /repo worktree remove --force "$wt"; continue;;
  esac
  pkg="$(sed -n 's|^// witness-pkg: ||p' "$f" | head -1)"
  tname="$(grep -o 'func Test[A-Za-z0-9_]*' "$f" | head -1 | sed 's/func //')"
  for rev in "$commit^" "$commit"; do
    wt="$(mktemp -d /tmp/witness.XXXXXX)"; rmdir "$wt"
    git -C /repo worktree add -q --detach "$wt" "$rev" || { echo "worktree failed"; rc=1; continue; }
    cp "$f" "$wt/$pkg/zz_witness_test.go"
    if (cd "$wt/$pkg" && go test -count=1 -run "^${tname}\$" . >/tmp/witness.out 2>&1); then res=pass; else res=fail; fi
    want=pass; [ "$rev" = "$commit^" ] && want=fail
    if [ "$res" = "$want" ]; then echo "ok   $base @ $rev: $res (expected)"; else echo "BAD  $base @ $rev: $res, expected $want"; tail -15 /tmp/witness.out; rc=1; fi
    git -C /repo worktree remove --force "$wt"
  done
done
exit $rc
